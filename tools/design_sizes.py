#!/usr/bin/env python3
"""Rewrite the Size column of the per-property table in DESIGN.md from evidence/*.json (quick tier)."""
import json
import os
import re

ROOT = os.path.dirname(os.path.dirname(os.path.abspath(__file__)))


def fmt(n):
    return f"{n / 1e6:.2f}M" if n >= 1e6 else f"{n / 1e3:.0f}k" if n >= 1e4 else str(n)


s = open(os.path.join(ROOT, "DESIGN.md")).read()
out = []
for line in s.splitlines():
    m = re.match(r"^\| (C\d\d) \|", line)
    if m:
        ev = json.load(open(os.path.join(ROOT, "evidence", m.group(1) + ".json")))
        cov = ev["coverage"]
        cells = line.rstrip().rstrip("|").split("|")
        size = f" {fmt(cov['states'])} states, {fmt(cov['traces_validated_against_impl'])} replayed, {ev['wall_s']:.0f} s "
        cells[-1] = size
        line = "|".join(cells) + "|"
    out.append(line)
open(os.path.join(ROOT, "DESIGN.md"), "w").write("\n".join(out) + "\n")
