#!/bin/sh
# usage: tools/run_all.sh <seed> [tier]   -- runs every registered check once, prints one line each
cd "$(dirname "$0")/.." || exit 2
SEED="${1:-0}"; TIER="${2:-quick}"
for c in $(python3 -c "import json;print(' '.join(x['property_id'] for x in json.load(open('MANIFEST.json'))['checks']))"); do
  s=$(date +%s)
  VERIF_SEED=$SEED VERIF_TIER=$TIER timeout 3000 ./check $c > /tmp/runall.$c.$SEED.$TIER.out 2>&1; rc=$?
  e=$(date +%s)
  echo "seed=$SEED tier=$TIER $c rc=$rc $((e-s))s $(grep -c '^KNOWN-FINDING' /tmp/runall.$c.$SEED.$TIER.out) known | $(tail -1 /tmp/runall.$c.$SEED.$TIER.out | cut -c1-140)"
done
