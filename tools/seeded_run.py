#!/usr/bin/env python3
"""Run the registered checks against every seeded change under /verif/seeded.

Never touches /repo: one scratch worktree of /repo's HEAD is created under /tmp, each change is applied
THERE, the checks run with PYTHONPATH pointing at it (PYTHONPATH precedes the editable install of
/repo) and VERIF_NO_EVIDENCE=1 (evidence is only ever written from runs against /repo itself), the
change is reverted, and the worktree is removed at the end.

  seeded_run.py [name-prefix ...]     -> seeded/RESULTS.json, seeded/README.md
"""
import json
import os
import re
import subprocess
import sys
import time

ROOT = os.path.dirname(os.path.dirname(os.path.abspath(__file__)))
SEEDED = os.path.join(ROOT, "seeded")


def sh(cmd, cwd=None, env=None, timeout=3600):
    e = dict(os.environ)
    e.update(env or {})
    p = subprocess.run(cmd, shell=True, cwd=cwd, env=e, capture_output=True, text=True, timeout=timeout)
    return p.returncode, p.stdout + p.stderr


def write_readme(results):
    lines = [
        "# Seeded changes",
        "",
        "Each directory holds one change to FEniCS/ufl that breaks a listed property while the library still imports and",
        "its whole test suite (977 tests) still passes: `patch.diff` (against the pinned tree), `demo.py` (exits 0 on the",
        "unchanged tree, 1 with the change; an independent computation on the triggering input) and `meta.json` (property,",
        "what the change needs in order to manifest, which checks were run).  The changes were written by sub-agents that",
        "saw only the text of the property and a scratch worktree; every one was re-confirmed here (`tools/mutant.py",
        "confirm`: patch applies, suite passes with it, demo fails with it and passes without it).  None is ever applied",
        "to /repo by the tooling: `tools/seeded_run.py` applies each to a scratch worktree under /tmp and runs the",
        "registered quick-tier checks against that tree (PYTHONPATH), writing no evidence.",
        "",
        "| change | property | what it needs to manifest | check: verdict (first fingerprints) |",
        "|---|---|---|---|",
    ]
    for name in sorted(results):
        r = results[name]
        if "error" in r:
            lines.append(f"| {name} | | | {r['error']} |")
            continue
        meta = json.load(open(os.path.join(SEEDED, name, "meta.json")))
        needs = (meta.get("needs") or meta.get("summary") or "").replace("|", "/").replace("\n", " ")
        if len(needs) > 260:
            needs = needs[:257] + "..."
        verdicts = "; ".join(f"{c}: **{v['verdict']}**" + (f" ({', '.join(v['fingerprints'][:2])})" if v["fingerprints"] else "") for c, v in sorted(r["checks"].items()))
        lines.append(f"| {name} | {r['property']} | {needs} | {verdicts} |")
    det = sum(1 for r in results.values() if any(v["verdict"] == "detected" for v in r.get("checks", {}).values()))
    lines += ["", f"{det} of {len(results)} changes are detected by at least one registered quick-tier check.", ""]
    if os.path.exists(os.path.join(SEEDED, "NOTES.md")):
        lines += open(os.path.join(SEEDED, "NOTES.md")).read().splitlines()
    open(os.path.join(SEEDED, "README.md"), "w").write("\n".join(lines) + "\n")


def main():
    args = sys.argv[1:]
    out = None
    if args and args[0] == "--merge":  # merge partial result files (parallel runs) into RESULTS.json + README.md
        results = json.load(open(os.path.join(SEEDED, "RESULTS.json"))) if os.path.exists(os.path.join(SEEDED, "RESULTS.json")) else {}
        for f in args[1:]:
            results.update(json.load(open(f)))
        json.dump(results, open(os.path.join(SEEDED, "RESULTS.json"), "w"), indent=1, sort_keys=True)
        write_readme(results)
        return 0
    if args and args[0] == "--out":  # partial run: results go to the given file only
        out, args = args[1], args[2:]
    only = args
    wt = f"/tmp/seeded_wt_{os.getpid()}"
    rc, msg = sh(f"git -C /repo worktree add --detach {wt} HEAD")
    if rc != 0:
        print(msg)
        return 2
    results = {}
    path = out or os.path.join(SEEDED, "RESULTS.json")
    if os.path.exists(path):
        results = json.load(open(path))
    try:
        for name in sorted(os.listdir(SEEDED)):
            d = os.path.join(SEEDED, name)
            if not os.path.isdir(d) or (only and not any(name.startswith(o) for o in only)):
                continue
            meta = json.load(open(os.path.join(d, "meta.json")))
            checks = meta.get("checks") or [meta["property"]]
            rc, msg = sh(f"git apply {d}/patch.diff", cwd=wt)
            if rc != 0:
                results[name] = {"error": "patch does not apply: " + msg[-200:]}
                continue
            env = {"PYTHONPATH": wt, "VERIF_NO_EVIDENCE": "1", "VERIF_TIER": "quick"}
            rd, od = sh(f"/venv/bin/python {d}/demo.py", cwd=wt, env={"PYTHONPATH": wt}, timeout=900)
            res = {"property": meta["property"], "demo_fails_with_change": rd != 0, "checks": {}}
            for c in checks:
                t0 = time.time()
                rc, txt = sh(f"./check {c}", cwd=ROOT, env=env)
                fps = sorted({m.group(1) for l in txt.splitlines() if l.strip().startswith("violation:") for m in [re.search(r"\[(C\d\d:[^ ]*)\]\s*$", l)] if m})
                res["checks"][c] = {"exit": rc, "verdict": "detected" if rc == 1 else "missed" if rc == 0 else "machinery-failure", "fingerprints": fps[:5], "wall_s": round(time.time() - t0, 1)}
                print(f"{name}: {c} -> {res['checks'][c]['verdict']} {fps[:2]}", flush=True)
            sh("git checkout -- . && git clean -fdq", cwd=wt)
            results[name] = res
            json.dump(results, open(path, "w"), indent=1, sort_keys=True)
    finally:
        sh(f"git -C /repo worktree remove --force {wt}")
    if not out:
        write_readme(results)
    return 0


if __name__ == "__main__":
    sys.exit(main())
