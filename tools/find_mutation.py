"""Development helper: replay a slice's programs and stop at the first program after which a
previously built object has different operands (finds in-place mutation of shared objects)."""
import sys

sys.path.insert(0, "/verif")
import importlib

from vf import builder, replay, tlc

mod = importlib.import_module("vf.checks." + sys.argv[1])
name = sys.argv[2]
sl = [s for s in mod.slices("quick") if s.name == name][0]
if len(sys.argv) > 3:
    sl.simulate = int(sys.argv[3])
pool, res = builder._tlc_phase(0, sl, 900, 4)
recs = tlc.decode_prints(res)
print("records", len(recs), flush=True)
w = replay.World(pool, sl.lits, sl.zeros, sl.idx, gdim=sl.gdim)
snap = {}


def check():
    for k, (st, obj) in list(w.cache.items()):
        if st != "ok":
            continue
        ops = getattr(obj, "ufl_operands", ())
        cur = tuple(id(o) for o in ops)
        key = id(obj)
        if key in snap:
            if snap[key][1] != cur:
                return k, snap[key], cur, obj
        else:
            snap[key] = (type(obj).__name__, cur)
    return None


seen = set()
for n, rec in enumerate(recs):
    key = repr(rec["prog"])
    if key in seen:
        continue
    seen.add(key)
    try:
        objs, err = replay.build(w, rec["prog"])
    except RecursionError:
        print("recursion at", n, replay.prog_text(rec["prog"], w))
        break
    r = check()
    if r:
        k, old, cur, obj = r
        print("MUTATION after program", n, replay.prog_text(rec["prog"], w))
        print(" object built by", k[-1], "type", old[0], "operands were", old[1], "now", cur, "self id", id(obj))
        print(" program that built it:", k)
        break
else:
    print("no mutation found")
