"""Development helper: state counts per slice of a builder-based check (no dump, no invariants)."""
import importlib
import sys

sys.path.insert(0, "/verif")
from vf import replay, tlc
from vf.envs import Pool

mod = importlib.import_module("vf.checks." + sys.argv[1])
tier = sys.argv[2] if len(sys.argv) > 2 else "quick"
only = sys.argv[3:]
for sl in mod.slices(tier):
    if only and sl.name not in only:
        continue
    if sl.simulate:
        continue
    pool = Pool(sl.terminals, nenv=sl.nenv, seed=1, complex_env=sl.complex_env, small=sl.small)
    name = "MC_" + sl.name.replace("-", "_")
    mc = replay.mc_module(name, pool, sl.lits, sl.zeros, sl.idx, sl.ops | sl.finalops, sl.maxnodes, sl.maxrank, sl.maxdim, sl.finalops, sl.levels, ())
    cfg = replay.mc_cfg(pool, sl.maxnodes, sl.maxrank, sl.maxdim, dump=False, invariants=(), props=(), mikinds=sl.mikinds)
    r = tlc.run(name, cfg, mc_text=mc, mc_name=name, workers=4, timeout=90)
    print(sl.name, r.outcome, r.distinct, r.generated, round(r.wall, 1), flush=True)
