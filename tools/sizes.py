"""Development helper: state counts per slice of a builder-based check (no dump, no invariants)."""
import importlib
import os
import sys

sys.path.insert(0, "/verif")
os.environ["VERIF_NODUMP"] = "1"
from vf import builder

mod = importlib.import_module("vf.checks." + sys.argv[1])
tier = sys.argv[2] if len(sys.argv) > 2 else "quick"
only = sys.argv[3:]
for sl in mod.slices(tier):
    if only and sl.name not in only:
        continue
    if sl.simulate:
        continue
    pool, r = builder._tlc_phase(1, sl, 120, 4)
    print(sl.name, r.outcome, r.distinct, r.generated, round(r.wall, 1), flush=True)
