"""Development helper: histogram of replay files of a property by fingerprint."""
import collections, glob, json, sys
c = collections.Counter(); ex = {}
for f in glob.glob(f"/verif/replay/{sys.argv[1]}/*.json"):
    d = json.load(open(f)); c[d["fingerprint"]] += 1; ex.setdefault(d["fingerprint"], d["what"])
for k, v in c.most_common():
    print(v, k, "|", ex[k][: int(sys.argv[2]) if len(sys.argv) > 2 else 260])
