#!/usr/bin/env python3
"""Regenerate MANIFEST.json from the table below (single place to edit) and validate it."""
import json
import os
import subprocess
import sys

ROOT = os.path.dirname(os.path.dirname(os.path.abspath(__file__)))
ALL = [f"C{i:02d}" for i in range(1, 30)]

# pid -> dict(engine, technique, text, note, design_ref)
JT = "Trusted: spec/jets/CQ.tla (truncated Taylor series in two nilpotent variables over the Gaussian rationals) as the DEFINITION of directional derivatives (Taylor's theorem), the mathematical definitions in UFLBuild.tla, vf/sem.py for reading the value of the expanded expression (derivatives then act on terminals only, whose derivative data is environment data), generic distinct small rational data incl. independent first and (symmetric) second derivatives; points where an operator is not differentiable (abs/sign/conditions at 0, non-square roots) are undefined and skipped; refusals (raises) are accepted and counted."
BT = "Trusted: the mathematical definitions in UFLBuild.tla/CQ.tla; the evaluator vf/sem.py that reads the denotation of implementation-built objects (exercised against TLC's predictions on every program); environments with pairwise distinct small rationals; predictions that leave the exact rational range (|n|,d > 32000, irrational roots) are undefined and skipped (counted). Bounded: exhaustive within each slice's operator alphabet/levels, simulation beyond."
CHECKS = {
    "C25": dict(
        engine="Sobolev",
        technique="TLC exhaustive check of order laws on spec/Sobolev.tla + full operator-table conformance against ufl.sobolevspace",
        text="The intended inclusion relation is specified in TLA+; TLC checks the partial-order and operator-consistency laws on every triple of spaces (12 predefined + every directional space of dimension 1..3, orders 0..3 and inf) and emits the complete table; every operator (<,<=,>,>=,==,!=,in) of the real classes is compared with it on every ordered pair and the laws are re-checked on the real objects over all triples. The space is finite and enumerated completely, so this is exhaustive for the stated universe.",
        note="Trusted: the intended relation in Sobolev.tla (closure of the declared parent graph; D(o)=H^k when isotropic; H^max(o) <= D(o) <= H^min(o)); comparisons that sobolevspace.py declares unknown (directional vs HEin/HDivDiv/HCurlDiv) may raise NotImplementedError.",
        design_ref="DESIGN.md §3 C25",
    ),
    "C01": dict(
        engine="Pipeline",
        technique="(protocol) TLC exhaustive check of spec/Pipeline.tla (compute_form_data as a state machine over options, stage counter and node-kind set) + TLC trace validation (spec/TracePipeline.tla) of every recorded execution (hook H1: one event per pass with the observed feature set); (meaning) TLC enumeration of UFLBuild integrands under the series semantics followed by the action pipeline(k) + replay through compute_form_data(e*dx, options k) with the preprocessed integrand evaluated in the reference frame",
        text="Pipeline.tla has one action per pass in source order with the code's enabling conditions, MustRemove/MayIntroduce node kinds and a scaling counter; TLC checks for all option vectors and all initial feature sets that no compound operator, no unexpanded derivative, no physical form argument (with pullbacks), no lowerable geometry (with lowering), no J/K/detJ (unless preserved) and exactly the requested scaling survive. Every compute_form_data call of the run (thousands, incl. facet/interior-facet forms with arguments in real and complex mode) is recorded pass by pass and validated by TLC against the same actions (stage order and enabling, per-pass kind transitions, final promises; a call that raises is a prefix). Meaning: the action pipeline(k) denotes the integrand's value times |det J| w (or 1); TLC enumerates integrands (fields with independent value/gradient/Hessian data, x and cell volume, tensor algebra, indexing, grad/div/curl/nabla operators up to second order) and 10 (thorough 16) option vectors; the preprocessed integrand is evaluated with reference values, reference gradients J^T grad f, Jacobian data and quadrature weight of two concrete triangles (det J > 0 and < 0) and must equal the prediction.",
        note="Trusted: Pipeline.tla's kind abstraction and the feature extractor vf/pipeline.py; UFLBuild/jets semantics; vf/sem.py; c07's cell data (bound to TLC in C07). Meaning part: cell integrals on affine 2D triangles with Lagrange coefficients; facet scaling factors, Piola/mixed pullbacks, restrictions and grouping are decided by C07, C08, C17, C15. Refusals (raises) are accepted and counted.",
        design_ref="DESIGN.md §3 C01",
    ),
    "C02": dict(
        engine="UFLBuild",
        technique="TLC enumeration of UFLBuild programs under the series semantics of spec/jets/CQ.tla: the coefficient w is seeded as w + s v (+ t v2) and derivative(F, w, v) is BY DEFINITION the s-coefficient of F's series (no differentiation rule in the specification) + replay through ufl.derivative / expand_derivatives and exact evaluation of the expanded expression",
        text="Programs [integrand over the seeded coefficient and its gradient (independent data perturbed by grad v), derivative(., w, v), optionally a second derivative, expand_derivatives] are enumerated level by level over arithmetic, powers, abs, sqrt, conditionals, min/max/sign, indexing, dot/inner/outer, list tensors, traces; slices: scalar coefficient, vector coefficient, fixed component u[1], second derivatives (mixed directions), user-supplied coefficient derivatives incl. grad of the dependent coefficient. Each is replayed through the public API and the expanded derivative evaluated with the same data; every component compared exactly; no CoefficientDerivative may remain.",
        note=JT,
        design_ref="DESIGN.md §3 C02",
    ),
    "C03": dict(
        engine="UFLBuild",
        technique="TLC enumeration of UFLBuild programs under the series semantics of spec/jets/CQ.tla: terminals seeded with independent first/second derivative data per pair of directions; grad/div/curl/nabla_grad/nabla_div/.dx of ANY expression read off the series coefficients (no differentiation rule in the specification) + replay through ufl's operators and apply_derivatives(apply_algebra_lowering(.)) with exact evaluation; structural postcondition (derivatives on terminals only)",
        text="Programs [expressions, spatial derivative operators, more algebra or a second derivative operator, apply_derivatives] in 2D and 3D (curl of vectors and scalars, divergence contracting the last axis, nabla_div the first, nabla_grad index order, .dx(i)) over products, quotients, powers, abs, sqrt, dot/inner/outer, indexing, transposes, list tensors are enumerated level by level; the expanded expression must contain Grad only on terminals and evaluate, with the terminals' derivative data, to the series coefficients predicted by the specification (up to two nested derivatives).",
        note=JT + " Geometric quantities under grad are not part of this check's environments.",
        design_ref="DESIGN.md §3 C03",
    ),
    "C04": dict(
        engine="UFLBuild",
        technique="TLC enumeration of UFLBuild programs under the series semantics of spec/jets/CQ.tla: variable(e) is created by an action that perturbs its VALUE along its own components; diff(f, v)[cf, cv] is the series coefficient of f along component cv (everything not expressed through v is unperturbed) + replay through ufl.variable / ufl.diff / expand_derivatives with exact evaluation",
        text="Programs [variable of a terminal or of an expression, expressions on it, diff (possibly twice), expand_derivatives] for scalar, vector and 2x2 tensor variables, nested variables (a plain variable between v and f), repeated diff and diff with respect to a coefficient are enumerated level by level; the result must have shape f.shape + v.shape and every component equal to the predicted partial derivative; no VariableDerivative may remain.",
        note=JT,
        design_ref="DESIGN.md §3 C04",
    ),
    "C05": dict(
        engine="UFLBuild",
        technique="TLC enumeration of spec/UFLBuild.tla (the expression language as a state machine with predicted shape, free indices and exact value per constructed node) + replay of every enumerated program through ufl's public operators with comparison of all three observables",
        text="Every reachable state of UFLBuild within a slice's bounds is a legal UFL program; the guards are the language's well-formedness rules and the predicted observables come from the mathematical definition of each operation (the spec knows nothing about ufl's node classes or simplifications). TLC enumerates the programs exhaustively per operator alphabet (arithmetic with zeros/ones/literals, indexing incl. slices and repeated indices over a reused index pool, as_tensor, list tensors, tensor algebra incl. 3D cross, complex conj/real/imag/abs, conditionals/min/max/sign, zero tensors with free indices) and by simulation for deep mixed programs; every program is executed through the public API and shape, free indices and value (2 environments, exact rationals) of the result are compared; refusals are accepted only where the prediction is undefined or ufl refuses by design.",
        note=BT,
        design_ref="DESIGN.md §3 C05",
    ),
    "C06": dict(
        engine="UFLBuild",
        technique="TLC enumeration of UFLBuild programs [operand makers, compound operators, lower] + replay through ufl.<operator> and apply_algebra_lowering / ufl.compound_expressions with exact entry-wise comparison; structural postcondition (no compound node left)",
        text="Compound operators are specified from their mathematical definitions (Laplace determinants and cofactors up to 4x4, Gram-matrix pseudo-determinant/-inverse for m x n, conjugation conventions of inner/outer, dev/skew/sym/perp/cross); the action `lower` must return an object with the operand's shape, free indices and value and without compound nodes. TLC enumerates compound operators applied to terminals, sums, list tensors, indexed sub-tensors with free indices, transposes and other compound results (2x2, 3x3, 4x4, rectangular 2x1..4x3, one complex environment) and the expression builders determinant_expr/inverse_expr/adj_expr/cofactor_expr directly; every entry of every result is compared exactly.",
        note=BT + " Pseudo-determinant environments are chosen so that det(A^T A) is a perfect square. Compound differential operators are covered with the derivative checks.",
        design_ref="DESIGN.md §3 C06",
    ),
    "C07": dict(
        engine="CellGeom",
        technique="TLC exhaustive enumeration of affine simplex cells over spec/CellGeom.tla with oracle self-consistency invariants and a printed oracle table + replay of every cell through Mesh, Q(mesh), the real apply_geometry_lowering (8 variants) and the denotational evaluator under the low-level terminals a form compiler supplies, with exact (value^2, sign) comparison",
        text="For every non-degenerate interval, triangle and tetrahedron with integer vertices in the stated boxes (modulo translation, both orientations, every facet and ridge) each geometric quantity is defined from the vertices only: J, K as Moore-Penrose inverse, detJ, volume from the Gram determinant, circumradius from the circumcentre solve, diameter, min/max cell and facet edge lengths, facet area, facet normal, cell normal, facet/ridge Jacobians with inverses and determinants, x = x0 + J X. TLC checks 19 characterising theorems on every cell and prints the values; the lowered expressions of the real code for 21 quantity classes are evaluated for the same cell and must have exactly that value (exact when rational, within 1e-30 when a square root is irrational). Thorough covers complete boxes (about 10^5 cells), quick seed-chosen shards (about 600 cells).",
        note="Trusted: the definitions and numbering conventions in CellGeom.tla (UFC/FIAT/basix; detJ on immersed cells = CellOrientation*sqrt(det J^T J)); vf/sem.py with 256-bit square roots; the Fraction transcription of the oracle and of the supplied terminals, validated against TLC on every cell. Affine P1 simplices only; quantities ufl documents as unsupported for a cell type are skipped.",
        design_ref="DESIGN.md §3 C07",
    ),
    "C08": dict(
        engine="Pullback",
        technique="TLC exhaustive enumeration of (affine cell map, element) pairs in spec/Pullback.tla (textbook push-forward formulas over CQ rationals; invariants: K Moore-Penrose inverse, detJ^2=det(J^T J), shape algebra and flattening bijection, covariant/contravariant duality, double Piola = single Piola per index) + replay of every pair on real ufl: apply_function_pullbacks / pullback.apply results evaluated by vf/sem.py under the same map and reference values with exact comparison of every physical component and of the result shape",
        text="9 concrete generic affine maps (2D/3D with det>0 and det<0, parallelogram, triangle in 3D, interval in 2D/3D, 1D det<0); all 7 pullback kinds x legal scalar/vector/tensor/blocked reference shapes, mixed pairs/triples, symmetric 2x2/3x3 (two numberings, mixed sub-element kinds incl. double Piola), depth-2 mixed/symmetric nestings: quick 1.5k pairs, thorough 23.6k TLC pairs + 7k seeded random trees; Coefficient, Argument, direct apply, restricted and form-integrand routes, two reference-value vectors; result shape = FunctionSpace.value_shape = spec shape.",
        note="Trusted: TLC, CQ.tla, the formulas in Pullback.tla, vf/sem.py node semantics, the harness element classes. J, K, detJ stay terminals and are bound to the spec's map (detJ signed when square, positive pseudo-determinant when immersed). Affine maps, real values, single-domain meshes. Exhaustive for the enumerated universe only.",
        design_ref="DESIGN.md §3 C08",
    ),
    "C11": dict(
        engine="Signature",
        technique="TLA+ model of form programs with a canonical form (spec/Signature.tla); TLC enumerates every single-site mutation / renaming / renamed mutant of bounded universes plus a seeded sample and checks rename-invariance and mutation-visibility of Canon; every state is replayed as a real ufl form (public API, fresh objects) and signatures must partition each neighbourhood exactly as Canon does",
        text="Programs are tables of domains/elements/coefficients/constants plus integrals with integrand and metadata trees; Canon ignores exactly the renumberings the signature is meant to ignore. About 60 single-site mutation kinds (literal, fixed index, index pattern, operator, operand order, element degree/family/shape, cell, integral type, subdomain id, metadata key/value, argument number/part, restriction side, coefficient identity, base-form-operator derivatives/slots/space) and 9 renaming kinds over 8 bounded universes (<=2 integrals, integrand depth <=3; 32 seeded larger programs in thorough); quick 12.5k states / 670k pair comparisons, thorough 165k states / 71M pair comparisons; a vacuity guard requires all 71 site kinds to be exercised.",
        note="Trusted: Canon as the definition of compiled meaning; vf.elements repr as element identity; equal-digit counts per build with order-preserving renamings (digit-boundary cases belong to C12); sha512 treated as collision-free. Injectivity is established for pairs at mutation distance <=2, not globally. Known findings (open): base-form-operator data (derivatives, function space, argument slots, Interpolate target space) is not part of the signature.",
        design_ref="DESIGN.md §3 C11",
    ),
    "C12": dict(
        engine="SigCounters",
        technique="TLA+ state machine of global counters, build script and as-coded signature (spec/SigCounters.tla) model checked with TLC; bound to ufl by replaying TLC counterexamples and by trace validation (TLC evaluates the model signature at the recorded counters of real runs); the property is also checked on fresh interpreters per (program, counter history, PYTHONHASHSEED)",
        text="Within bounds (scripts <=6-9 constructor calls over <=2 meshes, 3 constants, 2 indices; histories shifting <=2 counters by {1,8,9,10,90,98,99,100}) TLC proves the signature of the intended machine independent of the history and exhibits the counterexamples of the repr-string comparator and of the raw Zero hash data, which were reproduced on the pinned code. Every TLC-enumerated script run on real ufl has, at the observed counters, exactly the model's partition of histories. For 24 recipes and seeded random scripts all signatures (form, after renumber_indices, bare expression) are compared over systematic histories (all-equal and single-counter shifts, every digit boundary <=10000 at each position inside the program's own objects) and several hash seeds in fresh processes.",
        note="Trusted: TLC; the read-back of Counted._counter / Mesh._ufl_global_id; vf/elements.py; the functional cmp_expr model for unshared trees (the loop itself is bound by C29). Creation order is kept identical across runs. Optional work is dropped by a deadline under load and counted.",
        design_ref="DESIGN.md §3 C12",
    ),
    "C09": dict(
        engine="UFLBuild",
        technique="TLC enumeration of UFLBuild index-notation programs over geometry terminals J, K, detJ, Identity with consistent values (K J = I, detJ of both signs, pseudo-inverse on manifolds) ending in the action cancelj + replay through cancel_jacobian_products(remove_component_tensors(.)) with value, shape, free-index comparison",
        text="J, K, detJ and the identity are terminals of the builder whose environments satisfy K J = I (K the left pseudo-inverse for 3x2 J) and detJ = det J with one environment of each sign; TLC enumerates contractions of J and K (both orders, free and contracted outer indices) over a reused pool of index names, with further indexed factors and nested sums, Kronecker-delta contractions, and products of powers of detJ with exponents 2, -1, -2, 1/2, reciprocals and field factors; the pass is an action whose result has the operand's observables.",
        note=BT + " Geometry values: generic small integer J; detJ rational (pseudo-determinant chosen with a perfect-square Gram determinant).",
        design_ref="DESIGN.md §3 C09",
    ),
    "C10": dict(
        engine="UFLBuild",
        technique="TLC enumeration of index-notation programs of UFLBuild ending in the pass actions expand_indices / remove_ct / renumber + replay on the real passes with value, shape, free-index comparison and structural postconditions",
        text="Index-notation programs (the same index names reused in different summation and tensor scopes, variables indexed at several components, zero tensors with free indices below conditionals and component tensors, nested component tensors, list tensors) are enumerated level by level by TLC; the passes are actions whose result has the operand's observables; each program is replayed and the object returned by the real pass is evaluated and compared; expand_indices must leave no free index or binder, renumber_indices must number indices from 0.",
        note=BT + " expand_indices is applied to scalar expressions without free indices and renumber_indices to expressions without free indices (it renames them).",
        design_ref="DESIGN.md §3 C10",
    ),
    "C21": dict(
        engine="UFLBuild",
        technique="TLC enumeration of UFLBuild programs ending in the action replace (value = operand evaluated in the paired environment where the mapped terminal has its image's value) + replay through ufl.replace with value/shape/free-index comparison; unmapped expressions must come back unchanged; shape-changing maps must be refused",
        text="The action replace(e, {src: image}) is specified denotationally: its value in environment E is the value of e in the environment where src takes the value the image has in E (environments are generated in such pairs, so the specification is a table lookup). TLC enumerates expressions (arithmetic, index notation, tensor algebra, conditionals, variables, list tensors) followed by replace for 8 maps (terminal->terminal for scalar/vector/matrix, ->scaled terminal, ->sum, ->product, self-referential f->3f); every program is replayed through ufl.replace and compared; expressions not containing the mapped terminal must be returned unchanged; 90 shape-changing maps must be refused.",
        note=BT + " Images are terminals and simple combinations of terminals; replacement below derivative and restriction operators is exercised in the derivative/restriction checks.",
        design_ref="DESIGN.md §3 C21",
    ),
    "C22": dict(
        engine="Parts",
        technique="TLA+/TLC on spec/Parts.tla (block structure of the point-assembled tensors over mixed spaces) + replay conformance of extract_blocks(form), (form, i, j), (form, i) with block-wise assembly, zero padding and partition sums",
        text="Blocks partition the tensor, are local to their rows/columns and have shape k x k' (bilinear) or k (linear) for every pure bilinear/linear form in the bound (TLC invariants); the real extract_blocks is called in all three calling conventions with both settings of replace_argument on MixedElement (2-3 sub-elements, scalar and vector) and MixedFunctionSpace (2-3 spaces) forms; each block is assembled on its own sub-space arguments, zero-padded and summed per integral key and must reproduce the assembled original. Quick 1.6k forms, thorough 23.6k forms / 233k block comparisons.",
        note="Trusted: as C16; None or empty blocks count as zero; a mixed test space with an ordinary trial space counts as a k x 1 structure.",
        design_ref="DESIGN.md §3 C22",
    ),
    "C23": dict(
        engine="UFLBuild",
        technique="TLC enumeration of UFLBuild programs ending in the verdict-carrying actions cmp_check / remove_complex of spec/CplxTypes.tla (the checker's type lattice transcribed handler by handler) with invariants TypeSound, CheckSound, WrapNeutral, RemoveNeutral + replay through do_comparison_check / remove_complex_nodes comparing accept/raise, shape, free indices and value, plus model-independent checks on the real result",
        text="TLC proves on every enumerated program (abs/real/imag/conj/sqrt/pow/mul/add/div/neg, inner/outer/dot/index incl. repeated indices, variable, comparisons, and/or/not, conditional, max/min/sign, real and complex literals, complex- and real-typed terminals) that a non-complex type implies a real value in the real-data and in the generic complex environment, that accepted integrands order only real values, and that Real-wrapping and conj/real removal change no value. Every program is replayed: verdict equal; result value equal to the prediction; after acceptance every ordering/min/max operand is real-valued in the complex environment; real mode never accepts Imag or a complex literal. Quick 7k programs, thorough 76k.",
        note="Trusted: UFLBuild.tla/CQ.tla and vf/sem.py; the documented lattice (arguments and geometric quantities real, coefficients and constants may be complex); two environments with genericity standing for 'can be complex'. Rejecting an always-real comparison is incompleteness (counted), not a violation. A hang is judged by a wall-clock guard.",
        design_ref="DESIGN.md §3 C23",
    ),
    "C24": dict(
        engine="UFLBuild",
        technique="TLC enumeration of UFLBuild programs ending in the action point_eval + replay: the real object is called as expr(x, mapping, component) and the returned number compared with the predicted value",
        text="The specification's denotation is the oracle and ufl's own point evaluation is the system under test: for every enumerated program (arithmetic, index notation, list/component tensors, tensor algebra incl. 3x3, conditionals with tensor-valued branches, min/max/sign, complex conj/real/imag/abs, sqrt) the expression is called on a point with a mapping of terminal values for every component and environment.",
        note=BT + " Terminals are mapped to constant values; derivatives of mapped callables are outside this check.",
        design_ref="DESIGN.md §3 C24",
    ),
    "C27": dict(
        engine="UFLBuild",
        technique="TLC action property AppendOnly on spec/UFLBuild.tla and spec/FormOps.tla (every operation appends to the construction history) + replay of every enumerated expression program with an input guard and of every enumerated form-operator history with a full re-snapshot of all objects after every step",
        text="The models state that every constructor, pass, form operator and algorithm creates a new object and leaves all existing ones unchanged (checked by TLC as an action property over all behaviours in the bounds). (A) every UFLBuild program (all operators incl. the self-simplifying constructors abs/conj/real/outer/inner/dot, and the passes lower, expand_indices, remove_component_tensors, renumber_indices, remove_complex_nodes, point evaluation) is replayed with repr/hash/shape/free indices of every input compared before and after the public call; (B) all histories of 1-2 (thorough: 3) operations out of 24 (derivative, adjoint, action, lhs, rhs, functional, replace, +, -, scaling, expand_derivatives, lowering, renumbering, integral scaling, restriction propagation, ==, equals, hash, repr, signature, compute_form_data with default and with all options, degree estimation) over 6 initial forms are replayed on real forms and after every step every object created so far must have the repr, hash, signature, arguments, coefficients, constants and per-integral (type, subdomain id, metadata, integrand) it had at creation, and the user's metadata dicts must be unchanged.",
        note="Trusted: repr/hash/signature as the observables of identity (operand re-pointing to structurally equal objects by == is invisible to them and allowed by C13). Bounded histories; forms pool fixed.",
        design_ref="DESIGN.md §3 C27",
    ),
    "C13": dict(
        engine="EqShare",
        technique="TLC model checking of spec/EqShare.tla (heap of expression objects, cached hashes, expr_equals with eager operand re-pointing) + replay of TLC-generated comparison histories on real ufl objects + single-attribute sweep and pickle/eval(repr) round trips",
        text="All heaps of N<=5 abstract objects and every reachable sequence of ==/hash calls are model checked: == is an equivalence equal to structural equality, implies equal hash/repr/denotation, cached hashes never stale, sharing acyclic, no comparison changes any object's repr/hash/value (action property). The per-class __eq__/hash/repr projections are read from the real classes by probing and checked by TLC. Exhaustive short histories and seeded random deep ones are replayed on real ufl objects (answer = prediction; operand sharing and hash caching match; all snapshots unchanged); every terminal class gets a single-attribute-difference sweep; a corpus of expressions and forms is checked for the equivalence laws and round trips.",
        note="Trusted: the abstraction in EqShare.tla; the probing export of the projections; the harness's element class and eval namespace. Round trips are demanded for Expr and Form objects (base-form classes FormSum/Action/Adjoint/Matrix/ZeroBaseForm are recorded as notes). Not exhaustive beyond the stated bounds.",
        design_ref="DESIGN.md §3 C13",
    ),
    "C14": dict(
        engine="Arity",
        technique="TLC model checking (exhaustive per slice + seeded -simulate) of spec/Arity.tla: terms built with the as-coded handler arities of spec/ArityRules.tla and exact Gaussian-rational values in a linearity experiment; invariants Accepts => Multilinear and NonlinearOrAffine => not Accepts; every enumerated term replayed through the public API into check_integrand_arity (real and complex mode) and judged on the real lowered object evaluated exactly; real verdicts re-derived by spec/ArityTrace.tla on the real DAG",
        text="ArityChecker is transcribed one operator per handler; terms over {test/trial function scalar or vector, grad, reference value/grad, coefficients, geometry, literals, zero} with sums, products, division, power, abs, conj/real/imag, indexing, index sums, component and list tensors, conditionals, math functions, restrictions, variables (depth <=3 exhaustive, <=6 random) carry both the as-coded arity and the semantic class decided by exact evaluation at 0, 2v, -v, w, v+w (and iv in complex mode); TLC shows the intended list-tensor rule sound and exhibits the counterexample of the pinned rule. Each term (7.5k quick, 81k thorough) is built on real ufl, lowered, checked; accepted => multilinear in each argument (antilinear in the test function in complex mode) and affine/nonlinear => rejected; a sample goes through compute_form_data.",
        note="Trusted: vf/sem.py (cross-checked against TLC's semantic classes on every term); linearity decided on 2 groups of generic exact samples; undefined values counted, not judged; rejecting a multilinear integrand is incompleteness (counted), not a violation.",
        design_ref="DESIGN.md §3 C14",
    ),
    "C15": dict(
        engine="Grouping",
        technique="TLC exhaustive check of spec/Grouping.tla (step-by-step model of group_form_integrals/build_integral_data against the independent meaning Total) + replay of every TLC-enumerated (form, append option) on real ufl with exact comparison of projected integral data and per-subdomain totals + metadata-pair injectivity binding",
        text="All forms of the bounded universes (<=4 integrals over ids 1, 2, (1,2), everywhere; 2-3 metadata; 1-2 integral types; 1-2 domains; coordinate derivative none/v1/v2; both append options) are enumerated by TLC; the invariants (totals preserved after every step, no cross-metadata merge, nothing lost or duplicated) hold for the injective canonicaliser; every enumerated line and a seeded sample of the product universe is executed on the real code and must equal the prediction and Total; 33 real metadata pairs (ints, floats, strings, nested dicts, arrays incl. >1000 entries and 9th-digit differences) must merge iff equal.",
        note="Trusted: Total/Explicit in Grouping.tla; the projection of integrands to atom bags; metadata deep equality. A TypeError raised when one metadata key holds values of different kinds is a refusal outside C15 (note). Exhaustive for the stated slices; the 4-integral product universe is sampled.",
        design_ref="DESIGN.md §3 C15",
    ),
    "C16": dict(
        engine="Parts",
        technique="TLA+/TLC on spec/Parts.tla (PartExtracter and the form operators transcribed as coded vs. the constant/linear/bilinear decomposition of the point-assembled form) + replay conformance: every behaviour rebuilt in real ufl, outputs assembled at all unit-vector points and compared with the model and with the algebraic identities",
        text="PartExtracter, FormSplitter and lhs/rhs/system/functional/action/adjoint/energy_norm, transcribed handler by handler, equal the constant/linear/bilinear decomposition of the point-assembled form for every term in the bound (TLC invariants); every behaviour is rebuilt in real ufl (scalar, vector, MixedElement and MixedFunctionSpace arguments, one or two integrals), outputs assembled at all unit-vector points with vf/sem.py and compared with the model and with the identities computed from the real input (F = lhs - rhs + functional also at a generic point; action = substitution; adjoint = conjugate transpose; energy_norm = a(w,w)). Quick 5k forms / 15k behaviours exhaustive; thorough 45k forms / 121k behaviours.",
        note="Trusted: vf/sem.py (cross-checked against TLC's table on every input form), CQ arithmetic; arguments real-valued; form class: every monomial of degree (1,1), (1,0) or (0,0); no grad/restrictions/averages. Known finding (open): adjoint of a MixedFunctionSpace form keeps off-diagonal block labels (the repository's own test encodes it).",
        design_ref="DESIGN.md §3 C16",
    ),
    "C17": dict(
        engine="Restrict",
        technique="TLC enumeration (exhaustive per slice + -simulate) of interior-facet integrands of spec/Restrict.tla with two-sided meaning M and the propagation rules P transcribed handler by handler; every (term, mode) replayed on real apply_restrictions (as FormData calls it) and through compute_form_data on dS forms, comparing verdict, exact two-sided values (vf/sem.py) and result structure",
        text="TLC proves, for every term in the bound (H1/non-H1 coefficients, arguments, x, n, cell/facet quantities, constants, literals; grad/reference_value of terminals, restrictions, variable, arithmetic, dot, indexing, conditional, jump, avg; affine and P2-coordinate triangle mesh; default restrictions on/off), that the rules as coded preserve the meaning of valid integrands in all admissible two-sided environments, that output restrictions sit directly on terminals exactly once, and that double and missing restrictions are rejected; each term (9k quick, 134k thorough) is built on real ufl and the real pass must agree in verdict, value (input = output = prediction) and structure; the rejection requirement is demanded of compute_form_data in both default modes.",
        note="Trusted: CQ.tla; vf/sem.py (bound on every valid term by TLC's predicted value); the kind classification of terminals (element in H1); admissible-environment assumptions (H1 coefficients, x, facet quantities, constants continuous; n flips only on the affine gdim=tdim mesh; gradients, arguments, cell quantities independent).",
        design_ref="DESIGN.md §3 C17",
    ),
    "C18": dict(
        engine="Degree",
        technique="TLC exhaustive enumeration of a bounded term algebra of polynomial integrands in spec/Degree.tla (first-principles per-physical-component degrees; compositional TrueDeg validated inside TLC against brute-force polynomial arithmetic over CQ rationals; SumDegreeEstimator transcribed handler by handler) + replay of every enumerated term on real ufl: real estimate == model estimate and >= the degree of an exact polynomial evaluation of the real DAG, also through compute_form_data metadata",
        text="For every term of depth <=2 (quick) / <=3 (thorough) over pools with mixed [vecP,P], [RT-like,P] on immersed triangle/interval, nested mixed, N1curl-like, symmetric 2x2, interval/triangle/tetrahedron, coefficients and test/trial arguments, all fixed/free component selections with and without grad: TLC proves Est>=TrueDeg for the intended component walk and produces the underestimate counterexample for the reference-size walk exactly on pools whose physical and reference sizes differ; every term (3.5k quick, 188k thorough) is built on real ufl, its estimate must match the model and be >= the exact degree.",
        note="Trusted: embedded_superdegree; affine simplex cells; one generic member per space (distinct prime coefficients); polynomial fragment only (no division/abs/conditional/math functions/non-integer exponents). Exhaustive for the stated bounds.",
        design_ref="DESIGN.md §3 C18",
    ),
    "C28": dict(
        engine="BaseForms",
        technique="TLC model checking of spec/BaseForms.tla (finite-dimensional tensor semantics of the base-form algebra with typed argument slots, laws checked on the model) + replay of TLC-enumerated/simulated construction programs on real ufl with comparison of arguments, coefficients and the structurally assembled tensor in exact rationals",
        text="Base forms denote multilinear maps over V=Q^2, W=Q^3 and their duals, defined purely by contraction; TLC checks adjoint involution, distribution of action over sums, scaling, zero laws, associativity and derivative sanity on the model, and enumerates construction programs (forms, cofunctions, coarguments, matrices, weighted sums, action, adjoint, zero, derivative) exhaustively to depth 2 over 28 leaves (depth 3 on sub-alphabets, simulation to depth 5 in thorough). Every program is replayed twice (operator notation and FormSum constructor) through the public API; every node is compared before and after expand_derivatives with the predicted arguments (numbers, spaces, primal/dual), coefficients and the tensor assembled by a structural assembler.",
        note="Trusted: TLC, CQ.tla, vf/sem.py (pointwise integrand evaluation), the structural assembler in c28.py; real arithmetic only; compositions ufl refuses by design are guards in the spec (raising line cited).",
        design_ref="DESIGN.md §3 C28",
    ),
    "C19": dict(
        engine="Traversal",
        technique="TLC check of the as-coded explicit-stack traversal / map_expr_dags model over all small DAGs with structurally-equal-but-distinct nodes (spec/Traversal.tla) + exhaustive replay of every TLC behaviour on real ufl objects + TLC-evaluated nearest-ancestor handler resolution over the exported class graph (spec/HandlerResolution.tla) compared with MultiFunction/Transformer/DAGTraverser for all classes",
        text="For every DAG in the bounds (quick: <=3 nodes all + 4 nodes connected; thorough: <=4 nodes all, 4 nodes arity 3, 5 nodes connected for the unique variants) TLC checks on a loop-by-loop model of traversal.py, compute_expr_hash and map_expr_dags that traversals equal their recursive tree definitions, unique traversals yield every structural class exactly once (operands first in post-order), cutoff variants never descend below a cutoff node, map_expr_dags equals recursive tree application for 5 handler tables x compress x 3 call modes, and every job terminates. Every predicted behaviour is replayed on real ufl objects and compared observable by observable; the resolution rule is checked by TLC on the real class graph and compared for every class x handler sets x 3 dispatchers.",
        note="Trusted: ufl ==/hash structural incl. operand sharing; sibling order as coded (not required by the property); handler tables from 5 families; BaseForm types (Cofunction) are reported separately, not as violations. Larger DAGs only sampled.",
        design_ref="DESIGN.md §3 C19",
    ),
    "C20": dict(
        engine="Dispatch",
        technique="TLC exhaustive check of spec/Dispatch.tla (registry, per-class handler-table caches, algorithm objects; Register/Instantiate/Apply interleavings; as-coded vs intended) + replay of TLC-generated interleavings into real ufl in forked children with dynamically registered @ufl_type classes",
        text="TLC checks on the intended machine that for all interleavings of <=3 registrations, 2-3 algorithm classes and <=2 instances each, Apply never indexes past a table and always selects the nearest-ancestor handler, independent of whether the class/object existed before the registration; the as-coded machine (cache never refreshed) yields the IndexError counterexample that was replayed on the pinned code. Exhaustive short interleavings and seeded random deep ones are replayed in forked processes on MultiFunction, Transformer, map_expr_dag and DAGTraverser subclasses and on real ufl algorithm classes; every observed handler is compared with the prediction.",
        note="Trusted: the six-class abstraction of the registry closed under ancestors; handlers observed by returning their own name; process-global registry confined to forked children.",
        design_ref="DESIGN.md §3 C20",
    ),
    "C26": dict(
        engine="Cells",
        technique="TLC exhaustive walk over face-lattice constructions in spec/Cells.tla (Euler, typing, recursive consistency, facet/ridge/peak, diamond, strict-total-order laws) + full accessor-table conformance and pair/triple order-law checks against ufl.cell",
        text="Reference cells are specified as face lattices built from first principles (simplex, hypercube strings, product, cone). TLC visits every (cell, dimension, sub-entity) of the 10 named cells and all flat/nested tensor-product cells of total dimension <= 3 checking Euler characteristic, that every d-entity is a unique named type of dimension d whose own counts and types match that type's construction, facets/ridges/peaks = faces of dimension tdim-1/-2/-3, the diamond property, and on every ordered pair the strict-total-order laws. The printed table is compared with every accessor of every real Cell/TensorProductCell and the order laws are re-checked on the real objects over all pairs and triples and through sorted(). Exhaustive for the stated finite universe.",
        note="Trusted: the constructions and the (dimension, vertex count) classification in Cells.tla; Euler convention (cell counted as its own tdim-face, no empty face); TensorProductCell accessors raising NotImplementedError are skipped; is_simplex/has_simplex_facets are outside the property (notes only); the direction of the order is arbitrary, only the laws are demanded.",
        design_ref="DESIGN.md §3 C26",
    ),
    "C29": dict(
        engine="Ordering",
        technique="TLC: as-coded transcription of cmp_expr (stack loop, one action per iteration, all terminal comparators) executed for every ordered pair with order laws checked on every triple of a term universe; sign-conformance of real cmp_expr on every ordered pair; commutativity of +, *, inner and cmp laws on an enumerated + seeded-random pool of real expressions",
        text="Ordering.tla models cmp_expr as coded over 79 (quick) / 115 (thorough) terms; TLC checks termination, result in {-1,0,1}, reflexivity, antisymmetry, transitivity, totality and cmp=0 <=> equal modulo index/label numbers on all pairs/triples and emits the full table, which real cmp_expr must match in sign on every ordered pair (shared and unshared objects). On real objects (pool of 619 / 2452 expressions) every ordered pair and triple is checked for the cmp laws and compatible pairs for a+b==b+a, a*b==b*a, inner(a,b)~inner(b,a).",
        note="Trusted: the numbering-erasing structural filter; ufl == plus bound-index renaming as equality oracle; inputs with pairwise distinct counts. The multi-index length rule of the transcription is selected by probing the real comparator. Sampled, not exhaustive, beyond the universe.",
        design_ref="DESIGN.md §3 C29",
    ),
}

PENDING_REASON = "check not yet built in this round (planned in DESIGN.md §3); not claimed until its TLA+ model and conformance harness exist"


# additions made while strengthening the checks against seeded changes (appended to the level text)
EXTRA = {
    "C01": " Piola-mapped coefficients (contravariant, covariant, double co-/contravariant, covariant-contravariant, L2) are part of the meaning part: the pool holds physical data and the reference value read after pullback is the inverse Piola map of it.",
    "C02": " Also: two derivatives with different user-supplied coefficient relations in one expansion, a fixed rank-2 component or a tuple of components as the differentiation target, and the chain rule through exp/ln/sin/cos/tan/sinh/cosh/tanh/asin/atan at their rational points. atan2; second derivatives with both operands depending on the coefficient; powers whose exponent depends on the coefficient (series over Q(i)[ln 2]).",
    "C03": " Also: rank-3 results (grad/nabla_grad of rank-2 fields, second gradients), geometric terminals under the operators, and the chain rule through the elementary functions at their rational points. Powers whose exponent varies in space (series over Q(i)[ln 2]); atan2.",
    "C04": " Also: several differentiation variables in one expansion (mixed partials), variables that wrap a spatial derivative of a non-terminal (directions = spatial directions followed by the variables' components), variable(.. grad(u) ..) energies, and the elementary functions at their rational points. Powers whose exponent depends on the variable.",
    "C05": " Also: zeros carrying free indices of different extents under binding in either index order, and the elementary functions at their rational points. atan2 (also of two literals); component tensors over indexed list tensors whose items share a free index; unary tensor operators on operands with free indices.",
    "C09": " Also: compound algebra over K.J (dot, det, sym, skew, cofac, ...) whose lowering instantiates one summation index object with several partners.",
    "C10": " Also: zeros with two free indices of different extents hidden in conditionals and closed by transposing component tensors. Component tensors that survive inside a conditional under an enclosing component tensor whose subscript re-uses the inner bound index (capture), shadowed binders subscripted with fixed indices, a closed inner sum over the same index object as the enclosing sum.",
    "C11": " Counted terminals carry their Python class (Coefficient/Constant subclasses are numbered with their base class); integrals carry intersect measures on further meshes (new universe xm; mutations of the extra measure's type, mesh, presence).",
    "C12": " Also: placement histories that put a digit boundary inside the objects of several counters at once (constants crosswise on two meshes), coefficients on mixed spaces over a MeshSequence and their fixed components. Placed families 'domains' (three meshes, two of them not integration domains) and 'contraction' (subscripts that sum several indices, grad, dx): TLC proves SigInvariant per family and every behaviour is replayed.",
    "C13": " Also: scalar-literal constructor calls (IntValue/FloatValue/ComplexValue/as_ufl x int, bool, numpy integer, float, numpy float, complex, numpy complex x the flyweight cache of IntValue as state), including purely imaginary numbers with signed zero real part. Round trips (pickle protocols, copy, deepcopy, eval(repr)) are actions of the literal mode with the flyweights of Zero and MultiIndex as state: a round trip must leave every other object, the shared flyweights included, as it was.",
    "C16": " Also: transparent wrappers (variable, conj, real, imag, neg, indexed, index sums) over sums of terms of different arity. energy_norm without a coefficient is a second entry point: exactly one new coefficient, and with it identified with w the same functional as energy_norm(a, w).",
    "C17": " Also: five mesh kinds (affine, P2, affine manifold, P2 manifold, broken coordinates): the two facet-normal values are opposite exactly on affine H1 meshes with gdim = tdim and independent elsewhere; cell normals and reference normals. Measures over several domains (ds/dx with intersecting dS of another mesh, dS with a second dS or ds): FormData's propagation guard and per-domain default restrictions as coded, one-sided domains where a restriction has no meaning.",
    "C18": " Also: symmetric elements with vector/tensor valued, Piola mapped or mixed sub-elements of different degrees, symmetric elements inside mixed elements and vice versa. Form operations as root terms: derivative with respect to a tuple of coefficients (the mixed element built by derivative()) and shape derivatives (coordinate_derivative with the direction's degree), estimated through compute_form_data.",
    "C19": " Also: DAGTraverser rules with keyword context (different subsets of keywords on different paths, one traverser reused across roots, shared caches): the memo key must be (node, full ordered context); the same rule tables run through MultiFunction + map_expr_dag per context. The handler NAME is part of the model (declarative CamelCase -> snake_case rule checked equal to the coded loop for all names over a small alphabet and every registered name); handler tables are sets of attribute names, types registered late (digits, runs of capitals) are observed in a child interpreter, and the 24 MultiFunction/Transformer tables defined in ufl are further cases. A handler table that cannot be constructed counts as binding every type wrongly.",
    "C22": " Also: mixed elements whose sub-elements have reference size != physical size (symmetric tensors, Piola vectors on an immersed mesh) in non-last position, with replace_argument True and False. Restrictions and interior facets: value vectors of a facet macro element ('+' traces then '-' traces), x('+') / x('-') constructors, dS integrals, jumps and averages of sub-functions through extract_blocks.",
    "C28": " Also: weighted sums w1*x + w2*y + w3*z with pairwise different non-unit weights over components of different kinds (Form, Action, Cofunction, Matrix-Action, ...) in every order, followed by derivative / action / adjoint / replace, with histories in which components vanish under the operation (all eight vanishing patterns); TLC checks D(w1A+w2B+w3C) = w1DA+w2DB+w3DC on the model. The numbers 0, 0.0 and Zero() as operands of + and - (B+0, 0+B, B-0 denote B; 0-B denotes -B), in-place r -= B, A @ f / A * f / A(B) notations.",
    "C24": " Also: an index label re-used in nested scopes (a closed inner sum over i inside a summand summed over i). 4x4 matrices (the recursive cofactor expansion behind det/cofac/inv).",
    "C08": " Symmetric elements are modelled as declared (ordered dictionaries from block components to sub-elements, any block shape); TLC proves that the declaration order is irrelevant.",
    "C14": " Arguments are identified by (number, part): rank-3 forms with a third argument (complex mode: conjugation discipline for every number above 0) and block arguments with parts (products of two parts of one number are quadratic).",
    "C23": " Conditionals at or below a compared operand, classified by the coded types of condition and both values (every class required by a vacuity guard). Comparisons, min/max and sign BELOW the type-changing wrappers abs/real/imag/conj/sqrt (the wrapper's handler types the result; the operands must still be visited).",
    "C21": " Also: images that are numbers or zero tensors, and shape-changing maps of equal rank (2 -> 3, 2x3 -> 3x2). replace applied to unexpanded Gateaux derivatives with images that contain the differentiation variable. Two replace actions in one program (the result of a replace recombined with the original and replaced again: variables that share a label but wrap different expressions), with second-level environments p(q(e)).",
    "C25": " Universes with directional spaces of several dimensions at once (related only through an isotropic space between them).",
    "C27": " Form histories include a FormSum of cofunctions, 1.0*a and measures reconfigured with the user's metadata dicts plus degree=/scheme=. Forms that differ only in an argument slot of a nested external operator (eq/equals must not re-point operands); list-valued metadata entries. Base-form snapshots include components, operands and coefficients (a later sum must not append to an earlier FormSum's component list).",
    "C29": " When the code departs from the transcription the order laws are judged on the real comparator over the universe (tie vs equality, antisymmetry, transitivity); a third conformance pass shares sub-objects within each term only.",
}


def main():
    checks = []
    for pid in ALL:
        if pid not in CHECKS:
            continue
        c = CHECKS[pid]
        checks.append(
            {
                "property_id": pid,
                "quick_cmd": f"VERIF_TIER=quick ./check {pid}",
                "thorough_cmd": f"VERIF_TIER=thorough ./check {pid}",
                "evidence_file": f"/verif/evidence/{pid}.json",
                "replay_cmd_template": f"./check {pid} --replay {{path}}",
                "engine": c["engine"],
                "level_claimed": {"category": "model_checking", "text": c["text"] + EXTRA.get(pid, ""), "design_ref": c["design_ref"]},
                "level_note": c["note"],
                "technique": c["technique"],
            }
        )
    engines = {}
    for pid, c in CHECKS.items():
        engines.setdefault(c["engine"], []).append(pid)
    hooks_commits = []
    hc = os.path.join(ROOT, "hook_commits.txt")
    if os.path.exists(hc):
        hooks_commits = [l.split()[0] for l in open(hc) if l.strip() and not l.startswith("#")]
    m = {
        "version": 1,
        "setup_cmd": "./setup.sh",
        "hooks": {
            "guard": "UFL_VERIF",
            "enable": "UFL_VERIF=1 in the environment of the checking process (set by ./check); ufl is an editable install of /repo so no rebuild step exists",
            "baseline_off_cmd": "cd /repo && env -u UFL_VERIF /venv/bin/python -m pytest -q -p no:cacheprovider --timeout=900",
            "source_commits": hooks_commits,
            "add_only": True,
        },
        "engines": [
            {"name": n, "path": f"/verif/spec/{n}.tla", "serves_properties": sorted(p), "kind_free_text": "TLA+ specification checked with TLC, bound to ufl by replay/trace validation (vf/checks)"}
            for n, p in sorted(engines.items())
        ],
        "checks": checks,
        "notes": "All checks: exit 0 held / exit 1 + VIOLATION line / exit 2 machinery failure. known_findings.json lists recorded findings and fixed defects. See DESIGN.md.",
        "not_applicable": [{"property_id": p, "reason": NA.get(p, PENDING_REASON)} for p in ALL if p not in CHECKS],
    }
    with open(os.path.join(ROOT, "MANIFEST.json"), "w") as f:
        json.dump(m, f, indent=1)
    r = subprocess.run(
        ["python3-vt", "-c", "import json,jsonschema,sys; jsonschema.validate(json.load(open(sys.argv[1])), json.load(open('/root/.vp/MANIFEST.schema.json'))); print('MANIFEST valid:', sys.argv[1])", os.path.join(ROOT, "MANIFEST.json")],
        capture_output=True,
        text=True,
    )
    print(r.stdout + r.stderr)
    sys.exit(r.returncode)


NA = {}

if __name__ == "__main__":
    main()
