#!/usr/bin/env python3
"""Regenerate MANIFEST.json from the table below (single place to edit) and validate it."""
import json
import os
import subprocess
import sys

ROOT = os.path.dirname(os.path.dirname(os.path.abspath(__file__)))
ALL = [f"C{i:02d}" for i in range(1, 30)]

# pid -> dict(engine, technique, text, note, design_ref)
CHECKS = {
    "C25": dict(
        engine="Sobolev",
        technique="TLC exhaustive check of order laws on spec/Sobolev.tla + full operator-table conformance against ufl.sobolevspace",
        text="The intended inclusion relation is specified in TLA+; TLC checks the partial-order and operator-consistency laws on every triple of spaces (12 predefined + every directional space of dimension 1..3, orders 0..3 and inf) and emits the complete table; every operator (<,<=,>,>=,==,!=,in) of the real classes is compared with it on every ordered pair and the laws are re-checked on the real objects over all triples. The space is finite and enumerated completely, so this is exhaustive for the stated universe.",
        note="Trusted: the intended relation in Sobolev.tla (closure of the declared parent graph; D(o)=H^k when isotropic; H^max(o) <= D(o) <= H^min(o)); comparisons that sobolevspace.py declares unknown (directional vs HEin/HDivDiv/HCurlDiv) may raise NotImplementedError.",
        design_ref="DESIGN.md §3 C25",
    ),
}

PENDING_REASON = "check not yet built in this round (planned in DESIGN.md §3); not claimed until its TLA+ model and conformance harness exist"


def main():
    checks = []
    for pid in ALL:
        if pid not in CHECKS:
            continue
        c = CHECKS[pid]
        checks.append(
            {
                "property_id": pid,
                "quick_cmd": f"VERIF_TIER=quick ./check {pid}",
                "thorough_cmd": f"VERIF_TIER=thorough ./check {pid}",
                "evidence_file": f"/verif/evidence/{pid}.json",
                "replay_cmd_template": f"./check {pid} --replay {{path}}",
                "engine": c["engine"],
                "level_claimed": {"category": "model_checking", "text": c["text"], "design_ref": c["design_ref"]},
                "level_note": c["note"],
                "technique": c["technique"],
            }
        )
    engines = {}
    for pid, c in CHECKS.items():
        engines.setdefault(c["engine"], []).append(pid)
    hooks_commits = []
    hc = os.path.join(ROOT, "hook_commits.txt")
    if os.path.exists(hc):
        hooks_commits = [l.split()[0] for l in open(hc) if l.strip() and not l.startswith("#")]
    m = {
        "version": 1,
        "setup_cmd": "./setup.sh",
        "hooks": {
            "guard": "UFL_VERIF",
            "enable": "UFL_VERIF=1 in the environment of the checking process (set by ./check); ufl is an editable install of /repo so no rebuild step exists",
            "baseline_off_cmd": "cd /repo && env -u UFL_VERIF /venv/bin/python -m pytest -q -p no:cacheprovider --timeout=900",
            "source_commits": hooks_commits,
            "add_only": True,
        },
        "engines": [
            {"name": n, "path": f"/verif/spec/{n}.tla", "serves_properties": sorted(p), "kind_free_text": "TLA+ specification checked with TLC, bound to ufl by replay/trace validation (vf/checks)"}
            for n, p in sorted(engines.items())
        ],
        "checks": checks,
        "notes": "All checks: exit 0 held / exit 1 + VIOLATION line / exit 2 machinery failure. known_findings.json lists recorded findings and fixed defects. See DESIGN.md.",
        "not_applicable": [{"property_id": p, "reason": NA.get(p, PENDING_REASON)} for p in ALL if p not in CHECKS],
    }
    with open(os.path.join(ROOT, "MANIFEST.json"), "w") as f:
        json.dump(m, f, indent=1)
    r = subprocess.run(
        ["python3-vt", "-c", "import json,jsonschema,sys; jsonschema.validate(json.load(open(sys.argv[1])), json.load(open('/root/.vp/MANIFEST.schema.json'))); print('MANIFEST valid:', sys.argv[1])", os.path.join(ROOT, "MANIFEST.json")],
        capture_output=True,
        text=True,
    )
    print(r.stdout + r.stderr)
    sys.exit(r.returncode)


NA = {}

if __name__ == "__main__":
    main()
