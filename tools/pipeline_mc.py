import sys; sys.path.insert(0,'/verif')
from vf import tlc
cfg="""SPECIFICATION Spec
INVARIANT TypeOK
INVARIANT NoCompoundLeft
INVARIANT NoDerivLeft
INVARIANT RealModeNoCplx
INVARIANT PulledBack
INVARIANT GeometryLowered
INVARIANT JKLowered
INVARIANT ScaledOnce
INVARIANT NeverScaledTwice
"""
r=tlc.run("Pipeline",cfg,workers=8,timeout=600)
print(r.outcome,r.violated,r.distinct,r.generated,round(r.wall,1))
if not r.ok:
    for a,st in r.trace: print(a); print(st)
    print(r.stdout[-1500:])
