import sys, json, os; sys.path.insert(0,'/verif')
os.environ["UFL_VERIF"]="1"
import ufl
from vf.pipeline import Recorder
from vf.checks.c27 import FormWorld
from vf import tlc
from ufl.algorithms import compute_form_data
rec = Recorder().install()
fw = FormWorld()
for name, ar, form in fw.init:
    for kw in [dict(), dict(do_apply_function_pullbacks=True, do_apply_integral_scaling=True, do_apply_geometry_lowering=True), dict(do_apply_function_pullbacks=True, do_apply_geometry_lowering=True, do_cancel_jacobian_products=True), dict(do_apply_geometry_lowering=True, preserve_geometry_types=(ufl.classes.Jacobian,))]:
        try: compute_form_data(form, **kw)
        except BaseException as e: rec.mark_raised()
print(len(rec.traces))
print(json.dumps(rec.traces[1])[:800])
cfg="INIT TInit\nNEXT TNext\n"
r=tlc.run("TracePipeline", cfg, workers=1, timeout=120, extra_files={"traces.json": json.dumps(rec.traces)})
v=tlc.decode_prints(r)[0] if r.prints else r.stdout[-1500:]
print(r.outcome, v)
for t,x in zip(rec.traces,v):
    if x!="ok": print(x, t["opts"]); [print("   ",e) for e in t["ev"]]; break
