#!/usr/bin/env python3
"""Seeded-change workflow.

  mutant.py confirm <wt> <i>            in the scratch worktree <wt> (e.g. /tmp/mut_C05): the change out/patch_<i>.diff
                                        applies, the repository's suite passes with it, the demo fails with it and
                                        passes without it
  mutant.py detect <wt> <i> C05 C10 ..  apply the change to /repo, run the named checks (quick tier), ALWAYS revert
  mutant.py keep <wt> <i> <name> <prop> copy patch/demo/meta to /verif/seeded/<name>/
"""
import json
import os
import shutil
import subprocess
import sys

PY = "/venv/bin/python"


def sh(cmd, cwd=None, env=None, timeout=3000):
    e = dict(os.environ)
    if env:
        e.update(env)
    p = subprocess.run(cmd, shell=True, cwd=cwd, env=e, capture_output=True, text=True, timeout=timeout)
    return p.returncode, p.stdout + p.stderr


def confirm(wt, i):
    patch = f"{wt}/out/patch_{i}.diff"
    demo = f"{wt}/out/demo_{i}.py"
    env = {"PYTHONPATH": wt}
    rc, out = sh("git checkout -- . && git status --short | grep -v '^??' | wc -l", cwd=wt)
    rc, out = sh(f"{PY} {demo}", cwd=wt, env=env, timeout=600)
    base_ok = rc == 0
    rc, out = sh(f"git apply {patch}", cwd=wt)
    if rc != 0:
        print("patch does not apply:", out[-300:])
        return False
    rc, stat = sh("git diff --stat | tail -1", cwd=wt)
    rc_t, out_t = sh(f"{PY} -m pytest -q -x -n 4 -p no:cacheprovider test 2>&1 | tail -2", cwd=wt, env=env, timeout=1800)
    tests_ok = "977 passed" in out_t
    rc_d, out_d = sh(f"{PY} {demo}", cwd=wt, env=env, timeout=600)
    sh("git checkout -- .", cwd=wt)
    print(f"confirm {wt} #{i}: demo on clean tree exit0={base_ok}; tests with change: {out_t.strip().splitlines()[-1] if out_t.strip() else '?'}; demo with change rc={rc_d}; {stat.strip()}")
    if rc_d != 0:
        print("   demo says:", out_d.strip().splitlines()[-1][:200] if out_d.strip() else "")
    return base_ok and tests_ok and rc_d != 0


def detect(wt, i, checks):
    patch = f"{wt}/out/patch_{i}.diff"
    rc, out = sh("git status --short | grep -v '^??' | wc -l", cwd="/repo")
    if out.strip() != "0":
        print("/repo is not clean; refusing")
        return
    rc, out = sh(f"git apply {patch}", cwd="/repo")
    if rc != 0:
        print("patch does not apply to /repo:", out[-300:])
        return
    res = {}
    try:
        for c in checks:
            rc, out = sh(f"VERIF_TIER=quick ./check {c}", cwd="/verif", timeout=3000)
            fps = sorted({l.split("[")[-1].rstrip("]") for l in out.splitlines() if l.strip().startswith("violation:")})
            res[c] = (rc, fps[:4], (out.strip().splitlines() or ["?"])[-1][:160])
            print(f"  {c}: rc={rc} {'DETECTED' if rc == 1 else 'missed' if rc == 0 else 'MACHINERY'} {fps[:3]}")
            if rc == 2:
                print("     ", "\n      ".join(out.strip().splitlines()[-6:]))
    finally:
        sh("git checkout -- .", cwd="/repo")
        rc, out = sh("git status --short | grep -v '^??' | wc -l", cwd="/repo")
        print("  /repo reverted, dirty files:", out.strip())
    return res


def detect_wt(wt, i, checks):
    """Like detect, but the change is applied in the scratch worktree and the checks import ufl from there
    (PYTHONPATH precedes the editable install of /repo); /repo is not touched, no evidence is written."""
    patch = f"{wt}/out/patch_{i}.diff"
    sh("git checkout -- .", cwd=wt)
    rc, out = sh(f"git apply {patch}", cwd=wt)
    if rc != 0:
        print("patch does not apply:", out[-300:])
        return
    try:
        for c in checks:
            rc, out = sh(f"./check {c}", cwd="/verif", env={"PYTHONPATH": wt, "VERIF_NO_EVIDENCE": "1", "VERIF_TIER": "quick"}, timeout=3000)
            fps = sorted({l.split("[")[-1].rstrip("]") for l in out.splitlines() if l.strip().startswith("violation:")})
            print(f"  {c}: rc={rc} {'DETECTED' if rc == 1 else 'missed' if rc == 0 else 'MACHINERY'} {fps[:3]}", flush=True)
            if rc == 2:
                print("     ", "\n      ".join(out.strip().splitlines()[-6:]))
    finally:
        sh("git checkout -- .", cwd=wt)


def keep(wt, i, name, prop, ran=""):
    d = f"/verif/seeded/{name}"
    os.makedirs(d, exist_ok=True)
    shutil.copy(f"{wt}/out/patch_{i}.diff", f"{d}/patch.diff")
    shutil.copy(f"{wt}/out/demo_{i}.py", f"{d}/demo.py")
    meta = {}
    try:
        meta = json.load(open(f"{wt}/out/meta_{i}.json"))
    except Exception:
        pass
    meta["property"] = prop
    meta["confirmed"] = "patch applies to HEAD of /repo; 977 tests pass with it; demo.py exits 1 with it and 0 without it (tools/mutant.py confirm)"
    meta["ran"] = ran
    json.dump(meta, open(f"{d}/meta.json", "w"), indent=1)
    print("kept", d)


if __name__ == "__main__":
    cmd = sys.argv[1]
    if cmd == "confirm":
        sys.exit(0 if confirm(sys.argv[2], sys.argv[3]) else 1)
    elif cmd == "detect":
        detect(sys.argv[2], sys.argv[3], sys.argv[4:])
    elif cmd == "detectwt":
        detect_wt(sys.argv[2], sys.argv[3], sys.argv[4:])
    elif cmd == "keep":
        keep(sys.argv[2], sys.argv[3], sys.argv[4], sys.argv[5], " ".join(sys.argv[6:]))
