"""Exact scalars for the Python side of the semantics (the executable copy of spec/CQ.tla).

A scalar is a Gaussian rational (two `Fraction`s).  Where UFL itself introduces binary floats
(FloatValue literals) they are converted exactly; only transcendental functions and irrational roots
leave the exact domain and fall back to float/complex.  `Undefined` mirrors CQ's undefined value.
"""

from __future__ import annotations

import cmath
import math
from fractions import Fraction


class Undefined(Exception):
    """The expression has no value here (division by zero, complex order comparison, ...)."""


def _isqrt_frac(q):
    if q < 0:
        return None
    n, d = q.numerator, q.denominator
    rn, rd = math.isqrt(n), math.isqrt(d)
    if rn * rn == n and rd * rd == d:
        return Fraction(rn, rd)
    return None


def _exact(x):
    return isinstance(x, (int, Fraction))


class Cx:
    """re + i im with exact (Fraction) or inexact (float) parts."""

    __slots__ = ("re", "im")

    def __init__(self, re=0, im=0):
        self.re = Fraction(re) if isinstance(re, int) else re
        self.im = Fraction(im) if isinstance(im, int) else im

    @staticmethod
    def of(v):
        if isinstance(v, Cx):
            return v
        if isinstance(v, bool):
            return Cx(int(v))
        if isinstance(v, (int, Fraction)):
            return Cx(Fraction(v))
        if isinstance(v, float):
            if math.isnan(v) or math.isinf(v):
                raise Undefined("non-finite float")
            return Cx(Fraction(v))
        if isinstance(v, complex):
            return Cx(Fraction(v.real), Fraction(v.imag))
        raise TypeError(f"no scalar for {type(v)}")

    @property
    def exact(self):
        return _exact(self.re) and _exact(self.im)

    def is_real(self):
        return self.im == 0

    def __add__(self, o):
        o = Cx.of(o)
        return Cx(self.re + o.re, self.im + o.im)

    __radd__ = __add__

    def __neg__(self):
        return Cx(-self.re, -self.im)

    def __sub__(self, o):
        o = Cx.of(o)
        return Cx(self.re - o.re, self.im - o.im)

    def __rsub__(self, o):
        return Cx.of(o) - self

    def __mul__(self, o):
        o = Cx.of(o)
        if self.im == 0 and o.im == 0:
            return Cx(self.re * o.re, 0)
        return Cx(self.re * o.re - self.im * o.im, self.re * o.im + self.im * o.re)

    __rmul__ = __mul__

    def norm2(self):
        return self.re * self.re + self.im * self.im

    def inv(self):
        n = self.norm2()
        if n == 0:
            raise Undefined("division by zero")
        return Cx(self.re / n, -self.im / n)

    def __truediv__(self, o):
        o = Cx.of(o)
        if o.im == 0:
            if o.re == 0:
                raise Undefined("division by zero")
            return Cx(self.re / o.re, self.im / o.re)
        return self * o.inv()

    def __rtruediv__(self, o):
        return Cx.of(o) / self

    def conj(self):
        return Cx(self.re, -self.im)

    def real(self):
        return Cx(self.re, 0)

    def imag(self):
        return Cx(self.im, 0)

    def abs(self):
        if self.im == 0:
            return Cx(abs(self.re), 0)
        n = self.norm2()
        if _exact(n):
            r = _isqrt_frac(n)
            if r is not None:
                return Cx(r, 0)
        return Cx(math.sqrt(float(n)), 0)

    def sqrt(self):
        if self.im == 0 and self.re >= 0:
            if _exact(self.re):
                r = _isqrt_frac(self.re)
                if r is not None:
                    return Cx(r, 0)
            return Cx(math.sqrt(float(self.re)), 0)
        z = cmath.sqrt(complex(self))
        return Cx(z.real, z.imag)

    def __pow__(self, o):
        o = Cx.of(o)
        if o.im == 0 and _exact(o.re) and Fraction(o.re).denominator == 1:
            k = int(o.re)
            if abs(k) > 64:
                # no exact big powers (they made the harness itself slow): floating point, undefined on overflow
                try:
                    z = complex(self) ** k
                except (OverflowError, ZeroDivisionError, ValueError) as e:
                    raise Undefined("exponent outside the exact range: " + str(e)) from e
                if z != z or abs(z) == float("inf"):
                    raise Undefined("exponent outside the exact range")
                return Cx(z.real, z.imag)
            if k >= 0:
                r = Cx(1)
                for _ in range(k):
                    r = r * self
                return r
            if self.re == 0 and self.im == 0:
                raise Undefined("0 ** negative")
            r = Cx(1)
            for _ in range(-k):
                r = r * self
            return r.inv()
        if o.im == 0 and o.re == Fraction(1, 2):
            return self.sqrt()
        if self.re == 0 and self.im == 0:
            if o.im == 0 and o.re > 0:
                return Cx(0)
            raise Undefined("0 ** non-positive")
        try:
            if self.im == 0 and o.im == 0 and self.re > 0:
                return Cx(float(self.re) ** float(o.re), 0)
            z = complex(self) ** complex(o)
            return Cx(z.real, z.imag)
        except (OverflowError, ZeroDivisionError, ValueError) as e:
            raise Undefined(str(e)) from e

    def __complex__(self):
        return complex(float(self.re), float(self.im))

    def __float__(self):
        if self.im != 0:
            raise Undefined("complex value used as real")
        return float(self.re)

    def lt(self, o):
        o = Cx.of(o)
        if self.im != 0 or o.im != 0:
            raise Undefined("order comparison of complex numbers")
        return self.re < o.re

    def __eq__(self, o):
        o = Cx.of(o)
        return self.re == o.re and self.im == o.im

    def __hash__(self):
        return hash((self.re, self.im))

    def is_zero(self):
        return self.re == 0 and self.im == 0

    def __repr__(self):
        if self.im == 0:
            return f"{self.re}"
        return f"({self.re}+{self.im}j)"

    def to_json(self):
        def f(x):
            if _exact(x):
                x = Fraction(x)
                return [x.numerator, x.denominator]
            return float(x)

        return [f(self.re), f(self.im)]


def close(a, b, rtol=1e-9, atol=1e-12):
    """Equality of two scalars: exact when both exact, else with a relative tolerance."""
    a, b = Cx.of(a), Cx.of(b)
    if a.exact and b.exact:
        if a == b:
            return True
        # exactness may have been lost in UFL itself (float literals such as 1.0/3); fall through
    d = abs(complex(a) - complex(b))
    m = max(abs(complex(a)), abs(complex(b)), 1.0)
    return d <= atol + rtol * m


def from_tla(v):
    """<<<<n,d>>,<<n,d>>>> as decoded JSON -> Cx, or None when undefined.  A truncated Taylor
    series <<z0, z1, z2, z3>> (jets variant) is read as its value z0."""
    if len(v) == 4:
        v = v[0]
    if v and isinstance(v[0][0], (list, tuple)):
        # series domain: a polynomial c0 + c1 L + ... in the atom L = ln 2 (spec/jets/CLbase.tla)
        cs = [_coef(c) for c in v]
        if any(c is None for c in cs):
            return None
        if len(cs) == 1:
            return cs[0]
        import math

        tot = complex(0)
        for k, c in enumerate(cs):
            tot += complex(c) * math.log(2.0) ** k
        return Cx(tot.real, tot.imag)
    return _coef(v)


def _coef(v):
    (rn, rd), (in_, id_) = v
    if rd == 0 or id_ == 0:
        return None
    return Cx(Fraction(rn, rd), Fraction(in_, id_))


def to_tla(c):
    """Cx (exact) -> TLA+ literal text."""
    c = Cx.of(c)
    re, im = Fraction(c.re), Fraction(c.im)
    return f"<<<<{re.numerator}, {re.denominator}>>, <<{im.numerator}, {im.denominator}>>>>"
