"""Recording and abstraction of compute_form_data executions (hook H1 in ufl/_verif.py)."""

from __future__ import annotations


def features(obj, preserved=()):
    """The feature set (kinds of Pipeline.tla) of a Form or of a list of IntegralData."""
    from ufl.classes import (
        CoefficientDerivative,
        CompoundDerivative,
        CompoundTensorOperator,
        Conj,
        CoordinateDerivative,
        Derivative,
        FormArgument,
        GeometricQuantity,
        Grad,
        Imag,
        Jacobian,
        JacobianDeterminant,
        JacobianInverse,
        Real,
        ReferenceGrad,
        ReferenceValue,
        Restricted,
        Terminal,
        VariableDerivative,
    )
    from ufl.form import Form

    if isinstance(obj, Form):
        integrands = [i.integrand() for i in obj.integrals()]
    else:
        integrands = [i.integrand() for d in obj for i in d.integrals]
    feat = set()
    seen = set()

    def strip(o):
        while isinstance(o, (Grad, ReferenceGrad, ReferenceValue, Restricted)):
            o = o.ufl_operands[0]
        return o

    def walk(o, under_ref):
        key = (id(o), under_ref)
        if key in seen:
            return
        seen.add(key)
        if isinstance(o, CompoundTensorOperator) or (isinstance(o, CompoundDerivative) and not isinstance(o, (Grad, ReferenceGrad))):
            feat.add("compound")
        if isinstance(o, (Conj, Real, Imag)):
            feat.add("cplx")
        if isinstance(o, (CoefficientDerivative, VariableDerivative, CoordinateDerivative)):
            feat.add("deriv")
        elif isinstance(o, Grad):
            # a physical gradient must act on a (physical) terminal; over a reference value or any
            # other expression it still has to be expanded
            t = o
            while isinstance(t, (Grad, Restricted)):
                t = t.ufl_operands[0]
            if not isinstance(t, Terminal):
                feat.add("deriv")
            elif isinstance(t, FormArgument) and not under_ref:
                feat.add("gradarg")
        elif isinstance(o, ReferenceGrad):
            if not isinstance(strip(o), Terminal):
                feat.add("deriv")
        elif isinstance(o, Derivative) and not isinstance(o, CompoundDerivative):
            feat.add("deriv")
        if isinstance(o, ReferenceValue):
            feat.add("refvalue")
            under_ref = True
        if isinstance(o, FormArgument) and not under_ref:
            feat.add("physarg")
        if isinstance(o, (Jacobian, JacobianInverse, JacobianDeterminant)):
            feat.add("jkdet")
        elif isinstance(o, GeometricQuantity) and _lowerable(o, preserved):
            feat.add("geomhi")
        for op in getattr(o, "ufl_operands", ()):
            walk(op, under_ref)

    def _has_ref(o):
        while isinstance(o, (Grad, ReferenceGrad, Restricted)):
            o = o.ufl_operands[0]
        return isinstance(o, ReferenceValue)

    for e in integrands:
        walk(e, False)
    return sorted(feat)


_LOWER = {}


def _lowerable(q, preserved):
    """Does geometry lowering rewrite this quantity (with nothing preserved)?"""
    from ufl.algorithms.apply_geometry_lowering import apply_geometry_lowering

    key = (type(q), q.ufl_domain())
    r = _LOWER.get(key)
    if r is None:
        try:
            r = apply_geometry_lowering(q, ()) != q
        except Exception:  # noqa: BLE001 - not lowerable in isolation
            r = False
        _LOWER[key] = r
    return r


OPT_MAP = {
    "pullbacks": "do_apply_function_pullbacks",
    "scaling": "do_apply_integral_scaling",
    "lowering": "do_apply_geometry_lowering",
    "cancelj": "do_cancel_jacobian_products",
    "complex": "complex_mode",
    "remove_ct": "do_remove_component_tensors",
    "estimate": "do_estimate_degrees",
    "restrictions": "do_apply_restrictions",
    "replace": "do_replace_functions",
    "split": "coefficients_to_split",
}


class Recorder:
    """Sink for ufl._verif: one trace per compute_form_data call."""

    def __init__(self):
        self.traces = []
        self.cur = None
        self.stage_objects = []

    def __call__(self, stage, obj, info):
        ev = {"stage": stage, "feat": features(obj)}  # before the trace is opened: a trace never lacks its entry event
        if stage == "entry":
            o = info["options"]
            opts = {k: bool(o[v]) for k, v in OPT_MAP.items()}
            opts["preserve_jk"] = bool(o["preserve_geometry_types"])
            self.cur = {"opts": opts, "ev": [], "raised": False}
            self.traces.append(self.cur)
            self.stage_objects = []
        if self.cur is None:
            return
        self.cur["ev"].append(ev)
        self.stage_objects.append((stage, obj))

    def mark_raised(self):
        if self.cur is not None:
            self.cur["raised"] = True

    def install(self):
        import ufl._verif as V

        if not V.enabled:
            raise RuntimeError("UFL_VERIF=1 is required (hooks are disabled)")
        V.sinks.append(self)
        return self

    def uninstall(self):
        import ufl._verif as V

        V.sinks.remove(self)
