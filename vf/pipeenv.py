"""Physical / reference-frame environments for C01.

One affine cell per environment (vertices from vf.checks.c07.Geo).  Form arguments are smooth fields
given at ONE point by their physical value, gradient and Hessian (the data the jets pool seeds);
the reference-frame data a form compiler would tabulate follows from the cell map x = x0 + J X:

    identity pullback:   r = f,   d r / d X_k = sum_i (d f / d x_i) J[i, k],
                         d2 r / dX_k dX_l = sum_ij (d2 f / dx_i dx_j) J[i, k] J[j, l]

Geometric terminals are supplied by c07's CellEnv (low-level) and Geo oracle (high-level).
"""

from __future__ import annotations

from fractions import Fraction

from .envs import JetPool, bd_tla, comps
from .scalar import Cx

CELLS = [
    # (relative vertices, orientation sign)  -- generic triangles, det J = 5 and -7
    ([(0, 0), (3, 1), (1, 2)], 1),
    ([(0, 0), (1, 3), (2, -1)], -1),
]
WEIGHTS = [Fraction(1, 3), Fraction(2, 5)]


def geo_for(e):
    from .checks.c07 import Geo

    rel, co = CELLS[e % len(CELLS)]
    return Geo(2, 2, rel, co)


class PipePool(JetPool):
    """Jets pool (spatial directions) on concrete cells, with geometry terminals and the option
    vectors of compute_form_data that the action `pipeline` ranges over."""

    def __init__(self, terminals, options, nenv=2, seed=0, opts=None):
        super().__init__(terminals, "spatial", ndir=2, nenv=nenv, seed=seed, tiny=True, opts=opts or {})
        self.geos = [geo_for(e) for e in range(nenv)]
        self.weights = [WEIGHTS[e % len(WEIGHTS)] for e in range(nenv)]
        self.pipe_options = list(options)
        for e in range(nenv):
            g = self.geos[e]
            cv = g.cell_values()
            for name, shape in self.terminals:
                kind = self.opts.get(name, {}).get("kind")
                if kind is None or kind in ("coef", "arg0", "arg1"):
                    continue
                from .checks.c07 import sv_to_cx

                if kind == "x":
                    vals = {(i,): Cx(g.x[i]) for i in range(2)}
                    d1 = {(i, m): Cx(1 if i == m else 0) for i in range(2) for m in range(2)}
                else:
                    qn = {"detJ": "JacobianDeterminant", "J": "Jacobian", "K": "JacobianInverse", "vol": "CellVolume", "h": "Circumradius"}[kind]
                    sh, flat = cv[qn]
                    cs = comps(sh)
                    vals = {c: sv_to_cx(flat[k]) for k, c in enumerate(cs)}
                    if not all(v.exact for v in vals.values()):
                        raise ValueError(f"{qn} is irrational on cell {e}: choose another cell")
                    d1 = {c + (m,): Cx(0) for c in cs for m in range(2)}
                self.values[e][name] = vals
                self.d1[e][name] = d1
                self.d2[e][name] = {c + (m, n): Cx(0) for c in comps(shape) for m in range(2) for n in range(2)}

    def scale(self, k, e):
        o = self.pipe_options[k]
        if not o.get("do_apply_integral_scaling"):
            return Cx(1)
        g = self.geos[e]
        from .checks.c07 import sv_to_cx

        d = sv_to_cx(g.detJ_sv)
        return Cx(abs(d.re) * self.weights[e])

    def tla_pipescale(self):
        rows = []
        for k in range(len(self.pipe_options)):
            ents = []
            for E1, a, b in self.envdirs:
                ents.append(bd_tla(self.scale(k, E1 - 1)))
            rows.append("<<" + ", ".join(ents) + ">>")
        return "<<" + ", ".join(rows) + ">>"


class Preprocessed:
    """What compute_form_data made of the integrand of e*dx (observed in the reference frame)."""

    def __init__(self, expr):
        self.expr = expr
        self.ufl_shape = ()
        self.ufl_free_indices = ()
        self.ufl_index_dimensions = ()


class RefEnv:
    """Reference-frame data consistent with the physical data of base environment e."""

    def __init__(self, world, e):
        from .checks.c07 import CellEnv

        self.w = world
        self.e = e
        self.pool = world.pool
        self.geo = self.pool.geos[e]
        self.cell = CellEnv(self.geo)
        self.name_of = {id(t): name for t, (name, _) in zip(world.terms, self.pool.terminals)}
        self.J = self.geo.J

    def terminal(self, o, comp, derivs, side, ref):
        from ufl.classes import FormArgument, GeometricQuantity, QuadratureWeight

        if isinstance(o, QuadratureWeight):
            return Cx(self.pool.weights[self.e])
        if isinstance(o, FormArgument):
            name = self._name(o)
            pb = self.pool.opts.get(name, {}).get("pullback")
            if ref and pb:
                return self._piola(name, pb, tuple(comp), derivs)
            return self._physical(name, tuple(comp), derivs)
        if isinstance(o, GeometricQuantity):
            return self._geometric(o, comp, derivs, side, ref)
        raise KeyError(f"no reference-frame value for {type(o).__name__}")

    def _piola(self, name, pb, comp, derivs):
        """Reference value of a Piola-mapped field from its physical data (affine cell: J, K, detJ constant):
             contravariant        f = J r / detJ           r = detJ K f
             covariant            f = K^T r                r = J^T f
             double contravariant f = J r J^T / detJ^2     r = detJ^2 K f K^T
             double covariant     f = K^T r K              r = J^T f J
             covariant-contravariant f = K^T r J^T / detJ  r = detJ J^T f K^T
             L2                   f = r / detJ             r = detJ f
        i.e. r[a(,b)] = sum L[a][i] f[i(,j)] R[b][j]."""
        J = [[Fraction(x) for x in row] for row in self.J]
        det = J[0][0] * J[1][1] - J[0][1] * J[1][0]
        K = [[J[1][1] / det, -J[0][1] / det], [-J[1][0] / det, J[0][0] / det]]
        JT = [[J[i][a] for i in range(2)] for a in range(2)]
        dK = [[det * K[a][i] for i in range(2)] for a in range(2)]
        if pb == "l2":
            return Cx(det) * self._physical(name, comp, derivs)
        L, R = {
            "contravariant": (dK, None),
            "covariant": (JT, None),
            "double_contravariant": (dK, dK),
            "double_covariant": (JT, JT),
            "covariant_contravariant": (JT, dK),
        }[pb]
        tot = Cx(0)
        if R is None:
            (a,) = comp
            for i in range(2):
                tot = tot + Cx(L[a][i]) * self._physical(name, (i,), derivs)
            return tot
        a, b = comp
        for i in range(2):
            for j in range(2):
                tot = tot + Cx(L[a][i]) * Cx(R[b][j]) * self._physical(name, (i, j), derivs)
        return tot

    def _physical(self, name, comp, derivs):
        if True:
            p = self.pool
            if not derivs:
                return p.values[self.e][name][comp]
            phys = [d for d in derivs if not (isinstance(d, tuple) and d[0] == "X")]
            refd = [d[1] for d in derivs if isinstance(d, tuple) and d[0] == "X"]
            if phys and refd:
                raise KeyError("mixed physical/reference derivative of a form argument")
            if phys:
                if len(phys) == 1:
                    return p.d1[self.e][name][comp + (phys[0],)]
                if len(phys) == 2:
                    return p.d2[self.e][name][comp + tuple(phys)]
                raise KeyError("third derivative")
            J = self.J
            if len(refd) == 1:
                k = refd[0]
                tot = Cx(0)
                for i in range(2):
                    tot = tot + p.d1[self.e][name][comp + (i,)] * Cx(J[i][k])
                return tot
            if len(refd) == 2:
                k, l = refd
                tot = Cx(0)
                for i in range(2):
                    for j in range(2):
                        tot = tot + p.d2[self.e][name][comp + (i, j)] * Cx(J[i][k]) * Cx(J[j][l])
                return tot
            raise KeyError("third reference derivative")

    def _geometric(self, o, comp, derivs, side, ref):
        if True:
            tname = type(o).__name__
            try:
                return self.cell.terminal(o, comp, derivs, side, ref)
            except Exception:  # noqa: BLE001 - not a low-level terminal: take the oracle value
                if derivs:
                    raise
                from .checks.c07 import sv_to_cx

                cv = self.geo.cell_values()
                if tname not in cv:
                    raise
                sh, flat = cv[tname]
                return sv_to_cx(flat[comps(sh).index(tuple(comp))])

    def _name(self, o):
        for t, (name, _) in zip(self.w.terms, self.pool.terminals):
            if t == o:
                return name
        raise KeyError(f"unknown form argument {o!r}")
