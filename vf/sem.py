"""Denotational evaluator for real UFL expression DAGs — the executable copy of the TLA+ semantics
(spec/UFLBuild.tla value definitions) used to OBSERVE what an implementation-built object denotes.

`Evaluator(env).table(expr)` returns {(binding, component): Cx} for every binding of the
expression's free indices and every component, written from the mathematical definition of each
node type (never by calling ufl's own `evaluate`).  The evaluator is validated on every run against
the values TLC predicts for every enumerated program (any disagreement is reported).

Environment protocol (see vf/envs.py):
    env.terminal(o, comp, derivs, side, ref)  -> Cx
        value of component `comp` of terminal `o`, differentiated in the spatial directions
        `derivs` (tuple of ints, order irrelevant), restricted to `side` ('+', '-' or None);
        ref=True asks for the reference value / reference gradient.
"""

from __future__ import annotations

import itertools
import math
from fractions import Fraction

from .scalar import Cx, Undefined


class Unsupported(Exception):
    """Node type outside the evaluator (machinery limitation, never a verdict)."""


def comps(shape):
    return list(itertools.product(*[range(n) for n in shape]))


def _det(M, n):
    """Determinant of an n x n matrix of Cx given as dict[(i, j)] (Laplace, exact)."""
    if n == 0:
        return Cx(1)
    if n == 1:
        return M[(0, 0)]
    rows = list(range(n))

    def rec(rs, cs):
        if not rs:
            return Cx(1)
        r = rs[0]
        tot = Cx(0)
        for k, c in enumerate(cs):
            sub = rec(rs[1:], cs[:k] + cs[k + 1 :])
            term = M[(r, c)] * sub
            tot = tot + term if k % 2 == 0 else tot - term
        return tot

    return rec(rows, rows)


def _cofactor(M, n, i, j):
    rs = [r for r in range(n) if r != i]
    cs = [c for c in range(n) if c != j]
    sub = {(a, b): M[(r, c)] for a, r in enumerate(rs) for b, c in enumerate(cs)}
    d = _det(sub, n - 1)
    return d if (i + j) % 2 == 0 else -d


def _fmath(fn, cfn, z):
    z = Cx.of(z)
    try:
        if z.im == 0:
            try:
                return Cx.of(fn(float(z.re)))
            except ValueError:
                # outside the real domain (ln of a negative number, acos(2), ...): principal branch,
                # so that e.g. 0 * ln(f) in an expanded derivative is 0 and not undefined
                if cfn is None:
                    raise
        w = cfn(complex(z))
        return Cx(w.real, w.imag)
    except (ValueError, OverflowError, ZeroDivisionError) as e:
        raise Undefined(str(e)) from e


class Evaluator:
    def __init__(self, env):
        self.env = env
        self.memo = {}

    # ---- public -----------------------------------------------------------------------------
    def table(self, o):
        fi = tuple(o.ufl_free_indices)
        fid = tuple(o.ufl_index_dimensions)
        out = {}
        for bv in itertools.product(*[range(d) for d in fid]):
            b = dict(zip(fi, bv))
            for c in comps(o.ufl_shape):
                out[(bv, c)] = self.ev(o, c, b)
        return out

    def scalar(self, o):
        return self.ev(o, (), {})

    # ---- core -------------------------------------------------------------------------------
    def ev(self, o, c, b, ctx=((), None, False)):
        """Component c of o under index binding b.  ctx = (derivative directions, side, ref)
        is only non-trivial below derivative / restriction / reference-value wrappers whose
        operand is a terminal-like chain."""
        fi = o.ufl_free_indices
        key = (id(o), c, tuple(b[i] for i in fi) if fi else (), ctx)
        r = self.memo.get(key)
        if r is None:
            h = getattr(self, "n_" + type(o).__name__, None)
            if h is None:
                h = self._fallback(o)
            r = h(o, c, b, ctx)
            self.memo[key] = (r, o)  # keep o alive so id() stays unique
            return r
        return r[0]

    def _fallback(self, o):
        from ufl.classes import Condition, GeometricQuantity, MathFunction, Restricted

        if isinstance(o, GeometricQuantity):
            return self.n_terminal
        if isinstance(o, Restricted):
            return self.n_restricted
        for cls in type(o).__mro__:
            h = getattr(self, "n_" + cls.__name__, None)
            if h is not None:
                return h
        raise Unsupported(type(o).__name__)

    # ---- terminals --------------------------------------------------------------------------
    def n_terminal(self, o, c, b, ctx):
        return self.env.terminal(o, c, tuple(sorted(ctx[0])), ctx[1], ctx[2])

    n_Coefficient = n_Constant = n_Argument = n_terminal
    n_SpatialCoordinate = n_terminal

    def _literal(self, o, c, b, ctx):
        if ctx[0]:
            return Cx(0)
        return Cx.of(o._value)

    n_IntValue = n_FloatValue = n_ComplexValue = n_RealValue = n_ScalarValue = _literal

    def n_Zero(self, o, c, b, ctx):
        return Cx(0)

    def n_Identity(self, o, c, b, ctx):
        if ctx[0]:
            return Cx(0)
        return Cx(1 if c[0] == c[1] else 0)

    def n_PermutationSymbol(self, o, c, b, ctx):
        if ctx[0]:
            return Cx(0)
        s = 1
        for i in range(len(c)):
            for j in range(i + 1, len(c)):
                if c[i] == c[j]:
                    return Cx(0)
                if c[i] > c[j]:
                    s = -s
        return Cx(s)

    # ---- wrappers that push context to terminals ---------------------------------------------
    def _is_terminal_chain(self, o):
        from ufl.classes import Grad, ReferenceGrad, ReferenceValue, Restricted, Terminal, Variable

        while isinstance(o, (Grad, ReferenceGrad, ReferenceValue, Restricted)):
            o = o.ufl_operands[0]
        return isinstance(o, Terminal)

    def n_Grad(self, o, c, b, ctx):
        (f,) = o.ufl_operands
        if not self._is_terminal_chain(f):
            raise Unsupported("Grad of non-terminal (expand derivatives first or use the jet evaluator)")
        return self.ev(f, c[:-1], b, (ctx[0] + (c[-1],), ctx[1], ctx[2]))

    def n_ReferenceGrad(self, o, c, b, ctx):
        (f,) = o.ufl_operands
        if not self._is_terminal_chain(f):
            raise Unsupported("ReferenceGrad of non-terminal")
        return self.ev(f, c[:-1], b, (ctx[0] + (("X", c[-1]),), ctx[1], ctx[2]))

    def n_ReferenceValue(self, o, c, b, ctx):
        (f,) = o.ufl_operands
        return self.ev(f, c, b, (ctx[0], ctx[1], True))

    def n_restricted(self, o, c, b, ctx):
        (f,) = o.ufl_operands
        if ctx[1] is not None:
            raise Undefined("nested restriction")
        return self.ev(f, c, b, (ctx[0], o._side, ctx[2]))

    def n_Variable(self, o, c, b, ctx):
        return self.ev(o.ufl_operands[0], c, b, ctx)

    # below a restriction, ordinary operators just propagate the context
    # ---- algebra ----------------------------------------------------------------------------
    def n_Sum(self, o, c, b, ctx):
        x, y = o.ufl_operands
        return self.ev(x, c, b, ctx) + self.ev(y, c, b, ctx)

    def _nod(self, ctx, what):
        if ctx[0]:
            raise Unsupported(f"derivative context reached {what}")

    def n_Product(self, o, c, b, ctx):
        self._nod(ctx, "Product")
        x, y = o.ufl_operands
        return self.ev(x, (), b, ctx) * self.ev(y, (), b, ctx)

    def n_Division(self, o, c, b, ctx):
        self._nod(ctx, "Division")
        x, y = o.ufl_operands
        return self.ev(x, c, b, ctx) / self.ev(y, (), b, ctx)

    def n_Power(self, o, c, b, ctx):
        self._nod(ctx, "Power")
        x, y = o.ufl_operands
        return self.ev(x, (), b, ctx) ** self.ev(y, (), b, ctx)

    def n_Abs(self, o, c, b, ctx):
        self._nod(ctx, "Abs")
        return self.ev(o.ufl_operands[0], c, b, ctx).abs()

    def n_Conj(self, o, c, b, ctx):
        return self.ev(o.ufl_operands[0], c, b, ctx).conj()

    def n_Real(self, o, c, b, ctx):
        return self.ev(o.ufl_operands[0], c, b, ctx).real()

    def n_Imag(self, o, c, b, ctx):
        return self.ev(o.ufl_operands[0], c, b, ctx).imag()

    # ---- indexing ---------------------------------------------------------------------------
    def n_Indexed(self, o, c, b, ctx):
        from ufl.classes import FixedIndex

        A, mi = o.ufl_operands
        comp = tuple(int(i) if isinstance(i, FixedIndex) else b[i.count()] for i in mi)
        return self.ev(A, comp, b, ctx)

    def n_IndexSum(self, o, c, b, ctx):
        s, mi = o.ufl_operands
        (i,) = mi
        n = o.dimension()
        tot = Cx(0)
        b2 = dict(b)
        for k in range(n):
            b2[i.count()] = k
            tot = tot + self.ev(s, c, b2, ctx)
        return tot

    def n_ComponentTensor(self, o, c, b, ctx):
        e, mi = o.ufl_operands
        b2 = dict(b)
        for i, v in zip(mi, c):
            b2[i.count()] = v
        return self.ev(e, (), b2, ctx)

    def n_ListTensor(self, o, c, b, ctx):
        return self.ev(o.ufl_operands[c[0]], c[1:], b, ctx)

    # ---- conditionals -----------------------------------------------------------------------
    def cond(self, o, b, ctx):
        n = type(o).__name__
        if n in ("EQ", "NE"):
            x = self.ev(o.ufl_operands[0], (), b, ctx)
            y = self.ev(o.ufl_operands[1], (), b, ctx)
            return (x == y) == (n == "EQ")
        if n in ("LT", "GT", "LE", "GE"):
            x = self.ev(o.ufl_operands[0], (), b, ctx)
            y = self.ev(o.ufl_operands[1], (), b, ctx)
            if n == "LT":
                return x.lt(y)
            if n == "GT":
                return y.lt(x)
            if n == "LE":
                return not y.lt(x)
            return not x.lt(y)
        if n == "AndCondition":
            p = self.cond(o.ufl_operands[0], b, ctx)
            q = self.cond(o.ufl_operands[1], b, ctx)
            return p and q
        if n == "OrCondition":
            p = self.cond(o.ufl_operands[0], b, ctx)
            q = self.cond(o.ufl_operands[1], b, ctx)
            return p or q
        if n == "NotCondition":
            return not self.cond(o.ufl_operands[0], b, ctx)
        raise Unsupported("condition " + n)

    def _as_bool_value(self, o, c, b, ctx):
        return Cx(1 if self.cond(o, b, ctx) else 0)

    n_EQ = n_NE = n_LT = n_GT = n_LE = n_GE = _as_bool_value
    n_AndCondition = n_OrCondition = n_NotCondition = _as_bool_value

    def n_Conditional(self, o, c, b, ctx):
        self._nod(ctx, "Conditional")
        k, t, f = o.ufl_operands
        return self.ev(t, c, b, ctx) if self.cond(k, b, ctx) else self.ev(f, c, b, ctx)

    def n_MaxValue(self, o, c, b, ctx):
        x = self.ev(o.ufl_operands[0], (), b, ctx)
        y = self.ev(o.ufl_operands[1], (), b, ctx)
        return x if y.lt(x) else y

    def n_MinValue(self, o, c, b, ctx):
        x = self.ev(o.ufl_operands[0], (), b, ctx)
        y = self.ev(o.ufl_operands[1], (), b, ctx)
        return x if x.lt(y) else y

    # ---- math functions ---------------------------------------------------------------------
    def n_Sqrt(self, o, c, b, ctx):
        return self.ev(o.ufl_operands[0], (), b, ctx).sqrt()

    def _mf(fn, cfn):  # noqa: N805
        def h(self, o, c, b, ctx):
            self._nod(ctx, "math function")
            return _fmath(fn, cfn, self.ev(o.ufl_operands[0], (), b, ctx))

        return h

    import cmath as _cm

    n_Exp = _mf(math.exp, _cm.exp)
    n_Ln = _mf(math.log, _cm.log)
    n_Cos = _mf(math.cos, _cm.cos)
    n_Sin = _mf(math.sin, _cm.sin)
    n_Tan = _mf(math.tan, _cm.tan)
    n_Cosh = _mf(math.cosh, _cm.cosh)
    n_Sinh = _mf(math.sinh, _cm.sinh)
    n_Tanh = _mf(math.tanh, _cm.tanh)
    n_Acos = _mf(math.acos, _cm.acos)
    n_Asin = _mf(math.asin, _cm.asin)
    n_Atan = _mf(math.atan, _cm.atan)
    n_Erf = _mf(math.erf, None)

    def n_Atan2(self, o, c, b, ctx):
        x = self.ev(o.ufl_operands[0], (), b, ctx)
        y = self.ev(o.ufl_operands[1], (), b, ctx)
        return Cx.of(math.atan2(float(x), float(y)))

    def n_Sign(self, o, c, b, ctx):
        x = self.ev(o.ufl_operands[0], (), b, ctx)
        if not x.is_real():
            raise Undefined("sign of complex")
        return Cx(1 if x.re > 0 else -1 if x.re < 0 else 0)

    # ---- compound tensor algebra (mathematical definitions) ------------------------------------
    def n_Inner(self, o, c, b, ctx):
        x, y = o.ufl_operands
        tot = Cx(0)
        for t in comps(x.ufl_shape):
            tot = tot + self.ev(x, t, b, ctx) * self.ev(y, t, b, ctx).conj()
        return tot

    def n_Outer(self, o, c, b, ctx):
        x, y = o.ufl_operands
        r = len(x.ufl_shape)
        return self.ev(x, c[:r], b, ctx).conj() * self.ev(y, c[r:], b, ctx)

    def n_Dot(self, o, c, b, ctx):
        x, y = o.ufl_operands
        r = len(x.ufl_shape)
        tot = Cx(0)
        for k in range(y.ufl_shape[0]):
            tot = tot + self.ev(x, c[: r - 1] + (k,), b, ctx) * self.ev(y, (k,) + c[r - 1 :], b, ctx)
        return tot

    def n_Cross(self, o, c, b, ctx):
        x, y = o.ufl_operands
        p, q = (c[0] + 1) % 3, (c[0] + 2) % 3
        return self.ev(x, (p,), b, ctx) * self.ev(y, (q,), b, ctx) - self.ev(x, (q,), b, ctx) * self.ev(y, (p,), b, ctx)

    def n_Perp(self, o, c, b, ctx):
        (x,) = o.ufl_operands
        return -self.ev(x, (1,), b, ctx) if c[0] == 0 else self.ev(x, (0,), b, ctx)

    def n_Transposed(self, o, c, b, ctx):
        return self.ev(o.ufl_operands[0], (c[1], c[0]), b, ctx)

    def n_Trace(self, o, c, b, ctx):
        (x,) = o.ufl_operands
        tot = Cx(0)
        for k in range(x.ufl_shape[0]):
            tot = tot + self.ev(x, (k, k), b, ctx)
        return tot

    def _mat(self, x, b, ctx):
        return {t: self.ev(x, t, b, ctx) for t in comps(x.ufl_shape)}

    def n_Determinant(self, o, c, b, ctx):
        (x,) = o.ufl_operands
        return _det(self._mat(x, b, ctx), x.ufl_shape[0])

    def n_Inverse(self, o, c, b, ctx):
        (x,) = o.ufl_operands
        n = x.ufl_shape[0]
        M = self._mat(x, b, ctx)
        return _cofactor(M, n, c[1], c[0]) / _det(M, n)

    def n_Cofactor(self, o, c, b, ctx):
        (x,) = o.ufl_operands
        return _cofactor(self._mat(x, b, ctx), x.ufl_shape[0], c[0], c[1])

    def n_Deviatoric(self, o, c, b, ctx):
        (x,) = o.ufl_operands
        v = self.ev(x, c, b, ctx)
        if c[0] != c[1]:
            return v
        n = x.ufl_shape[0]
        tr = Cx(0)
        for k in range(n):
            tr = tr + self.ev(x, (k, k), b, ctx)
        return v - tr / n

    def n_Skew(self, o, c, b, ctx):
        (x,) = o.ufl_operands
        return (self.ev(x, c, b, ctx) - self.ev(x, (c[1], c[0]), b, ctx)) / 2

    def n_Sym(self, o, c, b, ctx):
        (x,) = o.ufl_operands
        return (self.ev(x, c, b, ctx) + self.ev(x, (c[1], c[0]), b, ctx)) / 2


def eval_table(expr, env):
    """{(binding values in free-index order, component): Cx | None(undefined)}"""
    ev = Evaluator(env)
    fi = tuple(expr.ufl_free_indices)
    fid = tuple(expr.ufl_index_dimensions)
    out = {}
    for bv in itertools.product(*[range(d) for d in fid]):
        b = dict(zip(fi, bv))
        for c in comps(expr.ufl_shape):
            try:
                out[(bv, c)] = ev.ev(expr, c, b)
            except (Undefined, ZeroDivisionError, OverflowError):
                out[(bv, c)] = None
    return out
