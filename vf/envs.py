"""Model environments: values for the symbolic terminals, shared verbatim by TLC (as constants of
the generated MC module) and by the Python evaluator.

Values are generic on purpose: pairwise distinct small rationals with both signs, so that a
transposed, swapped, sign-flipped or dropped component changes the observed number.
"""

from __future__ import annotations

import itertools
import random
from fractions import Fraction

from .scalar import Cx, to_tla

PRIMES = [2, 3, 5, 7, 11, 13, 17, 19, 23, 29, 31, 37, 41, 43, 47, 53, 59, 61, 67, 71, 73, 79, 83, 89, 97]


def comps(shape):
    return list(itertools.product(*[range(n) for n in shape]))


class Pool:
    """Terminal pool + environments.

    terminals: list of (name, shape); values[e][name][comp] -> Cx
    """

    def __init__(self, terminals, nenv=2, seed=0, complex_env=False, small=False, square_gram=(), tiny=False, geometry=None):
        """square_gram: names of m x n terminals (n < m) whose Gram determinant det(A^T A) must be a
        perfect square in every environment (so that the pseudo-determinant is rational)."""
        self.terminals = list(terminals)
        self.nenv = nenv
        rng = random.Random(seed * 7919 + 17)
        self.values = []
        for e in range(nenv):
            nums = PRIMES[:12] if small else PRIMES[:]
            if tiny:
                # distinct small integers (both signs come from the sign draw below)
                nums = list(range(1, 10))
            rng.shuffle(nums)
            it = itertools.cycle(nums)
            env = {}
            used = set()
            for name, shape in self.terminals:
                tab = {}
                if tiny:
                    used = set()  # distinct within one terminal only (18 values available)
                for c in comps(shape):
                    while True:
                        p = next(it)
                        s = rng.choice([1, 1, -1])
                        d = rng.choice([1, 1, 1, 2]) if not (small or tiny) else 1
                        v = Fraction(s * p, d)
                        if v not in used:
                            used.add(v)
                            break
                    if complex_env and e == nenv - 1:
                        q = next(it)
                        tab[c] = Cx(v, Fraction(rng.choice([1, -1]) * q, 1))
                    else:
                        tab[c] = Cx(v)
                env[name] = tab
            for name, shape in self.terminals:
                if name in square_gram:
                    env[name] = _square_gram_matrix(shape, rng)
            if geometry:
                _geometry_values(env, geometry, e, rng)
            self.values.append(env)
        self.opts = dict(geometry.get("opts", {})) if geometry else {}

    def add_replacement(self, src, img):
        """Register replace(., {src: image}); img = ("term", g) | ("scale", k, g) | ("sum", g, h) |
        ("prod", g, h) with terminals of src's shape (prod: g scalar) | ("const", k).  Adds, for every base
        environment e, an environment in which src has the value its image has in e."""
        if not hasattr(self, "replmaps"):
            self.replmaps = []
            self.nbase = self.nenv
        names = [n for n, _ in self.terminals]
        shape = dict(self.terminals)[src]
        sub = [0] * self.nenv
        for e in range(self.nbase):
            env = {n: dict(tab) for n, tab in self.values[e].items()}
            base = self.values[e]
            tab = {}
            for c in comps(shape):
                if img[0] == "term":
                    tab[c] = base[img[1]][c]
                elif img[0] == "scale":
                    tab[c] = Cx.of(img[1]) * base[img[2]][c]
                elif img[0] == "sum":
                    tab[c] = base[img[1]][c] + base[img[2]][c]
                elif img[0] == "prod":
                    tab[c] = base[img[1]][()] * base[img[2]][c]
                elif img[0] == "const":  # a number (scalar src) or that number in every component; 0: a zero tensor
                    tab[c] = Cx.of(img[1])
            env[src] = tab
            self.values.append(env)
            self.nenv += 1
            sub[e] = self.nenv
        for m in self.replmaps:
            m["sub"] += [0] * (self.nenv - len(m["sub"]))
        sub += [0] * (self.nenv - len(sub))
        self.replmaps.append({"src": names.index(src) + 1, "img": list(img), "sub": sub})

    def close_replacements(self):
        """Second-level environments p(q(e)) for every ordered pair of registered maps and base environment e, so that
        replace_q(replace_p(x)) = x at p(q(e)) is a table lookup as well (programs with two replace actions)."""
        first = [(q, e, q["sub"][e] - 1) for q in self.replmaps for e in range(self.nbase)]
        for q, e, eq in first:
            base = self.values[eq]
            for p in self.replmaps:
                src = self.terminals[p["src"] - 1][0]
                shape = dict(self.terminals)[src]
                img = p["img"]
                tab = {}
                for c in comps(shape):
                    if img[0] == "term":
                        tab[c] = base[img[1]][c]
                    elif img[0] == "scale":
                        tab[c] = Cx.of(img[1]) * base[img[2]][c]
                    elif img[0] == "sum":
                        tab[c] = base[img[1]][c] + base[img[2]][c]
                    elif img[0] == "prod":
                        tab[c] = base[img[1]][()] * base[img[2]][c]
                    elif img[0] == "const":
                        tab[c] = Cx.of(img[1])
                env = {n: dict(t) for n, t in base.items()}
                env[src] = tab
                self.values.append(env)
                self.nenv += 1
                for m in self.replmaps:
                    m["sub"] += [0] * (self.nenv - len(m["sub"]))
                p["sub"][eq] = self.nenv

    # ---- TLA+ rendering -----------------------------------------------------------------------
    def tla_terminals(self):
        return "<<" + ", ".join(f'[nm |-> "{n}", sh |-> {_seq(s)}]' for n, s in self.terminals) + ">>"

    def tla_termval(self):
        envs = []
        for env in self.values:
            tabs = []
            for name, shape in self.terminals:
                ents = [f"{_seq(c)} :> {to_tla(env[name][c])}" for c in comps(shape)]
                tabs.append("(" + " @@ ".join(ents) + ")")
            envs.append("<<" + ",\n     ".join(tabs) + ">>")
        return "<<" + ",\n   ".join(envs) + ">>"

    def to_json(self):
        return {
            "terminals": [[n, list(s)] for n, s in self.terminals],
            "values": [{n: [[list(c), v.to_json()] for c, v in tab.items()] for n, tab in env.items()} for env in self.values],
        }


def _square_gram_matrix(shape, rng):
    """Generic small integer m x n matrix (n < m) with det(A^T A) a positive perfect square and a
    non-diagonal Gram matrix (so index mistakes in A^T A are visible).  The first n-1 columns are
    drawn at random, the last column is searched exhaustively in a box."""
    import math

    m, n = shape
    box = list(itertools.product(range(-5, 6), repeat=m))
    for _ in range(2000):
        cols = [[rng.choice([-6, -5, -4, -3, -2, -1, 1, 2, 3, 4, 5, 6]) for _ in range(m)] for _ in range(n - 1)]
        rng.shuffle(box)
        for last in box:
            if 0 in last:
                continue
            A = [[cols[j][i] for j in range(n - 1)] + [last[i]] for i in range(m)]
            G = [[sum(A[k][i] * A[k][j] for k in range(m)) for j in range(n)] for i in range(n)]
            if n > 1 and all(G[i][j] == 0 for i in range(n) for j in range(n) if i != j):
                continue
            d = _idet(G)
            if d > 0 and math.isqrt(d) ** 2 == d and math.isqrt(d) <= 150:
                return {(i, j): Cx(A[i][j]) for i in range(m) for j in range(n)}
    raise RuntimeError("no square-Gram matrix found")


def _geometry_values(env, geometry, e, rng):
    """Consistent cell-map data: J generic integer (gdim x tdim), K its (pseudo-)inverse, detJ the
    determinant (sign alternates with the environment) or pseudo-determinant, I the identity."""
    g, t = geometry["gdim"], geometry["tdim"]
    names = geometry["names"]  # {"J": name, "K": name, "detJ": name, "I": name}
    for _ in range(100000):
        if g == t:
            A = [[rng.randint(-4, 4) for _ in range(t)] for _ in range(g)]
            d = _idet(A)
            if d == 0 or abs(d) == 1 or (d > 0) != (e % 2 == 0) or len({abs(x) for r in A for x in r}) < 3 or any(x == 0 for r in A for x in r):
                continue
            det = Fraction(d)
            G = None
        else:
            tab = _square_gram_matrix((g, t), rng)
            A = [[int(tab[(i, j)].re) for j in range(t)] for i in range(g)]
            G = [[sum(A[k][i] * A[k][j] for k in range(g)) for j in range(t)] for i in range(t)]
            import math

            det = Fraction(math.isqrt(_idet(G)))
        break
    # inverse / pseudo-inverse with Fractions
    def inv(M):
        n = len(M)
        d = Fraction(_idet(M))
        if n == 1:
            return [[1 / Fraction(M[0][0])]]
        cof = [[(-1) ** (i + j) * _idet([r[:j] + r[j + 1 :] for k, r in enumerate(M) if k != i]) for j in range(n)] for i in range(n)]
        return [[Fraction(cof[j][i]) / d for j in range(n)] for i in range(n)]

    if g == t:
        Kt = inv(A)
    else:
        Gi = inv(G)
        Kt = [[sum(Gi[r][q] * A[s][q] for q in range(t)) for s in range(g)] for r in range(t)]
    if "J" in names:
        env[names["J"]] = {(i, j): Cx(Fraction(A[i][j])) for i in range(g) for j in range(t)}
    if "K" in names:
        env[names["K"]] = {(i, j): Cx(Kt[i][j]) for i in range(t) for j in range(g)}
    if "detJ" in names:
        env[names["detJ"]] = {(): Cx(det)}
    for nm, n in geometry.get("identities", {}).items():
        env[nm] = {(i, j): Cx(1 if i == j else 0) for i in range(n) for j in range(n)}


def _idet(M):
    n = len(M)
    if n == 1:
        return M[0][0]
    return sum((-1) ** j * M[0][j] * _idet([r[:j] + r[j + 1 :] for r in M[1:]]) for j in range(n))


def _seq(t):
    return "<<" + ", ".join(str(x) for x in t) + ">>"


class TermEnv:
    """Environment over real ufl objects: maps terminal object -> {comp: Cx}.  Derivative data
    (`derivs` non-empty) comes from `dvalues[(obj, derivs)]` when present."""

    def __init__(self, values, dvalues=None, sided=None):
        self.values = values  # {ufl object: {comp: Cx}}
        self.dvalues = dvalues or {}
        self.sided = sided or {}

    def terminal(self, o, comp, derivs, side, ref):
        from .scalar import Undefined

        if derivs:
            tab = self.dvalues.get((o, derivs))
            if tab is None:
                raise KeyError(f"no derivative data for {o!r} {derivs}")
            return tab[comp]
        if side is not None and (o, side) in self.sided:
            return self.sided[(o, side)][comp]
        tab = self.values.get(o)
        if tab is None:
            raise KeyError(f"no value for terminal {o!r}")
        return tab[comp]


# ------------------------------------------------------------------------------------------------
# Environments for the derivative semantics (scalar domain spec/jets/CQ.tla)
# ------------------------------------------------------------------------------------------------


def bd_tla(z0, z1=0, z2=0, z3=0):
    """A truncated Taylor series; every coefficient is a constant polynomial <<c>> of spec/jets/CLbase.tla."""
    return "<<" + ", ".join("<<" + to_tla(Cx.of(z)) + ">>" for z in (z0, z1, z2, z3)) + ">>"


class JetPool(Pool):
    """Terminal pool whose TLA+ rendering seeds every terminal as a truncated Taylor series.

    mode "spatial":  environment e = (E, a, b); terminal f is f + s d_a f + t d_b f + st d_a d_b f with
                     independent random derivative data (d2 symmetric).  ndir = spatial dimension.
    mode "gateaux":  one TLC environment per base environment; `seeds` maps a terminal name to
                     (name of the s-direction terminal or None, name of the t-direction or None).
    mode "variable": environment e = (E, a, b) over the flattened components of the differentiation
                     variable; terminals are not seeded (the action seedvar seeds the variable).
    Terminals may carry options: {"kind": "coef"|"arg0"|"arg1", "grad_of": name}.
    """

    def __init__(self, terminals, mode, ndir=0, seeds=None, nenv=1, seed=0, tiny=True, complex_env=False, opts=None, nspat=None, varsizes=None):
        super().__init__(terminals, nenv=nenv, seed=seed, tiny=tiny, complex_env=complex_env)
        self.mode = mode
        self.ndir = ndir
        # directions 0..nspat-1 are spatial, the rest are the flattened components of the variables
        # ("mixed": spatial derivatives AND differentiation variables in one program)
        self.nspat = nspat if nspat is not None else (ndir if mode == "spatial" else 0)
        self.varsizes = tuple(varsizes) if varsizes is not None else ((ndir - self.nspat,) if mode in ("variable", "mixed") else ())
        self.seeds = seeds or {}
        self.opts = opts or {}
        self.nbase = nenv
        rng = random.Random(seed * 104729 + 5)
        self.d1 = []
        self.d2 = []
        if mode in ("spatial", "mixed"):
            for e in range(nenv):
                d1, d2 = {}, {}
                for name, shape in self.terminals:
                    d1[name] = {}
                    d2[name] = {}
                    for c in comps(shape):
                        for m in range(ndir):
                            d1[name][c + (m,)] = Cx(Fraction(rng.choice([1, -1]) * rng.randint(1, 9))) if m < self.nspat else Cx(0)
                        for m in range(ndir):
                            for n in range(m, ndir):
                                v = Cx(Fraction(rng.choice([1, -1]) * rng.randint(1, 9))) if n < self.nspat else Cx(0)
                                d2[name][c + (m, n)] = v
                                d2[name][c + (n, m)] = v
                self.d1.append(d1)
                self.d2.append(d2)
        if mode in ("spatial", "variable", "mixed"):
            self.envdirs = [(E + 1, a, b) for E in range(nenv) for a in range(ndir) for b in range(ndir)]
        else:
            self.envdirs = []

    @property
    def ntlc(self):
        """Number of TLC environments (gateaux mode: base environments + replacement environments)."""
        return len(self.envdirs) if self.envdirs else self.nenv

    def _seed(self, E, sd, c):
        """Perturbation of component c: None | name | ("comp", k, name) | ("prod", a, b)."""
        if sd is None:
            return 0
        if isinstance(sd, str):
            if sd not in self.values[E]:
                return 0  # direction terminal not part of this slice's pool
            return self.values[E][sd][c]
        if sd[0] == "comp":
            return self.values[E][sd[2]][()] if tuple(c) == tuple(sd[1]) else 0
        if sd[0] == "comps":  # {component: scalar direction terminal}
            for comp, name in sd[1]:
                if tuple(c) == tuple(comp):
                    return self.values[E][name][()]
            return 0
        if sd[0] == "prod":  # scalar a times b (user-supplied coefficient derivative times direction)
            return self.values[E][sd[1]][()] * self.values[E][sd[2]][c]
        if sd[0] == "dprod":  # gradient of (a * b): a * grad_b[c] + b * grad_a[c]   (a, b scalars)
            _, a, gb, b, ga = sd
            return self.values[E][a][()] * self.values[E][gb][c] + self.values[E][b][()] * self.values[E][ga][c]
        raise ValueError(sd)

    def tlc_env_of_base(self, E):
        """Index (0-based) of the TLC environment whose VALUES are those of base environment E."""
        if self.envdirs:
            return self.envdirs.index((E + 1, 0, 0))
        return E

    def tla_termval(self):
        envs = []
        if self.mode == "gateaux":
            for E in range(self.nenv):  # base environments, then the replacement environments (same seeding)
                tabs = []
                for name, shape in self.terminals:
                    sd, td = self.seeds.get(name, (None, None))
                    ents = []
                    for c in comps(shape):
                        z0 = self.values[E][name][c]
                        z1 = self._seed(E, sd, c)
                        z2 = self._seed(E, td, c)
                        ents.append(f"{_seq(c)} :> {bd_tla(z0, z1, z2, 0)}")
                    tabs.append("(" + " @@ ".join(ents) + ")")
                envs.append("<<" + ",\n     ".join(tabs) + ">>")
        else:
            for E1, a, b in self.envdirs:
                E = E1 - 1
                tabs = []
                for name, shape in self.terminals:
                    ents = []
                    for c in comps(shape):
                        z0 = self.values[E][name][c]
                        if self.mode in ("spatial", "mixed"):
                            ents.append(f"{_seq(c)} :> {bd_tla(z0, self.d1[E][name][c + (a,)], self.d1[E][name][c + (b,)], self.d2[E][name][c + (a, b)])}")
                        elif name == getattr(self, "seed_term", None):
                            # the differentiation variable is this terminal: component number a is
                            # seeded with s, component number b with t
                            k = comps(shape).index(tuple(c))
                            ents.append(f"{_seq(c)} :> {bd_tla(z0, 1 if k == a else 0, 1 if k == b else 0, 0)}")
                        else:
                            ents.append(f"{_seq(c)} :> {bd_tla(z0)}")
                    tabs.append("(" + " @@ ".join(ents) + ")")
                envs.append("<<" + ",\n     ".join(tabs) + ">>")
        return "<<" + ",\n   ".join(envs) + ">>"

    def tla_envdirs(self):
        return "<<" + ", ".join(f"<<{E}, {a}, {b}>>" for E, a, b in self.envdirs) + ">>"
