"""C14 — The arity check accepts exactly multilinear integrands.

spec/Arity.tla builds integrands node by node (the lowered language the checker sees, plus a few
user-level operators with their lowered form spelled out); every node record carries (b) the arity
the handlers of ufl/algorithms/check_arities.py compute, transcribed as coded in
spec/ArityRules.tla (the list tensor rule both as coded and as intended), and (c) the exact value of
the node in an experiment of environments in which each form argument takes the values v, 0, 2v, -v,
w, v+w (and iv in complex mode), so that "linear in argument n" (antilinear in the test function in
complex mode) is decided on exact Gaussian rationals.  Forms have two or three arguments (numbers 0,
1, 2: the third is "treated as a trial function" by the complex-mode test), and an argument number may
be split into parts (block systems: Argument(V, n, part)); all parts of a number are one form argument
and vary together in the experiment, while the checker's tuples hold the (number, part) objects.  TLC checks  Accepts => Multilinear  and
NonlinearOrAffine => ~Accepts  over every reachable term (fails for the list tensor rule as coded,
holds for the intended rule) and dumps every term with the model's verdicts and semantic classes.

Conformance (this module), for every dumped term, in the mode of its run:
  * the program is executed through ufl's public API with real Argument / Coefficient objects and
    pushed through the pipeline of compute_form_data up to the arity check (do_comparison_check in
    complex mode, apply_algebra_lowering, remove_complex_nodes in real mode, apply_derivatives), then
    check_integrand_arity(expr, arguments, complex_mode) is called — with the integrand's own
    arguments and with all arguments of the slice as "the form's arguments";
  * THE PROPERTY is decided on the real objects alone: the expression handed to the checker is
    evaluated (vf/sem.py, exact) in the same experiment; accepted => linear in every form argument
    (else ctx.violation), affine / nonlinear => rejected (the same statement); a rejected multilinear
    integrand is incompleteness and only counted;
  * binding of the checker model: the DAG handed to the real checker is abstracted (MRO handler
    names, argument numbers, Zero flags) and spec/ArityTrace.tla evaluates the handlers of
    ArityRules.tla on exactly that DAG; its verdict must equal what the real checker did (as coded;
    or intended, should the code have been repaired) — anything else is a MachineryError;
  * binding of the meaning: the semantic class TLC computed from the predicted values must equal the
    class computed from the real object wherever both are defined;
  * for a sample the whole compute_form_data(form, complex_mode=..) (with and without function
    pullbacks) must give the verdict of the direct call.
"""

from __future__ import annotations

import itertools
import json
import os
import random
import re
import time
from fractions import Fraction

from .. import tlc
from ..common import MachineryError, main_wrapper
from ..scalar import Cx, Undefined, to_tla

TLC_WORKERS = 4  # in total
TLC_JOBS = 2  # concurrent TLC processes
PY_WORKERS = 6
NGROUPS = 2
NARGS = 2  # arguments of a form unless a slice uses the third one
JAVA = "-DTLA-Library=" + os.path.join(os.path.dirname(os.path.dirname(os.path.dirname(os.path.abspath(__file__)))), "spec") + " -Xmx4g -XX:ParallelGCThreads=2"

# ------------------------------------------------------------------------------------------------
# Terminal pool (one per mode), slices (bounded instances), runs (one TLC process each)
# roles: arg0 / arg1 (the Argument itself), grad0 / grad1 (grad of it), rval0 (ReferenceValue),
#        rgrad0 (ReferenceGrad(ReferenceValue)), coef, geom (SpatialCoordinate), geoms (CellVolume)
# An argument number has one scalar and one vector incarnation (v / vv): a slice uses one of them;
# or it is split into the parts 0 and 1 of a block system (v0, v1 / u0, u1): a slice then uses parts
# only for that number and all parts it uses are the form's arguments with that number.
# ------------------------------------------------------------------------------------------------

ROLE_NUM = {"arg0": 0, "arg1": 1, "arg2": 2, "grad0": 0, "grad1": 1, "grad2": 2, "rval0": 0, "rgrad0": 0}
ROLE_WRAP = {"arg0": "none", "arg1": "none", "arg2": "none", "grad0": "grad", "grad1": "grad", "grad2": "grad", "rval0": "rval", "rgrad0": "rgrad"}

TERMS = {
    # name: (shape, role, underlying argument name)
    "v": ((), "arg0", "v"),
    "u": ((), "arg1", "u"),
    "vv": ((2,), "arg0", "vv"),
    "uu": ((2,), "arg1", "uu"),
    "gv": ((2,), "grad0", "v"),
    "gu": ((2,), "grad1", "u"),
    "rv": ((), "rval0", "v"),
    "rgv": ((2,), "rgrad0", "v"),
    # the third argument of a trilinear form
    "w": ((), "arg2", "w"),
    "ww": ((2,), "arg2", "ww"),
    "gw": ((2,), "grad2", "w"),
    # block systems: parts 0 and 1 of the test / trial function
    "v0": ((), "arg0", "v0"),
    "v1": ((), "arg0", "v1"),
    "u0": ((), "arg1", "u0"),
    "u1": ((), "arg1", "u1"),
    "f": ((), "coef", None),
    "g": ((), "coef", None),
    "c": ((2,), "coef", None),
    "x": ((2,), "geom", None),
    "vol": ((), "geoms", None),
}
TERM_ORDER = list(TERMS)
ARG_NAMES = sorted({b for _, r, b in TERMS.values() if r in ROLE_NUM})  # the Argument objects
ARG_NUM = {b: ROLE_NUM[r] for _, r, b in TERMS.values() if r in ROLE_NUM}
ARG_PART = {"v0": 0, "v1": 1, "u0": 0, "u1": 1}  # Argument.part(); None (-1 in the specification) otherwise
DEFAULT_ARG = ("v", "u", "w")  # the argument of a number no terminal of the slice mentions
LITS = {"one": Fraction(1), "two": Fraction(2), "onehalf": Fraction(3, 2), "imag": complex(0, 1)}
ZEROS = {"z": (), "zz": (2,)}
IDX = (10, 11)


class Slice:
    """A bounded instance: usable initial nodes (terminal / literal / zero names), operations,
    node bound, rank bound, index names; simulate = number of random behaviours per TLC worker
    (else the slice is explored exhaustively); group = tag of the TLC runs the slice belongs to; canon =
    sums and products only with their operands in store order (the other order is the same object)."""

    def __init__(self, name, use, ops, maxnodes, cm, idx=(10,), maxrank=1, simulate=None, group="", canon=False):
        self.name, self.use, self.ops, self.maxnodes, self.cm = name, list(use), sorted(ops), maxnodes, bool(cm)
        self.idx, self.maxrank, self.simulate, self.group, self.canon = list(idx), maxrank, simulate, group, bool(canon)
        for n in self.use:
            if n not in TERMS and n not in LITS and n not in ZEROS:
                raise MachineryError(f"slice {name}: unknown initial node {n}")
        # "all the form's arguments" of a form made of the slice's terms: per number the first
        # incarnation the slice uses, or all the parts it uses
        per = {}
        for n in self.use:
            if n in TERMS and TERMS[n][1] in ROLE_NUM:
                base = TERMS[n][2]
                got = per.setdefault(ARG_NUM[base], [])
                if got and (base in ARG_PART) != (got[0] in ARG_PART):
                    raise MachineryError(f"slice {name}: argument {ARG_NUM[base]} with and without parts")
                if got and base not in ARG_PART and got[0] != base:
                    raise MachineryError(f"slice {name}: two different Arguments {got[0]}, {base} with number {ARG_NUM[base]} (a form has one)")
                if not got or (base in ARG_PART and base not in got):
                    got.append(base)
        self.nargs = max([NARGS] + [k + 1 for k in per])
        self.formargs = [a for k in range(self.nargs) for a in sorted(per.get(k, [DEFAULT_ARG[k]]), key=lambda b: ARG_PART.get(b, -1))]

    def to_json(self):
        return {"name": self.name, "use": self.use, "ops": self.ops, "maxnodes": self.maxnodes, "cm": self.cm, "idx": self.idx, "maxrank": self.maxrank, "simulate": self.simulate, "group": self.group, "canon": self.canon}

    @staticmethod
    def from_json(d):
        return Slice(d["name"], d["use"], d["ops"], d["maxnodes"], d["cm"], d["idx"], d["maxrank"], d.get("simulate"), d.get("group", ""), d.get("canon", False))


ALG = {"add", "sub", "neg", "mul", "div", "pow", "abs", "sqrt", "sign"}
DEEP = {"add", "sub", "mul", "div", "pow", "abs", "index", "isum", "as_tensor", "list", "lt", "cond", "inner", "dot", "outer", "restrict", "variable", "neg"}


def slices(tier):
    q = tier == "quick"
    S = Slice
    out = [
        # scalar algebra: sum / product / division / power / abs / math functions
        S("alg-r", ["v", "u", "f", "two"] + ([] if q else ["one", "g"]), ALG if not q else ALG - {"sub", "sign", "neg", "sqrt"}, 2, False),
        S("alg-c", ["v", "u", "f"] + ([] if q else ["two", "imag"]), {"add", "mul", "div", "conj", "real", "imag", "abs"} | (set() if q else {"neg"}), 2, True),
        # list tensors and contractions (the known defect lives here)
        S("list-r", ["v", "u", "f", "c", "one", "z"] + ([] if q else ["onehalf"]), {"list", "dot", "inner", "mul", "add"}, 2, False),
        S("list-c", ["v", "u", "c", "one", "z"], {"list", "inner", "dot", "conj", "mul"}, 2 if q else 3, True),
        # conditionals: branches, zero branches, argument-dependent conditions
        S("cond-r", ["v", "u", "f", "g", "z"] + ([] if q else ["two"]), {"lt", "cond", "mul"} | (set() if q else {"eq"}), 2, False),
        # linear operators on terminals, restrictions, variables, geometry, reference values
        S("linop-r", ["v", "u", "gv", "gu", "x", "f"] + ([] if q else ["vol", "two"]), {"restrict", "variable", "dot", "mul", "index"} | (set() if q else {"inner", "add"}), 2, False),
        S("ref-r", ["v", "rv", "rgv", "f", "c"], {"mul", "add", "dot", "restrict", "variable", "index"}, 2, False),
        # vector arguments, sesquilinear products
        S("vec-c", ["vv", "uu", "c", "f"], {"inner", "dot", "outer", "conj", "mul", "index", "isum"}, 2, True, idx=(10, 11), maxrank=2),
        # real mode erases conj / real before the check
        S("erase-r", ["v", "f", "two"] + ([] if q else ["u"]), {"conj", "real", "mul", "add", "abs"}, 2, False),
        # deep random terms (no Power in complex mode: do_comparison_check calls float() on the exponent,
        # which for a symbolic exponent recurses between Expr.__float__ and Terminal.evaluate without
        # practical end)
        S("deep-r", ["v", "u", "f", "g", "c", "gv", "one", "two", "onehalf", "z", "zz"], DEEP, 6, False, idx=(10, 11), maxrank=2, simulate=50 if q else 500),
        S("deep-c", ["v", "u", "f", "c", "gu", "one", "two", "imag", "z", "zz"], (DEEP | {"conj", "real", "imag"}) - {"restrict", "pow"}, 6, True, idx=(10, 11), maxrank=2, simulate=40 if q else 350),
        S("deep-vec-c", ["vv", "uu", "c", "f", "two", "z", "zz"], {"inner", "dot", "outer", "conj", "mul", "index", "isum", "add", "sub", "list", "as_tensor", "div", "cond", "lt", "real"}, 5, True, idx=(10, 11), maxrank=2, simulate=25 if q else 250),
        # ---- group "x": own TLC runs (the experiment has three arguments where a slice needs them) ----
        # trilinear forms: in complex mode the third argument is "treated as a trial function"
        S("rank3-c", ["v", "u", "w"] + ([] if q else ["f"]), {"mul", "conj"} | (set() if q else {"add"}), 3, True, group="x", canon=True),
        # block systems: the test / trial function split into parts (same number, different part)
        S("parts-r", ["v0", "v1", "u0", "u1", "c"] + ([] if q else ["z"]), {"list", "dot", "mul", "add"}, 2, False, group="x", canon=True),
        S("parts-c", ["v0", "v1", "u0", "u1", "c"], {"list", "inner", "dot", "conj", "mul"}, 2, True, group="x", canon=True),
    ]
    if not q:
        out += [
            # three constructor calls over narrower pools
            S("list3-r", ["v", "f", "c", "one", "z"], {"list", "dot", "mul", "add"}, 3, False),
            S("cond3-r", ["v", "f", "g", "z"], {"lt", "cond", "mul"}, 3, False),
            S("condlist3-r", ["v", "f", "c", "z"], {"lt", "cond", "list", "dot"}, 3, False),
            S("alg3-r", ["v", "u", "f"], {"add", "mul", "div"}, 3, False),
            S("erase3-r", ["v", "f"], {"conj", "real", "mul", "add"}, 3, False),
            S("index-r", ["vv", "uu", "c", "one", "z"], {"index", "isum", "as_tensor", "mul", "list"}, 3, False),
            S("index4-r", ["vv", "c", "one"], {"index", "isum", "mul", "list"}, 4, False),
            S("cond-c", ["v", "f", "z"], {"lt", "cond", "real", "conj", "mul"}, 3, True),
            S("alg3-c", ["v", "u", "f"], {"add", "mul", "conj"}, 3, True),
            # group "x", three constructor calls: full block bilinear forms dot(<v0, v1>, <u0, u1>), conditionals
            # between parts, trilinear forms in real mode, and deep random terms
            S("rank3-r", ["v", "u", "w"], {"mul", "add"}, 3, False, group="x", canon=True),
            S("parts3-r", ["v0", "v1", "u0", "u1", "c"], {"list", "dot", "mul"}, 3, False, group="x", canon=True),
            S("parts3-c", ["v0", "v1", "u0", "u1"], {"list", "inner", "conj", "mul"}, 3, True, group="x", canon=True),
            S("condparts-r", ["v0", "v1", "f", "z"], {"lt", "cond", "mul"}, 3, False, group="x", canon=True),
            S("deep3-c", ["v", "u", "w", "gw", "f", "c", "two", "imag", "z"], (DEEP | {"conj", "real"}) - {"restrict", "pow"}, 6, True, idx=(10, 11), maxrank=2, simulate=100, group="x", canon=True),
            S("deepparts-r", ["v0", "v1", "u0", "u1", "f", "c", "one", "two", "z", "zz"], DEEP, 6, False, idx=(10, 11), maxrank=2, simulate=120, group="x", canon=True),
        ]
    return out


class Run:
    """One TLC process: all slices of one mode and group, exhaustive or simulated; the experiment
    has as many arguments as the widest slice needs."""

    def __init__(self, name, cm, subs, simulate=None):
        self.name, self.cm, self.subs, self.simulate = name, cm, subs, simulate
        self.nargs = max(s.nargs for s in subs)
        used = set(n for s in subs for n in s.use)
        self.terms = [n for n in TERM_ORDER if n in used]
        self.lits = [n for n in LITS if n in used]
        self.zeros = [n for n in ZEROS if n in used]
        self.init_names = self.terms + self.lits + self.zeros
        self.depth = 1 + max(s.maxnodes for s in subs)

    def to_json(self):
        return {"name": self.name, "cm": self.cm, "subs": [s.to_json() for s in self.subs], "simulate": self.simulate}

    @staticmethod
    def from_json(d):
        return Run(d["name"], d["cm"], [Slice.from_json(s) for s in d["subs"]], d.get("simulate"))


def runs_of(sls):
    out = []
    for group in sorted({s.group for s in sls}):
        for cm in (False, True):
            ex = [s for s in sls if s.cm == cm and s.group == group and not s.simulate]
            si = [s for s in sls if s.cm == cm and s.group == group and s.simulate]
            tag = ("c" if cm else "r") + group
            if ex:
                out.append(Run("exh-" + tag, cm, ex))
            if si:
                out.append(Run("sim-" + tag, cm, si, simulate=sum(s.simulate for s in si)))
    return out


# ------------------------------------------------------------------------------------------------
# The experiment of environments (shared verbatim by TLC and by the evaluation of real objects)
# ------------------------------------------------------------------------------------------------


def comps(shape):
    return list(itertools.product(*[range(n) for n in shape]))


class Layout:
    def __init__(self, cm, nargs=NARGS, ngroups=NGROUPS):
        self.nargs, self.cm, self.ngroups = nargs, cm, ngroups
        self.k = 6 if cm else 5
        self.gs = 1 + self.k * nargs
        self.nenv = ngroups * self.gs

    def base(self, g):
        return g * self.gs

    def var(self, g, n, t):
        return g * self.gs + 1 + self.k * n + t


def _cands():
    out, seen = [], set()
    for d in (1, 2, 3, 5, 4, 7):
        for n in range(1, 10):
            q = Fraction(n, d)
            if q in seen or q == 1 or q.denominator != d:
                continue
            seen.add(q)
            out.append(q if (n + d) % 2 else -q)
    return out


REAL_CAND = _cands()  # small numerators and denominators: products of several stay inside CQ's range
SQUARES = [Fraction(4), Fraction(9), Fraction(1, 4), Fraction(9, 4), Fraction(4, 9), Fraction(25, 4)]


class ExpPool:
    """values[e][name][comp] -> Cx for the experiment layout, for the terminals of a run."""

    def __init__(self, run, seed, values=None):
        self.run = run
        self.lay = Layout(run.cm, run.nargs)
        self.nenv = self.lay.nenv
        if values is not None:
            self.values = values
            return
        rng = random.Random(seed * 1000003 + sum(ord(ch) for ch in run.name))
        self.values = [dict() for _ in range(self.nenv)]
        for g in range(self.lay.ngroups):
            used = set()

            def fresh(square=False):
                for _ in range(2000):
                    if run.cm:
                        v = Cx(rng.choice([1, 2, 3, 4, 5, -1, -2, -3, -4, -5]), rng.choice([1, 2, 3, 4, -1, -2, -3, -4]))
                    else:
                        v = Cx(rng.choice(SQUARES if square else REAL_CAND) * rng.choice([1, -1]))
                        if square:
                            v = Cx(abs(v.re))
                    key = (v.re, v.im)
                    # distinct, and not the negative or the conjugate of a value in use
                    if not ({key, (-v.re, -v.im), (v.re, -v.im), (-v.re, v.im)} & used):
                        used.add(key)
                        return v
                raise MachineryError("environment generator ran out of distinct values")

            scal = []  # base values of the scalar coefficients generated so far in this group
            for name in run.terms:
                shape, role, _ = TERMS[name]
                sc = role == "coef" and not shape
                for _ in range(200):
                    snapshot = set(used)
                    base = {c: fresh(square=(sc and not scal)) for c in comps(shape)}
                    # the order of the first two scalar coefficients flips between the groups, so
                    # that a condition f < g selects different branches in different groups
                    if run.cm or not sc or len(scal) != 1 or (scal[0].re < base[()].re) == (g % 2 == 0):
                        break
                    used.clear()
                    used.update(snapshot)
                if sc:
                    scal.append(base[()])
                num = ROLE_NUM.get(role, -1)
                w = {c: fresh() for c in comps(shape)} if num >= 0 else {}
                for e in range(self.lay.base(g), self.lay.base(g) + self.lay.gs):
                    self.values[e][name] = dict(base)
                if num >= 0:
                    var = lambda t: self.values[self.lay.var(g, num, t)]  # noqa: E731
                    var(0)[name] = {c: Cx(0) for c in base}
                    var(1)[name] = {c: base[c] * 2 for c in base}
                    var(2)[name] = {c: -base[c] for c in base}
                    var(3)[name] = dict(w)
                    var(4)[name] = {c: base[c] + w[c] for c in base}
                    if run.cm:
                        var(5)[name] = {c: base[c] * Cx(0, 1) for c in base}

    def tla_terminals(self):
        ents = []
        for n in self.run.terms:
            s, r, _ = TERMS[n]
            ents.append(f'[nm |-> "{n}", sh |-> {_seq(s)}, num |-> {_int(ROLE_NUM.get(r, -1))}, part |-> {_int(ARG_PART.get(TERMS[n][2], -1))}, wrap |-> "{ROLE_WRAP.get(r, "none")}"]')
        return "<<" + ", ".join(ents) + ">>"

    def tla_termval(self):
        envs = []
        for env in self.values:
            tabs = []
            for name in self.run.terms:
                ents = [f"{_seq(c)} :> {to_tla(env[name][c])}" for c in comps(TERMS[name][0])]
                tabs.append("(" + " @@ ".join(ents) + ")")
            envs.append("<<" + ", ".join(tabs) + ">>")
        return "<<" + ",\n   ".join(envs) + ">>"

    def to_json(self):
        return [{n: [[list(c), v.to_json()] for c, v in tab.items()] for n, tab in env.items()} for env in self.values]

    @staticmethod
    def from_json(run, doc):
        def cx(v):
            f = lambda x: Fraction(x[0], x[1])  # noqa: E731
            return Cx(f(v[0]), f(v[1]))

        vals = [{n: {tuple(c): cx(v) for c, v in ents} for n, ents in env.items()} for env in doc]
        return ExpPool(run, 0, values=vals)


def _seq(t):
    return "<<" + ", ".join(str(x) for x in t) + ">>"


def _int(n):
    return str(n) if n >= 0 else f"(0 - {-n})"


def _set(xs):
    return "{" + ", ".join(xs) + "}"


def mc_module(name, run, pool):
    lit_txt = "<<" + ", ".join(f'[nm |-> "{n}", v |-> {to_tla(Cx.of(LITS[n]))}]' for n in run.lits) + ">>"
    zero_txt = "<<" + ", ".join(_seq(ZEROS[z]) for z in run.zeros) + ">>"
    subs = []
    for s in run.subs:
        ids = [str(run.init_names.index(n) + 1) for n in s.use]
        fargs = _set(f"<<{ARG_NUM[a]}, {_int(ARG_PART.get(a, -1))}>>" for a in s.formargs)
        subs.append(f"[ops |-> {_set(json.dumps(o) for o in s.ops)}, ids |-> {_set(ids)}, idx |-> {_set(map(str, s.idx))}, maxnodes |-> {s.maxnodes}, maxrank |-> {s.maxrank}, fargs |-> {fargs}, canon |-> {'TRUE' if s.canon else 'FALSE'}]")
    return f"""---- MODULE {name} ----
EXTENDS Arity
MC_Terminals == {pool.tla_terminals()}
MC_TermVal ==
  {pool.tla_termval()}
MC_Lits == {lit_txt}
MC_Zeros == {zero_txt}
MC_Slices == <<{", ".join(subs)}>>
====
"""


def mc_cfg(run, pool, rule, invariants, sim=False):
    lines = [
        "CONSTANTS",
        "Terminals <- MC_Terminals",
        "TermVal <- MC_TermVal",
        f"NEnv = {pool.nenv}",
        "Lits <- MC_Lits",
        "Zeros <- MC_Zeros",
        "Slices <- MC_Slices",
        "MaxDim = 2",
        f"ComplexMode = {'TRUE' if run.cm else 'FALSE'}",
        f'ListTensorRule = "{rule}"',
        f"NGroups = {pool.lay.ngroups}",
        f"NArgs = {pool.lay.nargs}",
        "SPECIFICATION SimSpec" if sim else "SPECIFICATION Spec",
    ]
    lines += [f"INVARIANT {i}" for i in invariants]
    return "\n".join(lines) + "\n"


def run_tlc(run, pool, rule, invariants, seed, workers, timeout=1500):
    name = "MC_Arity_" + run.name.replace("-", "_")
    kw = {}
    if run.simulate:
        kw = dict(simulate=f"num={run.simulate}", depth=run.depth, seed=seed + 1)
    return tlc.run(name, mc_cfg(run, pool, rule, invariants, sim=bool(run.simulate)), mc_text=mc_module(name, run, pool), mc_name=name, workers=workers, timeout=timeout, env={"JAVA_TOOL_OPTIONS": JAVA}, **kw)


# ------------------------------------------------------------------------------------------------
# The real side
# ------------------------------------------------------------------------------------------------


class AEnv:
    """Environment for vf.sem.Evaluator: tables keyed by (terminal object, derivative directions,
    reference value?).  Restrictions do not change values (continuous functions)."""

    def __init__(self):
        self.t = {}

    def terminal(self, o, comp, derivs, side, ref):
        tab = self.t.get((o, derivs, bool(ref)))
        if tab is None:
            raise KeyError(f"no value for terminal {o!r} derivs={derivs} ref={ref}")
        return tab[comp]


class World:
    """Real ufl objects of a run: Arguments (scalar and vector incarnation per number),
    coefficients, geometry, literals, zeros; the environments keyed for vf/sem.py."""

    def __init__(self, run, pool):
        import ufl
        from ufl.classes import ReferenceGrad, ReferenceValue
        from ufl.core.multiindex import Index

        from ..elements import LagrangeElement

        self.ufl, self.run, self.pool = ufl, run, pool
        cell = ufl.triangle
        self.mesh = ufl.Mesh(LagrangeElement(cell, 1, (2,)))

        def space(shape, deg=1):
            return ufl.FunctionSpace(self.mesh, LagrangeElement(cell, deg, tuple(shape)))

        self.args = {n: ufl.Argument(space(TERMS[n][0]), ARG_NUM[n], ARG_PART.get(n)) for n in ARG_NAMES}
        self.obj = {}
        for n in run.terms:
            s, r, base = TERMS[n]
            if r in ("arg0", "arg1", "arg2"):
                o = self.args[n]
            elif r in ("grad0", "grad1", "grad2"):
                o = ufl.grad(self.args[base])
            elif r == "rval0":
                o = ReferenceValue(self.args[base])
            elif r == "rgrad0":
                o = ReferenceGrad(ReferenceValue(self.args[base]))
            elif r == "coef":
                o = ufl.Coefficient(space(s, 2))
            elif r == "geom":
                o = ufl.SpatialCoordinate(self.mesh)
            elif r == "geoms":
                o = ufl.CellVolume(self.mesh)
            else:
                raise MachineryError(f"unknown role {r}")
            if tuple(o.ufl_shape) != tuple(s):
                raise MachineryError(f"terminal {n}: shape {o.ufl_shape} declared {s}")
            self.obj[n] = o
        self.init = [self.obj[n] for n in run.terms] + [ufl.as_ufl(_pynum(LITS[n])) for n in run.lits] + [ufl.zero(*ZEROS[z]) if ZEROS[z] else ufl.zero() for z in run.zeros]
        self.idx = {n: Index() for n in IDX}
        # "all the form's arguments" of a slice: per number the incarnation / the parts the slice uses
        self.allargs = [tuple(self.args[a] for a in s.formargs) for s in run.subs]
        self.envs = []
        for e in range(pool.nenv):
            env = AEnv()
            for n in run.terms:
                s, r, base = TERMS[n]
                tab = pool.values[e][n]
                if r in ("grad0", "grad1", "grad2"):
                    for j in range(2):
                        env.t[(self.args[base], (j,), False)] = {c[:-1]: v for c, v in tab.items() if c[-1] == j}
                elif r == "rval0":
                    env.t[(self.args[base], (), True)] = tab
                elif r == "rgrad0":
                    for j in range(2):
                        env.t[(self.args[base], (("X", j),), True)] = {c[:-1]: v for c, v in tab.items() if c[-1] == j}
                else:
                    env.t[(self.obj[n], (), False)] = tab
            self.envs.append(env)
        self.cache = {}

    def mi(self, mi):
        return tuple(slice(None) if m == -1 else int(m) if m < 10 else self.idx[m] for m in mi)


def _pynum(v):
    v = Cx.of(v)
    if v.im != 0:
        return complex(v)
    if v.re.denominator == 1:
        return int(v.re)
    return float(v.re)


def apply_op(w, op, args, mi):
    """One constructor call of the specification through ufl's public API."""
    from ufl.classes import IndexSum, MultiIndex

    ufl = w.ufl
    a = args[0]
    b = args[1] if len(args) > 1 else None
    if op == "add":
        return a + b
    if op == "sub":
        return a - b
    if op == "neg":
        return -a
    if op == "mul":
        return a * b
    if op == "div":
        return a / b
    if op == "pow":
        return a**b
    if op == "abs":
        return abs(a)
    if op in ("conj", "real", "imag", "sqrt", "sign"):
        return getattr(ufl, op)(a)
    if op == "index":
        return a[w.mi(mi)]
    if op == "isum":
        return IndexSum(a, MultiIndex((w.idx[mi[0]],)))
    if op == "as_tensor":
        return ufl.as_tensor(a, tuple(w.idx[m] for m in mi))
    if op == "list":
        return ufl.as_tensor(list(args))
    if op in ("dot", "inner", "outer", "lt", "gt", "le", "ge", "eq", "ne"):
        return getattr(ufl, op)(a, b)
    if op == "cond":
        return ufl.conditional(args[0], args[1], args[2])
    if op == "restrict":
        return a("+")
    if op == "variable":
        return ufl.variable(a)
    raise MachineryError(f"replay: unknown op {op}")


def build(w, prog):
    """The real object of the program's last node, or ('raise', exc) of the first refused step."""
    objs = list(w.init)
    key = ()
    for node in prog:
        key = key + ((node["op"], tuple(node["args"]), tuple(node["mi"])),)
        hit = w.cache.get(key)
        if hit is None:
            try:
                hit = ("ok", apply_op(w, node["op"], [objs[i - 1] for i in node["args"]], node["mi"]))
            except MachineryError:
                raise
            except Exception as exc:  # noqa: BLE001
                hit = ("raise", exc)
            if len(w.cache) < 300000:
                w.cache[key] = hit
        if hit[0] == "raise":
            return hit
        objs.append(hit[1])
    return ("ok", objs[-1])


def pipeline(expr, cm):
    """What compute_form_data does to an integrand before the arity check (preprocess_form + the
    second remove_complex_nodes); returns the expression handed to check_integrand_arity."""
    from ufl.algorithms.apply_algebra_lowering import apply_algebra_lowering
    from ufl.algorithms.apply_derivatives import apply_coordinate_derivatives, apply_derivatives
    from ufl.algorithms.comparison_checker import do_comparison_check
    from ufl.algorithms.remove_complex_nodes import remove_complex_nodes

    e = expr
    if cm:
        e = do_comparison_check(e)
    e = apply_algebra_lowering(e)
    if not cm:
        e = remove_complex_nodes(e)
    e = apply_derivatives(e)
    e = apply_coordinate_derivatives(e)
    if not cm:
        e = remove_complex_nodes(e)
    return e


def real_verdict(e, arguments, cm):
    from ufl.algorithms.check_arities import ArityMismatch, check_integrand_arity

    try:
        check_integrand_arity(e, arguments, cm)
        return "accept", ""
    except ArityMismatch as ex:
        return "reject", str(ex)[:120]


def _part(a):
    return -1 if a.part() is None else int(a.part())


def _fa(arguments):
    """Form arguments as the specification names them: [number, part] pairs."""
    return [[a.number(), _part(a)] for a in arguments]


def _nums(fa):
    """The argument numbers of form arguments (all parts of a number are one argument)."""
    return sorted({n for n, _ in fa})


def _fa_compat(fa):
    """Replay documents written before parts existed list bare numbers."""
    return [[x, -1] if isinstance(x, int) else list(x) for x in fa]


def abstract(e):
    """The DAG as the ArityChecker's dispatch sees it."""
    from ufl.classes import Argument, Zero
    from ufl.corealg.traversal import unique_post_traversal

    nodes, pos = [], {}
    for o in unique_post_traversal(e):
        chain = []
        for c in type(o).mro():
            h = getattr(c, "_ufl_handler_name_", None)
            if h is not None and (not chain or chain[-1] != h):
                chain.append(h)
        isarg = isinstance(o, Argument)
        nodes.append({"h": chain, "n": o.number() if isarg else -1, "p": _part(o) if isarg else -1, "z": 1 if isinstance(o, Zero) else 0, "a": [pos[x] for x in o.ufl_operands]})
        pos[o] = len(nodes)  # keyed by structural equality, as the traversal itself
    return nodes


_EVAL = None


def _evaluator():
    """vf.sem.Evaluator with the range guard of CQ.tla on exponents (z ** k for |k| <= 6 only: the
    exact power is computed by repeated multiplication)."""
    global _EVAL
    if _EVAL is None:
        from ..sem import Evaluator

        class AEval(Evaluator):
            def n_Power(self, o, c, b, ctx):
                y = self.ev(o.ufl_operands[1], (), b, ctx)
                if y.exact and y.im == 0 and Fraction(y.re).denominator == 1 and abs(y.re) > 6:
                    raise Undefined("exponent beyond the exact range")
                return Evaluator.n_Power(self, o, c, b, ctx)

        _EVAL = AEval
    return _EVAL


def evaluate(w, e):
    """Exact value of the scalar expression in every environment; None where undefined/inexact."""
    ev = _evaluator()
    out = []
    for env in w.envs:
        try:
            v = ev(env).scalar(e)
            out.append(v if v.exact else None)
        except (Undefined, ZeroDivisionError, OverflowError):
            out.append(None)
    return out


# ---- the semantic classes on real values (the oracle of the property) ----------------------------


def eq3(p, q):
    if p is None or q is None:
        return "undef"
    return "ok" if p == q else "fail"


def _mul(a, b):
    return None if a is None or b is None else a * b


def _add(a, b):
    return None if a is None or b is None else a + b


def _sub(a, b):
    return None if a is None or b is None else a - b


def lin_class(vals, lay, n):
    """('yes'|'no'|'unknown', '-'|'affine'|'nonlinear'|'unknown') of a scalar in argument n:
    t(0)=0, t(2v)=2t(v), t(-v)=-t(v), t(v+w)=t(v)+t(w), t(iv)=(-)i t(v) in every group; the kind of
    a 'no' comes from the same tests applied to t - t(0)."""
    im = Cx(0, -1) if n == 0 else Cx(0, 1)
    lin, aff = set(), set()
    for g in range(lay.ngroups):
        b = vals[lay.base(g)]
        z, t2, ng, w, sm = (vals[lay.var(g, n, t)] for t in range(5))
        lin |= {eq3(z, Cx(0)), eq3(t2, _mul(b, Cx(2))), eq3(ng, _mul(b, Cx(-1))), eq3(sm, _add(b, w))}
        d = lambda x: _sub(x, z)  # noqa: E731
        aff |= {eq3(d(t2), _mul(d(b), Cx(2))), eq3(d(ng), _mul(d(b), Cx(-1))), eq3(d(sm), _add(d(b), d(w)))}
        if lay.cm:
            iv = vals[lay.var(g, n, 5)]
            lin.add(eq3(iv, _mul(b, im)))
            aff.add(eq3(d(iv), _mul(d(b), im)))
    cls = "no" if "fail" in lin else "unknown" if "undef" in lin else "yes"
    kind = "-" if cls != "no" else "nonlinear" if "fail" in aff else "unknown" if "undef" in aff else "affine"
    return cls, kind


# ---- one term ----------------------------------------------------------------------------------

SOUND_HANDLERS = {"sum", "product", "division", "indexed", "index_sum", "component_tensor"}


def culprit(e):
    """Structural class of an accepted non-multilinear integrand (for the fingerprint)."""
    from ufl.algorithms.analysis import extract_arguments
    from ufl.classes import ListTensor, Zero
    from ufl.corealg.traversal import unique_pre_traversal

    names = set()
    for o in unique_pre_traversal(e):
        if isinstance(o, ListTensor):
            has = [bool(extract_arguments(c)) for c in o.ufl_operands]
            if any(has) and any((not h) and not isinstance(c, Zero) for h, c in zip(has, o.ufl_operands)):
                return "list_tensor-constant-component"
        if not o._ufl_is_terminal_:
            names.add(o._ufl_handler_name_)
    names -= SOUND_HANDLERS
    return "+".join(sorted(names)) or "algebra"


def process(w, rec, want_cfd=0):
    """Everything observed about one dumped term.  Returns a dict (JSON-able)."""
    from ufl.algorithms.analysis import extract_arguments
    from ufl.algorithms.comparison_checker import ComplexComparisonError

    cm = w.run.cm
    out = {"prog": rec["prog"], "sl": rec["sl"], "status": "ok"}
    st, obj = build(w, rec["prog"])
    if st == "raise":
        out["status"] = "build-refused:" + type(obj).__name__
        return out
    if obj.ufl_shape != () or obj.ufl_free_indices != ():
        out["status"] = "not-scalar"
        return out
    out["str"] = str(obj)[:160]
    try:
        e = pipeline(obj, cm)
    except ComplexComparisonError:
        out["status"] = "pipeline-refused:ComplexComparisonError"
        return out
    except ValueError as ex:
        out["status"] = "pipeline-refused:ValueError:" + str(ex)[:40]
        return out
    own = tuple(extract_arguments(obj))
    allargs = w.allargs[rec["sl"] - 1]
    out["m"] = _fa(own)
    fas = [own] + ([allargs] if len(own) != len(allargs) and all(a in allargs for a in own) else [])
    out["real"] = []
    for fa in fas:
        v, msg = real_verdict(e, fa, cm)
        out["real"].append({"fa": _fa(sorted(fa, key=lambda a: (a.number(), _part(a)))), "v": v, "msg": msg})
    out["nodes"] = abstract(e)
    try:
        vals = evaluate(w, e)
    except Exception as ex:  # noqa: BLE001 - evaluator limitation: never a verdict
        out["status"] = "eval-unsupported:" + type(ex).__name__ + ":" + str(ex)[:60]
        return out
    out["sem"] = [list(lin_class(vals, w.pool.lay, n)) for n in range(w.run.nargs)]
    out["zero"] = all(v is not None and v.is_zero() for v in vals)
    out["culprit"] = culprit(e)
    out["root"] = e._ufl_handler_name_
    out["lowered"] = str(e)[:200]
    if want_cfd:
        out["cfd"] = cfd_verdict(w, obj, rec["prog"], cm, want_cfd == 2)
    return out


def cfd_verdict(w, obj, prog, cm, pullbacks):
    """compute_form_data on the one-integral form: accept / reject / other:<error>."""
    from ufl.algorithms import compute_form_data
    from ufl.algorithms.check_arities import ArityMismatch
    from ufl.classes import Zero

    if isinstance(obj, Zero):
        return "zero-integrand"
    ufl = w.ufl
    restricted = any(n["op"] == "restrict" for n in prog)
    dm = ufl.Measure("dS" if restricted else "dx", domain=w.mesh)
    try:
        form = obj * dm
        compute_form_data(form, do_apply_function_pullbacks=pullbacks, complex_mode=cm)
        return "accept"
    except ArityMismatch:
        return "reject"
    except BaseException as ex:  # noqa: BLE001 - ComplexComparisonError derives from BaseException
        if isinstance(ex, (KeyboardInterrupt, SystemExit)):
            raise
        return "other:" + type(ex).__name__


def _mutant_sum_union():
    """selftest: `sum` unions the arities of its operands instead of demanding equality."""
    from ufl.algorithms import check_arities
    from ufl.corealg.multifunction import MultiFunction

    def bad_sum(self, o, a, b):
        return tuple(sorted(set(a + b), key=lambda x: (x[0].number(), x[0].part())))

    check_arities.ArityChecker.sum = bad_sum
    MultiFunction._handlers_cache.pop(check_arities.ArityChecker, None)


MUTANTS = {"sum-union": _mutant_sum_union}


def work(job):
    """Worker: replay a chunk of records of one run.  job = (run json, pool json, records, cfd
    stride, mutant)."""
    import warnings

    warnings.simplefilter("ignore")  # ufl warns when float() of a symbolic exponent is attempted
    rj, pj, recs, stride, mutant = job
    if mutant:
        MUTANTS[mutant]()
    run = Run.from_json(rj)
    w = World(run, ExpPool.from_json(run, pj))
    out = []
    for rec in recs:
        want = 0
        if stride and rec["_i"] % stride == 0:
            want = 2 if (rec["_i"] // stride) % 2 else 1
        r = _guarded(process, w, rec, want)
        r["_i"] = rec["_i"]
        out.append(r)
    return out


class _Timeout(BaseException):  # not an Exception: ufl's own `except Exception` must not swallow it
    pass


def _guarded(fn, w, rec, want, limit=20):
    """fn under a wall-clock limit: a hang is reported as a skipped term, never as a verdict."""
    import signal

    def on_alarm(signum, frame):
        raise _Timeout()

    old = signal.signal(signal.SIGALRM, on_alarm)
    signal.alarm(limit)
    try:
        return fn(w, rec, want)
    except _Timeout:
        return {"prog": rec["prog"], "sl": rec["sl"], "status": "timeout"}
    finally:
        signal.alarm(0)
        signal.signal(signal.SIGALRM, old)


# ------------------------------------------------------------------------------------------------
# Judging
# ------------------------------------------------------------------------------------------------


class Collector:
    """Verdict sink: ctx in a normal run, a recorder in --selftest."""

    def __init__(self, ctx=None):
        self.ctx = ctx
        self.violations = []
        self.binding = []
        self.sembinding = []
        self.cfdmismatch = []
        self.counts = {}
        self.per_fp = {}

    def count(self, k, n=1):
        self.counts[k] = self.counts.get(k, 0) + n
        if self.ctx:
            self.ctx.count(k, n)

    def violation(self, fp, what, replay):
        self.violations.append((fp, what))
        self.per_fp[fp] = self.per_fp.get(fp, 0) + 1
        if self.ctx and self.per_fp[fp] <= 2:  # at most two witnesses per structural class
            self.ctx.violation(fp, what, replay)


class TermTable:
    """The distinct (DAG, form arguments, mode) triples handed to the real checker."""

    def __init__(self):
        self.terms, self.seen = [], {}

    def add(self, results, cm):
        for r in results:
            if r["status"] != "ok":
                continue
            r["tids"] = []
            for rv in r["real"]:
                key = json.dumps([r["nodes"], rv["fa"], cm])
                tid = self.seen.get(key)
                if tid is None:
                    tid = len(self.terms) + 1
                    self.seen[key] = tid
                    self.terms.append({"id": tid, "nodes": r["nodes"], "fa": rv["fa"], "cm": cm})
                r["tids"].append(tid)


def trace_verdicts(terms):
    """ArityTrace.tla on the abstracted real DAGs: {id: (as coded, intended)}."""
    if not terms:
        return {}, None
    cfg = "SPECIFICATION Spec\n"
    res = tlc.run("ArityTrace", cfg, workers=1, timeout=1500, extra_files={"terms.json": json.dumps(terms)}, env={"JAVA_TOOL_OPTIONS": JAVA})
    if res.outcome != "ok":
        tail = "\n".join(res.stdout.splitlines()[-30:])
        raise MachineryError(f"ArityTrace: {res.outcome}\n{tail}")
    table = tlc.decode_prints(res)
    if not table:
        raise MachineryError("ArityTrace printed no table")
    return {row["id"]: (row["c"], row["i"]) for row in table[0]}, res


def judge(col, run, pool, recs, results, tv=None, ctx=None):
    """Apply the property and the two bindings to the replayed terms of one run.
    tv: verdicts of ArityTrace.tla by term id (computed here when not given)."""
    if tv is None:
        tt = TermTable()
        tt.add(results, run.cm)
        tv, tres = trace_verdicts(tt.terms)
        if ctx is not None and tres is not None:
            ctx.add_tlc(tres)
    follows = {"as_coded": 0, "intended": 0}
    mode = " complex" if run.cm else ""
    rjson, pjson = run.to_json(), pool.to_json()
    for rec, r in zip(recs, results):
        sname = run.subs[rec["sl"] - 1].name
        col.count("terms_replayed")
        if r["status"] != "ok":
            col.count("skipped:" + r["status"].split(":")[0])
            continue
        rdoc = {"run": rjson, "pool": pjson, "sl": rec["sl"], "prog": r["prog"]}
        prog_txt = f"[{sname}{mode}] {r['str']}"
        for rv, tid in zip(r["real"], r["tids"]):
            fa = rv["fa"]
            acc = rv["v"] == "accept"
            classes = [r["sem"][n] for n in _nums(fa)]
            # (ii) THE PROPERTY, on real objects only: linear in every argument NUMBER of the form
            bad = [(n, c) for n, c in zip(_nums(fa), classes) if c[0] == "no"]
            if acc and bad:
                kind = "affine" if all(c[1] == "affine" for _, c in bad) else "nonlinear"
                fp = f"C14:accepts-{kind}:{r['culprit']}" + _fp_class(fa, [n for n, _ in bad])
                col.count("violating_terms:" + fp)
                col.violation(fp, f"{prog_txt} (lowered: {r['lowered']}) is accepted with form arguments {_fa_txt(fa)}{' in complex mode' if run.cm else ''} but is {kind} in argument(s) {[n for n, _ in bad]}", dict(rdoc, fa=fa))
            elif acc and any(c[0] == "unknown" for c in classes):
                col.count("accepted_semantics_undefined")
            elif acc:
                col.count("accepted_multilinear")
            elif bad:
                col.count("rejected_nonlinear")
            elif all(c[0] == "yes" for c in classes) and not r["zero"]:
                col.count("incomplete:" + r["root"])  # multilinear but rejected: not a violation
            else:
                col.count("rejected_other")
            # (i) binding of the checker model
            mc, mi = tv[tid]
            if acc == mc:
                follows["as_coded"] += 1
                if mc != mi:
                    col.count("terms_where_rules_differ")
            elif acc == mi:
                follows["intended"] += 1
                col.count("terms_where_rules_differ")
            else:
                col.binding.append(f"{prog_txt} fa={fa}: real {rv['v']} ({rv['msg']}) but ArityRules on the same DAG says as_coded={mc} intended={mi}")
        # binding of the meaning: model classes vs classes of the real object
        for n, (mcl, rcl) in enumerate(zip(rec["sem"], r["sem"])):
            if "unknown" in (mcl["cls"], rcl[0]):
                col.count("semantic_class_undefined_on_one_side")
                continue
            if mcl["cls"] != rcl[0] or (mcl["kind"] != rcl[1] and "unknown" not in (mcl["kind"], rcl[1])):
                col.sembinding.append(f"{prog_txt} argument {n}: model {mcl['cls']}/{mcl['kind']} real {rcl[0]}/{rcl[1]}")
        # the model's verdict on ITS term vs the real verdict (differences = ufl simplified the term)
        if (r["real"][0]["v"] == "accept") != rec["acc"]["c"]:
            col.count("model_term_verdict_differs(ufl_simplified_the_term)")
        # compute_form_data agrees with the direct call
        cfd = r.get("cfd")
        if cfd:
            if cfd in ("accept", "reject"):
                col.count("compute_form_data_compared")
                if cfd != r["real"][0]["v"]:
                    col.cfdmismatch.append(f"{prog_txt}: compute_form_data {cfd}, direct {r['real'][0]['v']}")
            else:
                col.count("compute_form_data_" + cfd.split(":")[0])
    return follows


# ------------------------------------------------------------------------------------------------
# Driver
# ------------------------------------------------------------------------------------------------

INVS = ["WellFormed", "Sound", "RejectsNonlinear", "DumpInv"]


def records_of(res):
    recs, seen = [], set()
    for rec in tlc.decode_prints(res):
        key = (rec["sl"], json.dumps(rec["prog"]))
        if key in seen:
            continue
        seen.add(key)
        recs.append(rec)
    # TLC workers print in no particular order: a canonical order makes witnesses reproducible
    recs.sort(key=lambda r: (r["sl"], len(r["prog"]), json.dumps(r["prog"])))
    for k, rec in enumerate(recs):
        rec["_i"] = k
    return recs


def replay_records(run, pool, recs, executor, stride, mutant=None):
    rj, pj = run.to_json(), pool.to_json()
    if executor is None:
        return work((rj, pj, recs, stride, mutant))
    n = max(1, min(PY_WORKERS * 2, len(recs) // 300 + 1))
    chunks = [recs[k::n] for k in range(n)]
    futs = [executor.submit(work, (rj, pj, ch, stride, mutant)) for ch in chunks]
    out = {}
    for f in futs:
        for r in f.result():
            out[r["_i"]] = r
    return [out[k] for k in range(len(recs))]


def counterexample(res, run):
    """(slice index, program) of the last state of a TLC counterexample."""
    blocks = re.split(r"^State \d+: <[^\n]*>$", res.stdout, flags=re.M)
    if len(blocks) < 2:
        raise MachineryError("TLC reported an invariant violation without a trace")
    st = tlc.parse_state(blocks[-1].split("\n\n")[0].strip())
    ninit = len(run.init_names)
    return st["sl"], [{"op": n["op"], "args": list(n["args"]), "mi": list(n["mi"])} for n in st["store"][ninit:]]


def run(ctx, args):
    if args.selftest:
        return selftest(ctx)
    from concurrent.futures import ProcessPoolExecutor, ThreadPoolExecutor

    ctx.rule = (
        "TLC enumerates (exhaustively per slice; random behaviours for the deep slices) every integrand buildable "
        "from the slice's pool {test function, trial function (scalar or vector, also under grad / reference value), "
        "third argument of a trilinear form, parts 0 and 1 of the test / trial function of a block system, "
        "coefficients, geometry, literals 1 2 1.5 i, zero} with its operator alphabet up to the node bound, with "
        "the model checker's verdict (both list-tensor rules) and the semantic class per argument; every distinct "
        "program that is a scalar integrand is replayed through the public API + the real pipeline + "
        "check_integrand_arity (own arguments, and all arguments of the slice), evaluated exactly in the "
        "experiment environments, and its real DAG is re-judged by the model; non-trivial = mentions an argument"
    )
    ctx.assume("linear in argument n is decided on samples: 2 groups of generic distinct exact values per run, each with the variations 0, 2v, -v, w, v+w (iv in complex mode) of one argument at a time; a term is only called affine/nonlinear when an identity definitely fails on exact values")
    ctx.assume("the exact evaluator vf/sem.py reads the meaning of the real lowered expression; its classes are compared with the classes TLC derives from the specification's own value semantics on every term")
    ctx.assume("values undefined in a sample (division by zero, irrational roots, order comparison of complex numbers, numerators beyond CQ's range) make the class 'unknown'; such terms are counted, not judged")
    ctx.assume("arguments and coefficients live in continuous Lagrange spaces on an affine triangle mesh; restrictions do not change values")
    ctx.assume("an argument number split into parts is ONE form argument (the tuple of its parts, varied together); all Arguments of one number carry a part or none does; integrands are also judged against their own arguments only (a form whose other integrals would supply the rest)")
    sls = slices(ctx.tier)
    only = os.environ.get("VERIF_SLICES")
    if only:
        sls = [s for s in sls if s.name in only.split(",")]
    runs = runs_of(sls)
    col = Collector(ctx)
    stride = 6 if ctx.tier == "quick" else 10
    pools = {r.name: ExpPool(r, ctx.seed) for r in runs}
    t0 = time.time()
    total_follow = {"as_coded": 0, "intended": 0}
    done = []
    tt = TermTable()
    per = max(1, TLC_WORKERS // TLC_JOBS)
    with ProcessPoolExecutor(PY_WORKERS) as ex, ThreadPoolExecutor(TLC_JOBS) as tlcq:
        # TLC_JOBS TLC processes at a time; finished runs are replayed in the process pool meanwhile
        order = sorted(runs, key=lambda r: bool(r.simulate))  # exhaustive runs first
        futs = [(r, tlcq.submit(run_tlc, r, pools[r.name], "intended", INVS, ctx.seed, per)) for r in order]
        cex_f = tlcq.submit(as_coded_counterexample, ctx)
        for rn, fut in futs:
            pool = pools[rn.name]
            res = fut.result()
            ctx.add_tlc(res)
            if res.outcome == "invariant" and res.violated in ("Sound", "RejectsNonlinear"):
                handle_intended_failure(ctx, col, rn, pool, res)
                continue
            if res.outcome != "ok":
                tail = "\n".join(res.stdout.splitlines()[-30:])
                raise MachineryError(f"TLC run {rn.name}: {res.outcome} {res.violated}\n{tail}")
            recs = records_of(res)
            if not recs:
                raise MachineryError(f"run {rn.name}: TLC produced no integrands")
            results = replay_records(rn, pool, recs, ex, stride)
            tt.add(results, rn.cm)
            done.append((rn, pool, res, recs, results))
            print(f"  run {rn.name}: {res.distinct} states ({res.mode}, {res.wall:.0f}s), {len(recs)} integrands replayed, t={time.time() - t0:.0f}s", flush=True)
        cex = cex_f.result()
    # spec <- code: the handlers of ArityRules.tla on every DAG the real checker saw (one TLC run)
    tv, tres = trace_verdicts(tt.terms)
    if tres is not None:
        ctx.add_tlc(tres)
        ctx.cov["dags_judged_by_ArityTrace"] = len(tt.terms)
    print(f"  ArityTrace: {len(tt.terms)} distinct DAGs, t={time.time() - t0:.0f}s", flush=True)
    for rn, pool, res, recs, results in done:
        follows = judge(col, rn, pool, recs, results, tv)
        for k in follows:
            total_follow[k] += follows[k]
        per_sub = {}
        for rec, r in zip(recs, results):
            ctx.traces(1)
            st = per_sub.setdefault(rn.subs[rec["sl"] - 1].name, {"integrands": 0, "mention_arguments": 0, "accepted": 0})
            st["integrands"] += 1
            if r["status"] == "ok":
                ctx.evaluated(pool.nenv + 2 * len(r["real"]) + rn.nargs)
                st["accepted"] += r["real"][0]["v"] == "accept"
                if r["m"]:
                    st["mention_arguments"] += 1
                    ctx.distinct(f"{rn.name}|{rec['sl']}|" + json.dumps(r["prog"]))
                if len(ctx.cov["samples"]) < 5 and r["m"] and len(r["prog"]) >= 2 and (len(ctx.cov["samples"]) % 2 == 0) == (r["real"][0]["v"] == "accept"):
                    ctx.sample({"slice": rn.subs[rec["sl"] - 1].name, "complex_mode": rn.cm, "integrand": r["str"], "real_verdict": r["real"][0]["v"], "model_as_coded": rec["acc"]["c"], "model_intended": rec["acc"]["i"], "semantic_class_per_argument": r["sem"]})
        for s in rn.subs:
            if s.name not in per_sub:
                raise MachineryError(f"slice {s.name} produced no integrand (vacuous)")
        ctx.cov.setdefault("runs", []).append({"run": rn.name, "complex_mode": rn.cm, "mode": res.mode, "tlc_states": res.distinct, "slices": per_sub})
    report_counterexample(ctx, col, cex)
    ctx.cov["real_checker_follows"] = total_follow
    # ---- machinery verdicts (after the violations have been reported) ----
    if ctx.n_viol:
        # the real checker broke the property: that it no longer follows the model of the checker is a consequence,
        # not a failure of the machinery
        ctx.count("binding_failures_alongside_violations", len(col.binding) + len(col.sembinding) + len(col.cfdmismatch))
        return
    if col.binding:
        raise MachineryError(f"{len(col.binding)} real verdicts are explained by neither list-tensor rule of ArityRules.tla, e.g.\n  " + "\n  ".join(col.binding[:5]))
    if col.sembinding:
        raise MachineryError(f"{len(col.sembinding)} semantic classes differ between TLC and the real objects, e.g.\n  " + "\n  ".join(col.sembinding[:5]))
    if col.cfdmismatch:
        raise MachineryError(f"compute_form_data and the direct pipeline disagree on {len(col.cfdmismatch)} terms, e.g.\n  " + "\n  ".join(col.cfdmismatch[:5]))
    n = col.counts.get("terms_replayed", 0)
    need = 3000 if ctx.tier == "quick" else 50000
    if not only and n < need:
        raise MachineryError(f"only {n} terms replayed (< {need})")
    if not only and col.counts.get("compute_form_data_compared", 0) < 50:
        raise MachineryError("compute_form_data was compared on fewer than 50 terms")
    for k in ("accepted_multilinear", "rejected_nonlinear"):
        if not only and not col.counts.get(k):
            raise MachineryError(f"vacuous: no term counted as {k}")
    und = col.counts.get("accepted_semantics_undefined", 0)
    if und > 0.1 * max(1, col.counts.get("accepted_multilinear", 0)):
        raise MachineryError(f"{und} accepted terms have undefined sample values: environments are not generic enough")


# ---- the expected failure of the rule as coded ----------------------------------------------------

CEX_RUN = Run("cex-r", False, [Slice("cex-list-r", ["v", "f", "c", "one"], {"list", "dot", "mul"}, 2, False)])


def as_coded_counterexample(ctx):
    """TLC alone, ListTensorRule = "as_coded": Sound must fail; returns (run, pool, result)."""
    pool = ExpPool(CEX_RUN, ctx.seed)
    res = run_tlc(CEX_RUN, pool, "as_coded", ["Sound"], ctx.seed, 1)
    return CEX_RUN, pool, res


def _bad_args(r, rv):
    return [n for n in _nums(rv["fa"]) if r["sem"][n][0] == "no"]


def _fp_class(fa, bad):
    """Suffix of a fingerprint: the class of form arguments the failure needs (nothing for the test /
    trial function of a bilinear form without parts)."""
    out = ""
    if any(n >= 2 for n in bad):
        out += ":argument-number>=2"
    if any(p >= 0 and n in bad for n, p in fa):
        out += ":argument-parts"
    return out


def _fa_txt(fa):
    return [n if p < 0 else f"{n}.{p}" for n, p in fa]


def report_counterexample(ctx, col, cex):
    rn, pool, res = cex
    ctx.add_tlc(res)
    if res.outcome != "invariant" or res.violated != "Sound":
        tail = "\n".join(res.stdout.splitlines()[-20:])
        raise MachineryError(f'Sound was expected to fail with ListTensorRule = "as_coded" but TLC says {res.outcome} {res.violated}\n{tail}')
    sl, prog = counterexample(res, rn)
    r = process(World(rn, pool), {"prog": prog, "sl": sl})
    if r["status"] != "ok":
        raise MachineryError(f"counterexample {prog} could not be replayed: {r['status']}")
    rv = r["real"][0]
    bad = _bad_args(r, rv)
    ctx.cov["tlc_counterexample_as_coded"] = {"program": prog, "integrand": r["str"], "real_verdict": rv["v"], "semantic_class": r["sem"]}
    print(f"  TLC counterexample to Sound (list tensor rule as coded): {r['str']} -> real checker: {rv['v']}, semantic classes {r['sem']}", flush=True)
    ctx.traces(1)
    if rv["v"] == "accept" and bad:
        kind = "affine" if all(r["sem"][n][1] == "affine" for n in bad) else "nonlinear"
        col.violation(f"C14:accepts-{kind}:{r['culprit']}" + _fp_class(rv["fa"], bad), f"[TLC counterexample] {r['str']} is accepted but {kind} in argument(s) {bad}", {"run": rn.to_json(), "pool": pool.to_json(), "sl": sl, "prog": prog, "fa": rv["fa"]})
    elif rv["v"] == "reject":
        col.count("as_coded_counterexample_rejected_by_real_code(code_follows_intended_rule)")
    else:
        raise MachineryError(f"counterexample {r['str']}: real {rv['v']} but the real object is {r['sem']}")


def handle_intended_failure(ctx, col, rn, pool, res):
    """Sound / RejectsNonlinear failed for the INTENDED rule: either another handler is unsound
    (then the real checker accepts a term the real evaluation shows non-multilinear: a violation)
    or the specification is wrong (MachineryError)."""
    sl, prog = counterexample(res, rn)
    r = process(World(rn, pool), {"prog": prog, "sl": sl})
    if r["status"] == "ok":
        for rv in r["real"]:
            bad = _bad_args(r, rv)
            if rv["v"] == "accept" and bad:
                kind = "affine" if all(r["sem"][n][1] == "affine" for n in bad) else "nonlinear"
                col.violation(f"C14:accepts-{kind}:{r['culprit']}" + _fp_class(rv["fa"], bad), f"[TLC counterexample, intended rule] {r['str']} accepted but {kind} in {bad}", {"run": rn.to_json(), "pool": pool.to_json(), "sl": sl, "prog": prog, "fa": rv["fa"]})
                return
    tail = "\n".join(res.stdout.splitlines()[-30:])
    raise MachineryError(f"run {rn.name}: {res.violated} fails for the intended rule on {prog} and the real code does not reproduce it ({r.get('status')}, {r.get('real')}, {r.get('sem')})\n{tail}")


# ------------------------------------------------------------------------------------------------
# Replay of a recorded violation
# ------------------------------------------------------------------------------------------------


def replay(ctx, doc):
    r = doc["replay"]
    rn = Run.from_json(r["run"])
    pool = ExpPool.from_json(rn, r["pool"])
    res = process(World(rn, pool), {"prog": r["prog"], "sl": r["sl"]})
    print(f"replay C14: [{rn.subs[r['sl'] - 1].name}{' complex' if rn.cm else ''}] {res.get('str')}  status={res['status']}")
    if res["status"] != "ok":
        return
    print(f"  handed to the checker: {res['lowered']}")
    for rv in res["real"]:
        classes = {n: res["sem"][n] for n in _nums(rv["fa"])}
        print(f"  form arguments {_fa_txt(rv['fa'])}: check_integrand_arity -> {rv['v']} {rv['msg']}; semantic class per argument {classes}")
        if rv["v"] == "accept" and _bad_args(res, rv) and rv["fa"] == _fa_compat(r.get("fa", rv["fa"])):
            ctx.violation(doc["fingerprint"], doc["what"], r)


# ------------------------------------------------------------------------------------------------
# Self-test: the comparisons must reject a broken checker and corrupted predictions
# ------------------------------------------------------------------------------------------------


def selftest(ctx):
    import copy
    from concurrent.futures import ProcessPoolExecutor

    rn = Run("selftest-r", False, [Slice("selftest-r", ["v", "u", "f", "c", "one"], {"list", "dot", "mul", "add"}, 2, False)])
    pool = ExpPool(rn, ctx.seed)
    res = run_tlc(rn, pool, "intended", INVS, ctx.seed, 2)
    ctx.add_tlc(res)
    tlc.require_ok(res, "selftest slice")
    recs = records_of(res)
    outcomes = {}

    # 0. baseline: only the known list-tensor defect (or nothing, if the code has been repaired)
    col = Collector()
    results = replay_records(rn, pool, recs, None, 0)
    judge(col, rn, pool, recs, results)
    fps = {fp for fp, _ in col.violations}
    outcomes["baseline has no binding failure"] = not col.binding and not col.sembinding
    outcomes["baseline violations are list-tensor only"] = fps <= {"C14:accepts-affine:list_tensor-constant-component"}

    # 1. corrupted semantic verdict of the model
    recs2 = copy.deepcopy(recs)
    k = next(i for i, (rc, r) in enumerate(zip(recs2, results)) if r["status"] == "ok" and rc["sem"][0]["cls"] == "yes" and r["m"])
    recs2[k]["sem"][0]["cls"] = "no"
    recs2[k]["sem"][0]["kind"] = "affine"
    col = Collector()
    judge(col, rn, pool, recs2, results)
    outcomes["corrupted semantic class is rejected"] = len(col.sembinding) == 1

    # 2. corrupted observation of the real verdict
    res2 = copy.deepcopy(results)
    k = next(i for i, r in enumerate(res2) if r["status"] == "ok" and r["real"][0]["v"] == "reject" and r["m"])
    res2[k]["real"][0]["v"] = "accept"
    col = Collector()
    judge(col, rn, pool, recs, res2)
    outcomes["corrupted real verdict is rejected by the model binding"] = len(col.binding) == 1

    # 3. corrupted DAG handed to the model (sum nodes relabelled as products)
    res3 = copy.deepcopy(results)
    hit = 0
    for r in res3:
        if r["status"] == "ok" and r["real"][0]["v"] == "reject":
            for nd in r["nodes"]:
                if nd["h"][0] == "sum":
                    nd["h"] = ["product", "operator", "expr"]
                    hit += 1
    col = Collector()
    judge(col, rn, pool, recs, res3)
    outcomes["corrupted DAG changes the model verdict"] = hit > 0 and len(col.binding) > 0

    # 4. mutant of the real checker: sum unions arities (v + f accepted)
    with ProcessPoolExecutor(1) as ex:  # the mutant lives and dies in a child process
        results4 = replay_records(rn, pool, recs, ex, 0, mutant="sum-union")
    col = Collector()
    judge(col, rn, pool, recs, results4)
    fps4 = {fp for fp, _ in col.violations}
    outcomes["mutant sum-union: property violation reported"] = any(fp.startswith("C14:accepts-") and "list_tensor" not in fp for fp in fps4)
    outcomes["mutant sum-union: model binding rejects it"] = len(col.binding) > 0

    bad = [k for k, v in outcomes.items() if not v]
    for k, v in outcomes.items():
        print(("selftest ok:   " if v else "selftest FAIL: ") + k, flush=True)
    ctx.rule = "selftest: corrupted model classes, corrupted observations, corrupted DAGs and a mutant of ArityChecker.sum must all be rejected"
    ctx.traces(len(recs))
    ctx.sample({"selftest": outcomes})
    if bad:
        raise MachineryError("selftest failed: " + "; ".join(bad))
    print("SELFTEST-OK", flush=True)


def main(argv=None):
    main_wrapper("C14", run, argv)
