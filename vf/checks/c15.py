"""C15 — integral grouping preserves what is integrated on each subdomain.

spec/Grouping.tla has two halves: the ALGORITHM (one action per step of Form.__init__'s ordering,
group_form_integrals and build_integral_data) and the MEANING (`Total`: what the original
integrals put on a subdomain).  TLC proves over every form of the bounded universes that after
every step the lists still carry exactly `Total`, that metadata are never mixed, and that the
result has the promised shape -- on the INTENDED metadata canonicaliser (injective).  With the
AS-CODED constant (two array-valued quadrature rules share a canonical key) TLC produces the
merge counterexample.

Binding to the real code:

(b) every finished TLC run is printed (form, option, predicted IntegralData list, Total table);
    every such line is replayed on real ufl: the form is built from real Coefficients / Measures /
    Integrals, `group_form_integrals` + `build_integral_data` are called, the result is projected
    back to (domain, type, id tuple, metadata, coordinate derivative, bag of atoms) and must equal
    the predicted list (in order) and the Total table.
(c) metadata injectivity: the same replay on a three-metadata universe, with ids 2 and 3 bound to
    pairs of real metadata dicts.  Pairs that differ must behave like the injective model, pairs
    that are equal like the colliding model (`Colliding = {2, 3}` is then the intended meaning).
    A differing pair that behaves exactly like the colliding model is the canonicaliser defect.
(d) coordinate derivatives are an id of the model (`cd`); the replay wraps integrands with
    ufl.derivative(., SpatialCoordinate, direction) and recovers the id from the output.
"""

from __future__ import annotations

import json
import multiprocessing
import os
import random
import time

from .. import tlc
from ..common import MachineryError, main_wrapper

# --------------------------------------------------------------------------------------------
# TLC side
# --------------------------------------------------------------------------------------------

MC = """---- MODULE MC_Grouping ----
EXTENDS Grouping
c_Doms == {doms}
c_ITypes == {itypes}
c_Ids == {{1, 2}}
c_Tuples == {tuples}
c_MDs == {mds}
c_Colliding == {coll}
c_CDs == {cds}
c_Integrands == {integrands}
c_Seeds == {seeds}
====
"""

CFG = """CONSTANTS
Doms <- c_Doms
ITypes <- c_ITypes
Ids <- c_Ids
Tuples <- c_Tuples
MDs <- c_MDs
Colliding <- c_Colliding
CDs <- c_CDs
Integrands <- c_Integrands
Seeds <- c_Seeds
MaxN = {maxn}
DumpOn = {dump}
SPECIFICATION Spec
{invs}
"""

SEEDS_ALL = "{<< >>}"
SEEDS_FILE = 'LET s == JsonDeserialize("seeds.json") IN {s[i] : i \\in DOMAIN s}'

PROPERTY_INVS = (
    "TypeOK",
    "TotalsPreserved",
    "NoCrossMetadataMerge",
    "NoPhantomSubdomain",
    "SameMeaningUnderBothOptions",
    "OutputShape",
)

AB = "{<<1, 0>>, <<0, 1>>}"  # two single atoms
AB_AB = "{<<1, 0>>, <<0, 1>>, <<1, 1>>}"  # plus the composite integrand a + b
T12 = "{<<1, 2>>}"
T12_21_11 = "{<<1, 2>>, <<2, 1>>, <<1, 1>>}"

# name -> constants; every universe is explored completely (all forms, both options).
A = "{<<1, 0>>}"
CONFIGS = {
    # <= 4 integrals over ids {1, 2, (1,2), everywhere}, 2 metadata, one type, one domain
    "n4": dict(doms="{1}", itypes="{1}", tuples=T12, mds="{1, 2}", cds="{0}", integrands=AB, maxn=4),
    # <= 3 integrals with the same integrand, 2 integral types
    "n3types": dict(doms="{1}", itypes="{1, 2}", tuples=T12, mds="{1, 2}", cds="{0}", integrands=A, maxn=3),
    # <= 2 integrals, 2 domains, 3 metadata, coordinate derivative, composite integrand
    "n2wide": dict(doms="{1, 2}", itypes="{1}", tuples=T12, mds="{1, 2, 3}", cds="{0, 1}", integrands="{<<1, 0>>, <<1, 1>>}", maxn=2),
    # <= 3 integrals with the same integrand, coordinate derivative none / v1
    "n3cd": dict(doms="{1}", itypes="{1}", tuples=T12, mds="{1, 2}", cds="{0, 1}", integrands=A, maxn=3),
    # small two-metadata universe (selftest)
    "pairs": dict(doms="{1}", itypes="{1}", tuples=T12, mds="{1, 2}", cds="{0}", integrands=AB, maxn=2),
    # three metadata; as coded the last two (array valued) collide; also the universe of the
    # metadata-pair binding (c): ids 2, 3 are bound to each pair of real dicts
    "arrays": dict(doms="{1}", itypes="{1}", tuples=T12, mds="{1, 2, 3}", cds="{0}", integrands=AB, maxn=2),
    # thorough only
    "n3typesab": dict(doms="{1}", itypes="{1, 2}", tuples=T12, mds="{1, 2}", cds="{0}", integrands=AB, maxn=3),
    "n4types": dict(doms="{1}", itypes="{1, 2}", tuples=T12, mds="{1, 2}", cds="{0}", integrands=A, maxn=4),
    "n4md3": dict(doms="{1}", itypes="{1}", tuples=T12, mds="{1, 2, 3}", cds="{0}", integrands=AB, maxn=4),
    "n3wide": dict(doms="{1, 2}", itypes="{1, 2}", tuples=T12, mds="{1, 2}", cds="{0}", integrands=A, maxn=3),
    "n3md3": dict(doms="{1}", itypes="{1}", tuples=T12, mds="{1, 2, 3}", cds="{0}", integrands=AB_AB, maxn=3),
    "n3cdab": dict(doms="{1}", itypes="{1}", tuples=T12, mds="{1, 2}", cds="{0, 1}", integrands=AB, maxn=3),
    "n2cd2": dict(doms="{1}", itypes="{1}", tuples=T12, mds="{1, 2, 3}", cds="{0, 1, 2}", integrands=AB, maxn=2),
    "n3tuples": dict(doms="{1}", itypes="{1}", tuples=T12_21_11, mds="{1, 2}", cds="{0}", integrands=AB_AB, maxn=3),
    # sampled universe: everything at once, <= 4 integrals (forms drawn by the harness, seeded)
    "sample": dict(doms="{1, 2}", itypes="{1, 2}", tuples=T12_21_11, mds="{1, 2, 3}", cds="{0, 1, 2}", integrands=AB_AB, maxn=4),
}
SAMPLE_PY = dict(doms=(1, 2), itypes=(1, 2), sids=([1], [2], [0], [1, 2], [2, 1], [1, 1]), mds=(1, 2, 3), cds=(0, 1, 2), integrands=([1, 0], [0, 1], [1, 1]), maxn=4)


class Job:
    """One TLC run (executed concurrently with others, 4 TLC workers each)."""

    def __init__(self, key, name, coll="{}", dump=False, invs=PROPERTY_INVS, seeds=None):
        self.key, self.name, self.coll, self.dump, self.invs, self.seeds = key, name, coll, dump, tuple(invs), seeds
        self.res = None

    def run(self):
        c = CONFIGS[self.name]
        mc = MC.format(coll=self.coll, seeds=SEEDS_ALL if self.seeds is None else SEEDS_FILE, **{k: c[k] for k in ("doms", "itypes", "tuples", "mds", "cds", "integrands")})
        allinv = list(self.invs) + (["Dump"] if self.dump else [])
        cfg = CFG.format(maxn=c["maxn"] if self.seeds is None else 0, dump="TRUE" if self.dump else "FALSE", invs="\n".join("INVARIANT " + i for i in allinv))
        kw = dict(mc_text=mc, mc_name="MC_Grouping", timeout=1500, workers=4, heap="3g")
        if self.seeds is not None:
            recs = [[dict(dom=d, itype=t, sid=s, md=m, cd=c_, g=g) for d, t, s, m, c_, g in f] for f in self.seeds]
            kw["extra_files"] = {"seeds.json": json.dumps(recs)}
        res = tlc.run("Grouping", cfg, **kw)
        if res.outcome == "error" and res.distinct == 0:
            # a JVM that could not start (memory pressure from concurrent runs): one retry
            res = tlc.run("Grouping", cfg, **kw)
        res.cfg_name = f"MC_Grouping[{self.name},Colliding={self.coll}{',given forms' if self.seeds is not None else ''}].cfg"
        self.res = res
        return self


def run_jobs(ctx, jobs):
    """Run TLC jobs, four at a time; account them in order; return {key: job}."""
    from concurrent.futures import ThreadPoolExecutor

    with ThreadPoolExecutor(max_workers=4) as ex:
        list(ex.map(lambda j: j.run(), jobs))
    for j in jobs:
        ctx.add_tlc(j.res)
    return {j.key: j for j in jobs}


def _form_key(x):
    d, t, s = x[0], x[1], x[2]
    return (d, t, 1 if s == [0] else 0 if len(s) == 1 else 2, s)


def random_forms(seed, n):
    """Seeded forms of the 'sample' universe in the Form's canonical order (what Form.__init__
    would produce); TypeOK re-checks the order inside TLC."""
    rng = random.Random(seed)
    u = SAMPLE_PY
    forms = {}
    while len(forms) < n:
        k = rng.choice((2, 3, 3, 4, 4, 4))
        sub = {key: rng.sample(u[key], rng.randint(1, min(2, len(u[key])))) for key in ("doms", "itypes", "mds", "cds")}
        sids = rng.sample(u["sids"], rng.randint(2, 4))
        f = [[rng.choice(sub["doms"]), rng.choice(sub["itypes"]), list(rng.choice(sids)), rng.choice(sub["mds"]), rng.choice(sub["cds"]), list(rng.choice(u["integrands"]))] for _ in range(k)]
        f.sort(key=_form_key)
        forms.setdefault(json.dumps(f), f)
    return list(forms.values())


def _lines(job):
    """The dump lines of a run; their number is checked against the size of the state graph."""
    res, name = job.res, job.name
    lines = res.prints
    # enumeration: states = 1 + F (non-empty forms) + 2 F * 6 (six steps for each option);
    # given forms: states = F + 2 F * 6
    nforms, rem = divmod(res.distinct - (1 if job.seeds is None else 0), 13)
    if rem or len(lines) != 2 * nforms or (job.seeds is not None and nforms != len(job.seeds)):
        raise MachineryError(f"Grouping[{name}]: {res.distinct} states but {len(lines)} dump lines (expected {2 * nforms})")
    if not lines:
        raise MachineryError(f"Grouping[{name}]: no dump lines")
    return lines


def _decode(s):
    return json.loads(json.loads(s))


# --------------------------------------------------------------------------------------------
# real ufl objects
# --------------------------------------------------------------------------------------------

ITYPE = {1: ("cell", "dx"), 2: ("exterior_facet", "ds")}
ITYPE_ID = {v[0]: k for k, v in ITYPE.items()}
OTH = -1


def _element_class():
    from ufl.finiteelement import AbstractFiniteElement
    from ufl.pullback import identity_pullback
    from ufl.sobolevspace import H1

    class P(AbstractFiniteElement):
        """Lagrange element (the minimal concrete element, as in ufl's own test utilities)."""

        def __init__(self, cell, degree, shape=()):
            self._cell, self._degree, self._shape = cell, degree, shape
            self._repr = f"c15.P({cell!r}, {degree}, {shape})"

        def __repr__(self):
            return self._repr

        def __str__(self):
            return f"<P{self._degree}{self._shape}>"

        def __hash__(self):
            return hash(self._repr)

        def __eq__(self, other):
            return type(self) is type(other) and self._repr == other._repr

        sobolev_space = property(lambda self: H1)
        pullback = property(lambda self: identity_pullback)
        embedded_superdegree = property(lambda self: self._degree)
        embedded_subdegree = property(lambda self: self._degree)
        cell = property(lambda self: self._cell)
        reference_value_shape = property(lambda self: self._shape)
        sub_elements = property(lambda self: [])

    return P


class Env:
    """Meshes, atoms (scalar Coefficients), shape-derivative directions."""

    NATOMS = 3

    def __init__(self):
        import ufl

        P = _element_class()
        cell = ufl.triangle
        self.ufl = ufl
        self.mesh, self.atom, self.x, self.dirn = {}, {}, {}, {}
        self.atom_of = {}
        for d in (1, 2):
            m = ufl.Mesh(P(cell, 1, (2,)), ufl_id=71500 + d)
            V = ufl.FunctionSpace(m, P(cell, 1))
            W = ufl.FunctionSpace(m, P(cell, 1, (2,)))
            self.mesh[d] = m
            self.x[d] = ufl.SpatialCoordinate(m)
            for a in range(1, self.NATOMS + 1):
                f = ufl.Coefficient(V, count=715000 + 100 * d + a)
                self.atom[(d, a)] = f
                self.atom_of[f] = (d, a)
            for c in (1, 2):
                self.dirn[(d, c)] = ufl.Coefficient(W, count=715000 + 100 * d + 50 + c)
        self.dom_of = {m: d for d, m in self.mesh.items()}


_ENV = None


def env():
    global _ENV
    if _ENV is None:
        _ENV = Env()
    return _ENV


# ---- metadata library (named, so that replay files are self-contained) ---------------------


def _md_library():
    import numpy as np

    big = np.arange(2000, dtype=float) / 7.0
    big_mid = big.copy()
    big_mid[1000] += 0.5  # differs where str() prints "..."
    big2d = (np.arange(1400, dtype=float) / 3.0).reshape(700, 2)
    big2d_mid = big2d.copy()
    big2d_mid[350, 1] -= 0.25
    third = 1.0 / 3.0
    lib = {
        "default": {},
        "neutral": {"representation": "c15"},
        "deg1": {"quadrature_degree": 1},
        "deg2": {"quadrature_degree": 2},
        "deg2_copy": {"quadrature_degree": 2},
        "deg3": {"quadrature_degree": 3},
        "deg23": {"quadrature_degree": (2, 3)},
        "tol01": {"tol": 0.1},
        "tol02": {"tol": 0.2},
        "tol01_ulp": {"tol": float(np.nextafter(0.1, 1.0))},
        "rule_default": {"quadrature_rule": "default"},
        "rule_vertex": {"quadrature_rule": "vertex"},
        "key_a": {"a": 1},
        "key_b": {"b": 1},
        "key_ab": {"a": 1, "b": 2},
        "key_ba": {"b": 2, "a": 1},
        "nest_12": {"opt": {"x": 1, "y": 2}},
        "nest_13": {"opt": {"x": 1, "y": 3}},
        "nest_12_copy": {"opt": {"y": 2, "x": 1}},
        "list_123": {"degs": [1, 2, 3]},
        "list_124": {"degs": [1, 2, 4]},
        "list_12": {"degs": [1, 2]},
        "flag_t": {"flag": True},
        "flag_f": {"flag": False},
        "none": {"q": None},
        "zero": {"q": 0},
        "int_2": {"q": 2},
        "str_2": {"q": "2"},
        # custom quadrature rules: points / weights as arrays
        "rule3": {"quadrature_rule": "custom", "quadrature_points": np.array([[0.5, 0.0], [0.5, 0.5], [0.0, 0.5]]), "quadrature_weights": np.array([1 / 6, 1 / 6, 1 / 6])},
        "rule3_copy": {"quadrature_rule": "custom", "quadrature_points": np.array([[0.5, 0.0], [0.5, 0.5], [0.0, 0.5]]), "quadrature_weights": np.array([1 / 6, 1 / 6, 1 / 6])},
        "rule3_moved": {"quadrature_rule": "custom", "quadrature_points": np.array([[0.5, 0.0], [0.5, 0.25], [0.0, 0.5]]), "quadrature_weights": np.array([1 / 6, 1 / 6, 1 / 6])},
        "rule1": {"quadrature_rule": "custom", "quadrature_points": np.array([[third, third]]), "quadrature_weights": np.array([0.5])},
        "rule1_8digits": {"quadrature_rule": "custom", "quadrature_points": np.array([[0.33333333, 0.33333333]]), "quadrature_weights": np.array([0.5])},
        "arr_9a": {"w": np.array([0.123456789, 0.5])},
        "arr_9b": {"w": np.array([0.123456788, 0.5])},
        "big": {"quadrature_weights": big},
        "big_copy": {"quadrature_weights": big.copy()},
        "big_mid": {"quadrature_weights": big_mid},
        "big2d": {"quadrature_points": big2d},
        "big2d_mid": {"quadrature_points": big2d_mid},
        "big_flat": {"quadrature_points": big2d.reshape(1400)},
        "arr_int": {"w": np.array([1, 2])},
        "arr_int32": {"w": np.array([1, 2], dtype=np.int32)},
        "arr_float": {"w": np.array([1.0, 2.0])},
        "arr_22": {"w": np.array([[1.0, 2.0], [3.0, 4.0]])},
        "arr_4": {"w": np.array([1.0, 2.0, 3.0, 4.0])},
        "arr_14": {"w": np.array([[1.0, 2.0, 3.0, 4.0]])},
        "arr_as_list": {"w": [1, 2]},
        "arr_as_str": {"w": "[1 2]"},
    }
    return lib


_LIB = None


def md(name):
    global _LIB
    if _LIB is None:
        _LIB = _md_library()
    return _LIB[name]


# (label, A, B, relation, fingerprint class).  relation "differ": must never be merged;
# "equal": the same metadata, must be accumulated; "unjudged": recorded only (the dicts differ
# as Python objects but whether a form compiler distinguishes them is not for UFL to say).
PAIRS = [
    ("int", "deg2", "deg3", "differ", "int"),
    ("empty-vs-int", "default", "deg2", "differ", "empty"),
    ("float", "tol01", "tol02", "differ", "float"),
    ("float-ulp", "tol01", "tol01_ulp", "differ", "float"),
    ("str", "rule_default", "rule_vertex", "differ", "str"),
    ("key", "key_a", "key_b", "differ", "key"),
    ("extra-key", "key_a", "key_ab", "differ", "key"),
    ("nested-dict", "nest_12", "nest_13", "differ", "nested"),
    ("list-entry", "list_123", "list_124", "differ", "list"),
    ("list-length", "list_12", "list_123", "differ", "list"),
    ("bool", "flag_t", "flag_f", "differ", "bool"),
    ("none-vs-zero", "none", "zero", "differ", "none"),
    ("ndarray-small-entry", "rule3", "rule3_moved", "differ", "ndarray-small"),
    ("ndarray-number-of-points", "rule3", "rule1", "differ", "ndarray-small"),
    ("ndarray-gt1000-entries-middle-differs", "big", "big_mid", "differ", "ndarray-truncated"),
    ("ndarray-2d-gt1000-entries-middle-differs", "big2d", "big2d_mid", "differ", "ndarray-truncated"),
    ("ndarray-9th-significant-digit", "arr_9a", "arr_9b", "differ", "ndarray-precision"),
    ("ndarray-one-third-vs-0.33333333", "rule1", "rule1_8digits", "differ", "ndarray-precision"),
    ("ndarray-dtype-int-vs-float", "arr_int", "arr_float", "differ", "ndarray-dtype"),
    ("ndarray-shape-2x2-vs-4", "arr_22", "arr_4", "differ", "ndarray-shape"),
    ("ndarray-shape-1x4-vs-4", "arr_14", "arr_4", "differ", "ndarray-shape"),
    ("ndarray-shape-700x2-vs-1400", "big2d", "big_flat", "differ", "ndarray-shape"),
    ("ndarray-vs-list", "arr_int", "arr_as_list", "differ", "mixed-value-kinds"),
    ("int-vs-tuple-degree", "deg2", "deg23", "differ", "mixed-value-kinds"),
    ("same-object", "deg2", "deg2", "equal", "same-object"),
    ("equal-dict-copy", "deg2", "deg2_copy", "equal", "dict-copy"),
    ("key-order", "key_ab", "key_ba", "equal", "key-order"),
    ("nested-key-order", "nest_12", "nest_12_copy", "equal", "nested"),
    ("ndarray-equal-copy", "rule3", "rule3_copy", "equal", "ndarray-copy"),
    ("ndarray-gt1000-equal-copy", "big", "big_copy", "equal", "ndarray-copy"),
    ("int-vs-str", "int_2", "str_2", "unjudged", "int-vs-str"),
    ("ndarray-int32-vs-int64", "arr_int", "arr_int32", "unjudged", "ndarray-itemsize"),
    ("ndarray-vs-its-str", "arr_int", "arr_as_str", "unjudged", "ndarray-vs-str"),
]

# metadata bound to the ids of the model in the plain replay (b): genuinely different dicts,
# one of them array valued
MD_PLAIN = {1: "default", 2: "deg2", 3: "rule3"}
# as-coded demonstration: ids 2 and 3 are array-valued rules whose str() coincide
MD_ARRAYS = {
    "ndarray-truncated": {1: "default", 2: "big", 3: "big_mid"},
    "ndarray-precision": {1: "default", 2: "rule1", 3: "rule1_8digits"},
}


def _md_same(a, b):
    """Deep equality of metadata values (numpy aware, exact)."""
    import numpy as np

    if a is b:
        return True
    if isinstance(a, np.ndarray) or isinstance(b, np.ndarray):
        return isinstance(a, np.ndarray) and isinstance(b, np.ndarray) and a.dtype == b.dtype and a.shape == b.shape and a.tobytes() == b.tobytes()
    if isinstance(a, dict) and isinstance(b, dict):
        return a.keys() == b.keys() and all(_md_same(a[k], b[k]) for k in a)
    if isinstance(a, (list, tuple)) and isinstance(b, (list, tuple)):
        return type(a) is type(b) and len(a) == len(b) and all(_md_same(x, y) for x, y in zip(a, b))
    return type(a) is type(b) and a == b


# ---- model line -> real form ---------------------------------------------------------------


def _expr(e, d, g):
    terms = [e.atom[(d, a + 1)] for a, n in enumerate(g) for _ in range(n)]
    x = terms[0]
    for t in terms[1:]:
        x = x + t
    return x


def _sid(s):
    return "everywhere" if s == [0] else (s[0] if len(s) == 1 else tuple(s))


def build_form(e, f, mds, style):
    """f: [[dom, itype, sid, md, cd, bag], ...]; mds: id -> metadata dict.

    style "integral": one ufl.Integral per model integral (tuple ids stay tuples);
    style "measure": integrand * Measure(...) -- the public notation (a tuple id is split into
    one integral per id by Measure.__rmul__), coordinate derivative through ufl.derivative(form);
    style "tuple1": like "integral", a single id k written as the tuple (k,).
    """
    ufl = e.ufl
    from ufl.classes import Form, Integral

    itgs = []
    for d, t, s, m, c, g in f:
        x = _expr(e, d, g)
        sid = _sid(s)
        if style == "measure":
            piece = x * ufl.Measure(ITYPE[t][1], domain=e.mesh[d], subdomain_id=sid, metadata=mds[m])
            if c:
                piece = ufl.derivative(piece, e.x[d], e.dirn[(d, c)])
            itgs.extend(piece.integrals())
        else:
            if c:
                x = ufl.derivative(x, e.x[d], e.dirn[(d, c)])
            if style == "tuple1" and isinstance(sid, int):
                sid = (sid,)
            itgs.append(Integral(x, ITYPE[t][0], e.mesh[d], sid, mds[m], None))
    return Form(itgs)


def run_real(F, app):
    from ufl.algorithms.domain_analysis import build_integral_data, group_form_integrals

    G = group_form_integrals(F, F.ufl_domains(), do_append_everywhere_integrals=app)
    return G, build_integral_data(G.integrals())


# ---- real result -> model representation ---------------------------------------------------


def _bag(e, d, expr):
    from ufl.classes import Coefficient, Product, ScalarValue, Sum

    bag = [0] * e.NATOMS
    stack = [(expr, 1)]
    while stack:
        x, k = stack.pop()
        if isinstance(x, Sum):
            stack.extend((o, k) for o in x.ufl_operands)
        elif isinstance(x, Product) and any(isinstance(o, ScalarValue) for o in x.ufl_operands):
            a, b = x.ufl_operands
            if isinstance(b, ScalarValue):
                a, b = b, a
            v = a._value
            if int(v) != v:
                raise MachineryError(f"projection: non-integral scale factor {v!r}")
            stack.append((b, k * int(v)))
        elif isinstance(x, Coefficient) and e.atom_of.get(x, (None,))[0] == d:
            bag[e.atom_of[x][1] - 1] += k
        else:
            raise MachineryError(f"projection: unexpected node {type(x).__name__}: {x}")
    return bag


def _strip_cd(e, d, expr):
    """Coordinate-derivative id of an integrand: 0 none, c for d/dx in direction dirn[d, c];
    a chain gives the decimal string of the ids, outermost first (never predicted)."""
    from ufl.classes import CoordinateDerivative

    chain = []
    while isinstance(expr, CoordinateDerivative):
        o, w, v, cdm = expr.ufl_operands
        c = None
        if len(w.ufl_operands) == 1 and w.ufl_operands[0] == e.x[d] and len(v.ufl_operands) == 1 and len(cdm.ufl_operands) == 0:
            for cc in (1, 2):
                if v.ufl_operands[0] == e.dirn[(d, cc)]:
                    c = cc
        if c is None:
            raise MachineryError(f"projection: unknown coordinate derivative {expr}")
        chain.append(c)
        expr = o
    if not chain:
        return 0, expr
    if len(chain) == 1:
        return chain[0], expr
    return int("".join(map(str, chain))), expr


def _md_id(metadata, mds):
    for k, v in mds.items():
        if metadata is v:
            return k
    hits = [k for k, v in mds.items() if _md_same(metadata, v)]
    if hits:
        return min(hits)
    return 0  # a metadata dict that no input integral had


def project(e, data, mds):
    """IntegralData list -> [[dom, itype, sid, [[md, cd, bag], ...]], ...] (+ consistency)."""
    out = []
    for ida in data:
        d = e.dom_of[ida.domain]
        t = ITYPE_ID[ida.integral_type]
        sid = [OTH if k == "otherwise" else int(k) for k in ida.subdomain_id]
        itgs = []
        for itg in ida.integrals:
            if itg.ufl_domain() is not ida.domain or itg.integral_type() != ida.integral_type or itg.subdomain_id() != ida.subdomain_id:
                raise MachineryError("IntegralData holds an integral of another key")
            c, inner = _strip_cd(e, d, itg.integrand())
            itgs.append([_md_id(itg.metadata(), mds), c, _bag(e, d, inner)])
        out.append([d, t, sid, itgs])
    return out


# ---- comparison ----------------------------------------------------------------------------


def totals_of(out, cls):
    """{(d, t, k, md class, cd): bag} of an output list."""
    tot = {}
    for d, t, sid, itgs in out:
        for m, c, g in itgs:
            for k in sid:
                key = (d, t, k, cls(m), c)
                cur = tot.setdefault(key, [0] * len(g))
                for i, n in enumerate(g):
                    cur[i] += n
    return {k: v for k, v in tot.items() if any(v)}


def norm_out(out, cls):
    return [(d, t, tuple(sid), frozenset((cls(m), c, tuple(g)) for m, c, g in itgs)) for d, t, sid, itgs in out]


def compare(line, real, cls=lambda m: m, exact=True, ordered=True):
    """Compare the projection `real` of the real result with a dump line.  Returns a list of
    mismatch kinds (empty = conforms)."""
    f, app, o, tot = line
    bad = []
    natoms = len(f[0][5])

    def cut(g):
        if any(g[natoms:]):
            return tuple(g)
        return tuple(g[:natoms])

    real = [[d, t, sid, [[m, c, list(cut(g))] for m, c, g in itgs]] for d, t, sid, itgs in real]
    # 1. the meaning: per subdomain totals
    want = {}
    for d, t, k, m, c, g in tot:
        key = (d, t, k, cls(m), c)
        cur = want.setdefault(key, [0] * natoms)
        for i, n in enumerate(g):
            cur[i] += n
    got = totals_of(real, cls)
    if {k: tuple(v) for k, v in got.items()} != {k: tuple(v) for k, v in want.items()}:
        bad.append("total")
    # 2. the predicted IntegralData list
    spec = [[d, t, sid, [[m, c, g] for m, _ms, c, g in itgs]] for d, t, sid, itgs in o]
    ns, nr = norm_out(spec, cls), norm_out(real, cls)
    if exact:
        if (ns != nr) if ordered else (sorted(ns, key=repr) != sorted(nr, key=repr)):
            bad.append("structure")
    else:
        # composite integrands: a bag does not determine the expression tree, so the code may
        # keep apart what the bag-level model merges; it must never merge more.
        if totals_of(spec, cls) != got:
            bad.append("structure")
        for d, t, sid, itgs in nr:
            for m, c, g in itgs:
                if not any(d == d2 and t == t2 and set(sid) <= set(sid2) and (m, c, g) in itgs2 for d2, t2, sid2, itgs2 in ns):
                    bad.append("structure")
    # 3. shape promised by build_integral_data
    keys = [(d, t, tuple(sid)) for d, t, sid, _ in real]
    if len(set(keys)) != len(keys) or any(len(set(sid)) != len(sid) or not sid for _, _, sid, _ in real):
        bad.append("shape")
    return sorted(set(bad))


def _single_atoms(f):
    return all(sum(x[5]) == 1 for x in f)


def replay_line(e, line, mdnames, style, cls=None, corrupt=None):
    """Run one dump line on real ufl.  Returns (mismatch kinds, projected real result)."""
    f, app, o, tot = line
    mds = {int(k): md(v) for k, v in mdnames.items()}
    F = build_form(e, f, mds, style)
    G, data = run_real(F, app)
    if sum(len(ida.integrals) for ida in data) != len(G.integrals()):
        return ["integral-data-lost-integrals"], None
    real = project(e, data, mds)
    natoms = len(f[0][5])
    real = [[d, t, sid, [[m, c, g[:natoms] if not any(g[natoms:]) else g] for m, c, g in itgs]] for d, t, sid, itgs in real]
    if corrupt:
        real = corrupt(real)
    clsf = (lambda m: cls.get(m, m)) if cls else (lambda m: m)
    return compare(line, real, clsf, exact=_single_atoms(f)), real


def _kinds(f):
    """Structural class of a form, for fingerprints."""
    s = set()
    for x in f:
        s.add("ev" if x[2] == [0] else "int" if len(x[2]) == 1 else "tuple")
    if any(x[4] for x in f):
        s.add("cd")
    return "+".join(sorted(s))


# ---- parallel replay -----------------------------------------------------------------------


def _work(task):
    raw, mdnames, styles, cls, tag = task
    e = env()
    n = 0
    bad = []
    distinct = []
    for s in raw:
        line = _decode(s) if isinstance(s, str) else s
        f = line[0]
        for style in styles:
            if style == "tuple1" and not any(len(x[2]) == 1 and x[2] != [0] for x in f):
                continue
            n += 1
            try:
                kinds, real = replay_line(e, line, mdnames, style, cls)
            except MachineryError:
                raise
            except Exception as ex:  # noqa: BLE001  the real code refused a valid form
                kinds, real = ["raise:" + type(ex).__name__], str(ex)[:200]
            if kinds:
                bad.append({"line": line, "style": style, "kinds": kinds, "real": real})
        if len(f) >= 2 and any(f[i][:2] == f[j][:2] for i in range(len(f)) for j in range(i)):
            distinct.append(tag + json.dumps(line[:2], separators=(",", ":")))
    return n, bad, distinct


_POOL = None


def start_pool():
    """Fork the replay workers once, early (small parent image), after the ufl objects exist."""
    global _POOL
    if _POOL is None:
        env()
        md("default")
        _POOL = multiprocessing.get_context("fork").Pool(min(16, os.cpu_count() or 4))


def stop_pool():
    global _POOL
    if _POOL is not None:
        _POOL.close()
        _POOL.join()
        _POOL = None


def _parallel(tasks):
    if not tasks:
        return []
    if _POOL is None or len(tasks) == 1:
        return [_work(t) for t in tasks]
    return _POOL.map(_work, tasks, chunksize=1)


def _chunks(lines, n=400):
    return [lines[i : i + n] for i in range(0, len(lines), n)]


# --------------------------------------------------------------------------------------------
# the check
# --------------------------------------------------------------------------------------------


_REPORTED = {}


def _report(ctx, item, mdnames, part, fp, what, extra=None):
    # one defect class fails on many forms: keep three replay files per fingerprint, count the rest
    if fp == "C15:raise:TypeError:metadata-mixed-value-kinds":
        # sorting integrals whose metadata hold values of different kinds under one key (2 vs (2, 3))
        # raises TypeError in ExprTupleKey: a refusal, not a wrong grouping -- outside C15 as stated
        # (nothing is merged or lost); recorded as a note.
        ctx.count("note_outside_property:" + fp)
        return
    _REPORTED[fp] = _REPORTED.get(fp, 0) + 1
    ctx.count("failing_cases:" + fp)
    if _REPORTED[fp] > 3:
        return
    doc = {"part": part, "line": item["line"], "style": item["style"], "mds": {str(k): v for k, v in mdnames.items()}, "observed": item["real"], "kinds": item["kinds"]}
    if extra:
        doc.update(extra)
    ctx.violation(fp, what, doc)


def _fmt_form(f, mdnames):
    def one(x):
        d, t, s, m, c, g = x
        ig = "+".join(f"f{a + 1}" for a, n in enumerate(g) for _ in range(n))
        sid = "" if s == [0] else str(s[0]) if len(s) == 1 else str(tuple(s))
        w = f"{ig}*{ITYPE[t][1]}({sid}{',' if sid else ''}domain=m{d},metadata={mdnames.get(m, mdnames.get(str(m)))})"
        return f"d_x[v{c}]({w})" if c else w

    return " + ".join(one(x) for x in f)


def _replay_plain(ctx, lines, tag):
    """(b) replay dump lines with plain, genuinely different metadata; all three notations."""
    styles = ("integral", "measure", "tuple1")
    mdnames = dict(MD_PLAIN)
    results = _parallel([(ch, mdnames, styles, None, tag + "|") for ch in _chunks(lines)])
    ctx.traces(len(lines))
    ctx.count("forms_replayed:" + tag, len(lines))
    for n, bad, distinct in results:
        ctx.evaluated(n)
        for k in distinct:
            ctx.distinct(k)
        for item in bad:
            f, app = item["line"][0], item["line"][1]
            kind = item["kinds"][0]
            fp = f"C15:{kind}-mismatch:{_kinds(f)}:append-{'on' if app else 'off'}"
            _report(ctx, item, mdnames, "plain", fp, f"{_fmt_form(f, mdnames)} (append={app}, built as {item['style']}): grouped result differs from the model ({','.join(item['kinds'])})")
    ctx.sample({"universe": tag, "line [form, append, predicted IntegralData, Total]": _decode(lines[len(lines) // 2]), "metadata": mdnames})


def part_asc(ctx, jobs):
    """As-coded canonicaliser: TLC must find the merge; replay it and its whole universe."""
    res = jobs["arrays-ascoded-check"].res
    if res.outcome != "invariant" or res.violated != "NoCrossMetadataMerge":
        raise MachineryError(f"as-coded model: expected a NoCrossMetadataMerge counterexample, got {res.outcome}/{res.violated}\n" + res.stdout[-2000:])
    st = tlc.parse_state(res.trace[-1][1])
    cex = [[[x["dom"], x["itype"], x["sid"], x["md"], x["cd"], x["g"]] for x in st["form"]], st["append"]]
    print(f"  TLC counterexample with the as-coded canonicaliser ({len(res.trace)} states, step {res.trace[-1][0].split()[0]}): form={cex[0]} append={cex[1]} accum={st['accum']}", flush=True)
    ctx.count("ascoded_counterexample_states", len(res.trace))
    # predictions for every form of that universe under both constants
    want = {_key(l): l for l in map(_decode, _lines(jobs["arrays-intended"]))}
    coded = {_key(l): l for l in map(_decode, _lines(jobs["arrays-ascoded"]))}
    if _key(cex) not in want or want.keys() != coded.keys():
        raise MachineryError("counterexample form is not in the dumped universe")
    e = env()
    for fpclass, mdnames in MD_ARRAYS.items():
        kinds, real = replay_line(e, want[_key(cex)], mdnames, "integral")
        verdict = "as the INTENDED model predicts (not merged)" if not kinds else "as the AS-CODED model predicts (merged)" if _same_structure(coded[_key(cex)], real, lambda m: m) else "unlike both models"
        print(f"  counterexample on real ufl with metadata {mdnames}: {real} -- {verdict}", flush=True)
        _replay_two_models(ctx, list(want.values()), coded, mdnames, "differ", fpclass, fpclass, part="as-coded")
    ctx.sample({"as-coded counterexample [form, append]": cex, "metadata": MD_ARRAYS})


def _key(line):
    return json.dumps(line[:2], separators=(",", ":"))


def _replay_two_models(ctx, expect_lines, other, mdnames, relation, label, fpclass, part, cls=None):
    """Replay lines whose prediction is `expect_lines`; a mismatch that coincides with the
    prediction of the other constant (`other`: key -> line) is the canonicaliser misjudging."""
    styles = ("integral",)
    results = _parallel([(ch, mdnames, styles, cls, f"{part}:{label}|") for ch in _chunks(expect_lines, 200)])
    ctx.traces(len(expect_lines))
    nbad = 0
    for n, bad, distinct in results:
        ctx.evaluated(n)
        for k in distinct:
            ctx.distinct(k)
        for item in bad:
            nbad += 1
            line = item["line"]
            f, app = line[0], line[1]
            alt = other.get(_key(line))
            as_other = False
            if alt is not None and isinstance(item["real"], list):
                clsf = (lambda m: cls.get(m, m)) if cls else (lambda m: m)
                # against the other model only the structure (incl. which dict survives) counts:
                # its Total table is the meaning, which a wrong merge cannot satisfy
                as_other = _same_structure(alt, item["real"], clsf)
            if relation == "unjudged":
                ctx.count(f"unjudged_pair_merged:{label}")
                continue
            if as_other and relation == "differ":
                fp = f"C15:metadata-merge:{fpclass}"
                what = f"metadata {mdnames.get(2)} / {mdnames.get(3)} differ ({label}) but their integrals are merged exactly as the colliding-canonicaliser model predicts: {_fmt_form(f, mdnames)} (append={app})"
            elif as_other and relation == "equal":
                fp = f"C15:metadata-split:{fpclass}"
                what = f"equal metadata ({label}) are not accumulated: {_fmt_form(f, mdnames)} (append={app})"
            elif item["kinds"][0].startswith("raise:"):
                fp = f"C15:{item['kinds'][0]}:metadata-{fpclass}"
                what = f"grouping a valid form raises {item['kinds'][0][6:]} ({item['real']}); metadata {mdnames} ({label}): {_fmt_form(f, mdnames)} (append={app})"
            else:
                fp = f"C15:{item['kinds'][0]}-mismatch:{part}:{fpclass}"
                what = f"{_fmt_form(f, mdnames)} (append={app}): result matches neither model ({','.join(item['kinds'])})"
            _report(ctx, item, mdnames, part, fp, what, {"relation": relation, "label": label, "cls": {str(k): v for k, v in (cls or {}).items()}, "other_model_line": alt})
    return nbad


def _same_structure(alt, real, clsf):
    spec = [[d, t, sid, [[m, c, g] for m, _ms, c, g in itgs]] for d, t, sid, itgs in alt[2]]
    natoms = len(alt[0][0][5])
    real = [[d, t, sid, [[m, c, g[:natoms]] for m, c, g in itgs]] for d, t, sid, itgs in real]
    return norm_out(spec, clsf) == norm_out(real, clsf)


def part_pairs(ctx, jobs):
    """(c) metadata injectivity on real dict pairs: ids 2 and 3 of the three-metadata universe are
    bound to the pair, id 1 to an unrelated dict."""
    L_inj = {_key(l): l for l in map(_decode, _lines(jobs["arrays-intended"]))}
    L_col = {_key(l): l for l in map(_decode, _lines(jobs["arrays-ascoded"]))}
    if L_inj.keys() != L_col.keys():
        raise MachineryError("arrays: the two constants enumerate different forms")
    for label, a, b, relation, fpclass in PAIRS:
        mdnames = {1: "neutral", 2: a, 3: b}
        if relation == "equal":
            # equal metadata: the colliding model IS the meaning (one metadata class)
            _replay_two_models(ctx, list(L_col.values()), L_inj, mdnames, relation, label, fpclass, part="pairs", cls={3: 2})
        else:
            _replay_two_models(ctx, list(L_inj.values()), L_col, mdnames, relation, label, fpclass, part="pairs")
        ctx.count("metadata_pairs")
    ctx.sample({"metadata pair (differ)": ["big", "big_mid"], "what": "arange(2000)/7 vs the same with entry 1000 changed; ids 2 and 3 of every form of the 'arrays' universe are bound to them"})


def part_cd_extra(ctx):
    """(d) beyond the model: chains of two coordinate derivatives stay attached, in order."""
    e = env()
    ufl = e.ufl
    from ufl.classes import Integral

    d = 1
    f1, f2, f3 = (e.atom[(d, a)] for a in (1, 2, 3))
    v1, v2 = e.dirn[(d, 1)], e.dirn[(d, 2)]
    x = e.x[d]
    mds = {1: md("default"), 2: md("deg2")}

    def D(expr, *vs):
        for v in vs:
            expr = ufl.derivative(expr, x, v)
        return expr

    cases = {
        # name: (integrals [(expr, sid, md)], append, expected {(sid tuple, md, cd): bag})
        "chain12-and-plain": ([(D(f1, v1, v2), 1, 1), (f2, 1, 1), (D(f3, v1, v2), "everywhere", 1)], True, {((1,), 1, 21): [1, 0, 1], ((1,), 1, 0): [0, 1, 0], ((OTH,), 1, 21): [0, 0, 1]}),
        "chain12-vs-single": ([(D(f1, v1, v2), 1, 1), (D(f2, v1), 1, 1), (D(f3, v2), 2, 2)], False, {((1,), 1, 21): [1, 0, 0], ((1,), 1, 1): [0, 1, 0], ((2,), 2, 2): [0, 0, 1]}),
        "same-cd-two-subdomains": ([(D(f1, v1), 1, 1), (D(f1, v1), 2, 1), (f1, 2, 1)], True, {((1, 2), 1, 1): [1, 0, 0], ((2,), 1, 0): [1, 0, 0]}),
    }
    for name, (itgs, app, want) in cases.items():
        F = ufl.Form([Integral(ex, "cell", e.mesh[d], sid, mds[m], None) for ex, sid, m in itgs])
        G, data = run_real(F, app)
        real = project(e, data, mds)
        got = {}
        for _d, _t, sid, its in real:
            for m, c, g in its:
                got[(tuple(sid), m, c)] = g
        ctx.evaluated()
        ctx.traces()
        ctx.distinct("cd-extra|" + name)
        if got != want:
            ctx.violation(f"C15:coordinate-derivative:{name}", f"coordinate derivative chain case {name}: got {got}, expected {want}", {"part": "cd-extra", "case": name, "observed": {str(k): v for k, v in got.items()}})
    # recorded, not judged: the grouping key is the SUM of the hashes of the derivative tuples, so
    # d_v2 d_v1 f1 and d_v1 d_v2 f2 land in one group and f2 gets its derivatives re-ordered
    # (mixed second Gateaux derivatives of a smooth functional commute, so the value is the same)
    F = ufl.Form([Integral(D(f1, v1, v2), "cell", e.mesh[d], 1, mds[1], None), Integral(D(f2, v2, v1), "cell", e.mesh[d], 1, mds[1], None)])
    real = project(e, run_real(F, True)[1], mds)
    if len(real) == 1 and len(real[0][3]) == 1:
        ctx.count("unjudged_cd_chain_reordered_and_merged")


def run(ctx, args):
    if args.selftest:
        return selftest(ctx)
    quick = ctx.tier == "quick"
    ctx.rule = (
        "TLC enumerates every form (sequence of integrals in the Form's canonical order) of each bounded universe "
        "(<=4 integrals; ids 1, 2, (1,2), (2,1), (1,1), everywhere; 2-3 metadata; 1-2 integral types; 1-2 domains; "
        "coordinate derivative none/v1/v2; integrands a, b, a+b) times both append options, runs the step-by-step model and "
        "prints form, predicted IntegralData list and Total table; every printed line is rebuilt on real ufl three ways "
        "(ufl.Integral objects, integrand*Measure notation, single ids as 1-tuples), grouped by the real code and compared "
        "with prediction and Total.  In addition a seeded sample of forms of the product universe (everything at once, "
        "<=4 integrals) is predicted by TLC form by form and replayed the same way (sampled, not exhaustive).  Metadata pairs: every form of the two-metadata universe with the ids bound to each pair "
        "of real dicts.  distinct non-trivial = distinct (universe, form, option[, metadata pair]) whose form has at least two "
        "integrals on the same (domain, integral type), i.e. the grouping has something to combine or keep apart"
    )
    ctx.cov["exhaustive"] = True
    ctx.assume("integrands are sums of scalar Coefficients (atoms); a result is read back as a bag of atoms through Sum / integer*expr nodes")
    ctx.assume("metadata dicts are identified by object identity, else by exact deep equality (numpy: dtype, shape, bytes)")
    ctx.assume("for composite input integrands (a+b) the bag does not determine the expression tree: there the code may keep apart integrals the bag-level model merges into one tuple id (never the converse); per-subdomain totals are compared exactly in all cases")
    ctx.assume("subdomain_data is None and there are no extra (intersect) measures")
    ctx.assume("metadata pairs that differ only by int-vs-str ('2' vs 2), by integer item size of equal arrays, or array vs its own str() are recorded, not judged")
    ctx.assume("the order of the integrals inside one IntegralData and the order of coordinate-derivative groups are not part of the property")
    start_pool()  # the ufl objects are built before the workers are forked
    # (n3types / n3cd are sub-universes of n3typesab / n3cdab)
    universes = ["n4", "n3types", "n2wide", "n3cd"] if quick else ["n4", "n2wide", "n4types", "n4md3", "n3typesab", "n3wide", "n3md3", "n3cdab", "n2cd2", "n3tuples"]
    nsample = 2000 if quick else 10000
    samples = random_forms(ctx.seed, nsample)
    jobs = [Job("U:" + u, u, dump=True) for u in universes]
    jobs += [Job(f"S:{i}", "sample", dump=True, seeds=samples[i : i + 10000]) for i in range(0, nsample, 10000)]
    jobs += [
        Job("arrays-ascoded-check", "arrays", coll="{2, 3}", invs=("TypeOK", "NoCrossMetadataMerge")),
        Job("arrays-intended", "arrays", dump=True),
        Job("arrays-ascoded", "arrays", coll="{2, 3}", dump=True, invs=("TypeOK",)),
    ]
    big = ["n4md3", "sample", "n3md3", "n3tuples", "n3cdab", "n4", "n4types", "n3typesab"]  # long runs first
    jobs.sort(key=lambda j: big.index(j.name) if j.name in big else len(big))
    t0 = time.time()
    done = run_jobs(ctx, jobs)
    print(f"  TLC: {len(jobs)} runs, {sum(j.res.distinct for j in jobs)} states, {time.time() - t0:.1f}s", flush=True)
    # (a) the intended model must satisfy every invariant on every universe
    for j in jobs:
        if j.coll == "{}" and not j.res.ok:
            tlc.require_ok(j.res, f"Grouping[{j.name}] intended model")
        if j.key == "arrays-ascoded" and not j.res.ok:
            tlc.require_ok(j.res, f"Grouping[{j.name}] dump with colliding canonicaliser")
    # (b) every enumerated / sampled form on the real code
    try:
        for j in jobs:
            if j.key.startswith("U:"):
                _replay_plain(ctx, _lines(j), j.name)
                j.res.stdout, j.res.prints = "", []
        sampled = [l for j in jobs if j.key.startswith("S:") for l in _lines(j)]
        _replay_plain(ctx, sampled, "sample")
        print(f"  replayed {ctx.cov['traces_validated_against_impl']} enumerated/sampled (form, option) lines on real ufl, {time.time() - t0:.1f}s", flush=True)
        part_asc(ctx, done)
        part_pairs(ctx, done)
        part_cd_extra(ctx)
        print(f"  as-coded universe, {len(PAIRS)} metadata pairs, coordinate-derivative chains done, {time.time() - t0:.1f}s", flush=True)
    finally:
        stop_pool()


# --------------------------------------------------------------------------------------------
# replay of a recorded violation
# --------------------------------------------------------------------------------------------


def replay(ctx, doc):
    r = doc["replay"]
    e = env()
    if r.get("part") == "cd-extra":
        part_cd_extra(ctx)
        return
    line = r["line"]
    mdnames = {int(k): v for k, v in r["mds"].items()}
    cls = {int(k): v for k, v in (r.get("cls") or {}).items()} or None
    try:
        kinds, real = replay_line(e, line, mdnames, r["style"], cls)
    except MachineryError:
        raise
    except Exception as ex:  # noqa: BLE001
        kinds, real = ["raise:" + type(ex).__name__], str(ex)[:200]
    print("form     :", _fmt_form(line[0], mdnames), "append =", line[1])
    print("metadata :", {k: _short(md(v)) for k, v in mdnames.items()})
    print("predicted:", [[d, t, sid, [[m, c, g] for m, _ms, c, g in its]] for d, t, sid, its in line[2]])
    print("Total    :", line[3])
    print("observed :", real)
    print("mismatch :", kinds or "none (conforms)")
    if kinds:
        ctx.violation(doc.get("fingerprint", "C15:replay"), doc.get("what", "replayed case still fails"), r)


def _short(m):
    s = repr(m).replace("\n", " ")
    return s if len(s) < 160 else s[:157] + "..."


# --------------------------------------------------------------------------------------------
# selftest: the comparison must reject corrupted predictions / results / a broken canonicaliser
# --------------------------------------------------------------------------------------------


def selftest(ctx):
    import copy

    job = run_jobs(ctx, [Job("pairs-intended", "pairs", dump=True)])["pairs-intended"]
    tlc.require_ok(job.res, "Grouping[pairs]")
    lines = [_decode(s) for s in _lines(job)]
    e = env()
    mdnames = {1: "default", 2: "deg2"}
    # a form with an everywhere integral, an explicit one, two metadata
    pick = next(l for l in lines if l[1] and len(l[0]) == 2 and l[0][0][2] == [1] and l[0][1][2] == [0] and l[0][0][3] != l[0][1][3])
    ok, _ = replay_line(e, pick, mdnames, "integral")
    if ok:
        raise MachineryError(f"selftest: the uncorrupted line does not conform: {ok}")
    rejected = {}

    def corrupt_line(fn):
        l = copy.deepcopy(pick)
        fn(l)
        return replay_line(e, l, mdnames, "integral")[0]

    rejected["predicted-bag"] = corrupt_line(lambda l: l[2][0][3][0][3].__setitem__(0, l[2][0][3][0][3][0] + 1))
    rejected["total-bag"] = corrupt_line(lambda l: l[3][0][5].__setitem__(0, l[3][0][5][0] + 1))
    rejected["total-row-dropped"] = corrupt_line(lambda l: l[3].pop())
    rejected["predicted-metadata"] = corrupt_line(lambda l: l[2][0][3][0].__setitem__(0, 3 - l[2][0][3][0][0]))
    rejected["predicted-subdomain"] = corrupt_line(lambda l: l[2][0].__setitem__(2, l[2][0][2] + [7]))
    rejected["predicted-order"] = corrupt_line(lambda l: l[2].reverse()) if len(pick[2]) > 1 else ["n/a"]
    rejected["real-integral-dropped"] = replay_line(e, pick, mdnames, "integral", corrupt=lambda r: r[:-1])[0]
    rejected["append-flag"] = corrupt_line(lambda l: l.__setitem__(1, not l[1]))
    # a canonicaliser that identifies everything must be caught by the plain replay
    import ufl.algorithms.domain_analysis as da

    orig = da.canonicalize_metadata
    da.canonicalize_metadata = lambda m: ()
    try:
        n_bad = sum(bool(replay_line(e, l, mdnames, "integral")[0]) for l in lines)
    finally:
        da.canonicalize_metadata = orig
    rejected["mutant-constant-canonicaliser"] = [f"{n_bad} of {len(lines)} lines rejected"] if n_bad else []
    # an append option that is ignored must be caught
    orig_r = da.rearrange_integrals_by_single_subdomains
    da.rearrange_integrals_by_single_subdomains = lambda itgs, app: orig_r(itgs, True)
    try:
        n_bad2 = sum(bool(replay_line(e, l, mdnames, "integral")[0]) for l in lines)
    finally:
        da.rearrange_integrals_by_single_subdomains = orig_r
    rejected["mutant-append-always-on"] = [f"{n_bad2} of {len(lines)} lines rejected"] if n_bad2 else []
    ctx.traces(len(rejected))
    ctx.evaluated(len(rejected) + 2 * len(lines))
    ctx.sample({"selftest": {k: v for k, v in rejected.items()}})
    ctx.rule = "selftest: corrupted predictions, corrupted results and two in-process mutants of the real code must all be rejected"
    for k, v in rejected.items():
        print(f"  selftest {k}: {'rejected ' + str(v) if v else 'ACCEPTED'}")
        ctx.distinct("selftest|" + k)
    missed = [k for k, v in rejected.items() if not v]
    if missed:
        raise MachineryError(f"selftest: corruptions not rejected: {missed}")


def main(argv=None):
    main_wrapper("C15", run, argv)
