"""C25 — Sobolev space comparisons form a consistent partial order.

TLC (spec/Sobolev.tla) proves the intended inclusion relation is a partial order with mutually
consistent operators over every triple of spaces, and emits the full operator table.  The
conformance step evaluates all six Python comparison operators and element membership of the real
classes on every pair and compares with the table; in addition the operator laws of the property
are checked directly on the real objects for every pair and triple (this is what a change to the
code would break even if the table were wrong).
"""

from __future__ import annotations

import itertools
import math

from .. import tlc
from ..common import main_wrapper

CFG = """CONSTANTS DirLens = {dirlen}
MaxOrd = {maxord}
SPECIFICATION Spec
INVARIANT Reflexive
INVARIANT EqEquivalence
INVARIANT Antisymmetric
INVARIANT Transitive
INVARIANT LeIsLtOrEq
INVARIANT Asymmetric
INVARIANT EqCongruence
INVARIANT DeclaredHolds
INVARIANT Sanity
"""


class _Elem:
    """Minimal object with the one attribute SobolevSpace.__contains__ reads."""

    def __init__(self, space):
        self.sobolev_space = space


def _real(enc):
    import ufl.sobolevspace as S

    if enc["k"] == "plain":
        return getattr(S, enc["name"])
    return S.DirectionalSobolevSpace([math.inf if o == 99 else o for o in enc["ord"]])


def _label(enc):
    return enc["name"] if enc["k"] == "plain" else "D(" + ",".join("inf" if o == 99 else str(o) for o in enc["ord"]) + ")"


def _kind(enc):
    if enc["k"] == "dir":
        return "dir"
    return "unk" if enc["name"] in ("HEin", "HDivDiv", "HCurlDiv") else "plain"


def _op(f):
    """Evaluate a comparison; the result must be a genuine bool."""
    try:
        r = f()
    except Exception as e:  # noqa: BLE001
        return "raise:" + type(e).__name__
    if r is NotImplemented:
        return "NotImplemented"
    if not isinstance(r, bool):
        return "nonbool:" + type(r).__name__
    return r


def run(ctx, args):
    configs = [("{1}", 3), ("{1, 2}", 1)] if ctx.tier == "quick" else [("{1}", 3), ("{2}", 3), ("{1, 2}", 2), ("{2, 3}", 1), ("{3}", 2)]
    ctx.rule = (
        "TLC enumerates every triple of spaces of each universe (12 predefined + all directional spaces of one "
        "dimension) and checks the order laws on the intended relation; every ordered pair is then evaluated on "
        "the real classes with <,<=,>,>=,==,!= and `in`; a case is one (pair, operator); non-trivial = the pair "
        "is not (x,x)"
    )
    ctx.cov["exhaustive"] = True
    ctx.assume("intended inclusion = reflexive-transitive closure of the declared parent graph; D(o) is H^k when all orders equal k; H^max(o) <= D(o) <= H^min(o)")
    ctx.assume("directional spaces of different spatial dimension are never compared with each other (one universe per dimension)")
    for dirlen, maxord in configs:
        res = tlc.run("Sobolev", CFG.format(dirlen=dirlen, maxord=maxord), timeout=1500, coverage=False)
        ctx.add_tlc(res)
        if not res.ok:
            # the intended relation itself is broken: that is a defect of the specification
            tlc.require_ok(res, f"Sobolev DirLen={dirlen}")
        table = tlc.decode_prints(res)[0]
        _conform(ctx, table, dirlen)


def _conform(ctx, table, dirlen):
    objs = {}
    rel = {}
    for row in table:
        ka, kb = _label(row["a"]), _label(row["b"])
        objs.setdefault(ka, (row["a"], _real(row["a"])))
        objs.setdefault(kb, (row["b"], _real(row["b"])))
        rel[(ka, kb)] = row
    for (ka, kb), row in rel.items():
        ea, A = objs[ka]
        eb, B = objs[kb]
        want = {
            "lt": row["lt"],
            "le": row["le"],
            "eq": row["eq"],
            "ne": not row["eq"],
            "gt": rel[(kb, ka)]["lt"],
            "ge": rel[(kb, ka)]["le"],
        }
        got = {
            "lt": _op(lambda: A < B),
            "le": _op(lambda: A <= B),
            "eq": _op(lambda: A == B),
            "ne": _op(lambda: A != B),
            "gt": _op(lambda: A > B),
            "ge": _op(lambda: A >= B),
        }
        # element membership: an element of space A is in B iff A <= B
        want["in"] = row["le"]
        got["in"] = _op(lambda: _Elem(A) in B)
        ctx.traces(1)
        for op in want:
            ctx.evaluated()
            if ka != kb:
                ctx.distinct(f"{dirlen}|{ka}|{kb}|{op}")
            if got[op] == "raise:NotImplementedError" and {_kind(ea), _kind(eb)} == {"dir", "unk"}:
                # sobolevspace.py declares these comparisons unknown; a refusal is not a wrong answer
                ctx.count("refused_unknown_comparisons")
                continue
            if got[op] != want[op]:
                fp = f"C25:{op}:{_kind(ea)}-{_kind(eb)}:{'spurious' if got[op] is True else 'missing' if got[op] is False else got[op]}"
                ctx.violation(
                    fp,
                    f"{ka} {op} {kb}: real={got[op]} intended={want[op]}",
                    {"a": ea, "b": eb, "op": op, "expected": want[op], "observed": got[op]},
                )
        # operator laws of the property, directly on the real objects (independent of the table)
        if isinstance(got["lt"], bool) and isinstance(got["gt"], bool):
            blt = _op(lambda: B < A)
            if isinstance(blt, bool) and got["gt"] != blt:
                ctx.violation(f"C25:law:gt-is-flipped-lt:{_kind(ea)}-{_kind(eb)}", f"({ka} > {kb}) = {got['gt']} but ({kb} < {ka}) = {blt}", {"a": ea, "b": eb, "op": "law-gt"})
        if all(isinstance(got[k], bool) for k in ("lt", "le", "eq")):
            if got["le"] != (got["lt"] or got["eq"]):
                ctx.violation(f"C25:law:le-is-lt-or-eq:{_kind(ea)}-{_kind(eb)}", f"({ka} <= {kb}) = {got['le']} but < is {got['lt']} and == is {got['eq']}", {"a": ea, "b": eb, "op": "law-le"})
            if got["lt"] and got["eq"]:
                ctx.violation(f"C25:law:irreflexive:{_kind(ea)}-{_kind(eb)}", f"{ka} < {kb} and {ka} == {kb}", {"a": ea, "b": eb, "op": "law-irr"})
    # transitivity of the real `<` over all triples
    keys = sorted(objs)
    lt = {(x, y): _op(lambda: objs[x][1] < objs[y][1]) is True for x in keys for y in keys}
    for x, y, z in itertools.product(keys, repeat=3):
        ctx.evaluated()
        if lt[(x, y)] and lt[(y, z)] and not lt[(x, z)]:
            ctx.violation(
                f"C25:law:transitive:{_kind(objs[x][0])}-{_kind(objs[y][0])}-{_kind(objs[z][0])}",
                f"{x} < {y} < {z} but not {x} < {z}",
                {"a": objs[x][0], "b": objs[y][0], "c": objs[z][0], "op": "law-trans"},
            )
    ctx.sample({"pair": ["H1", "HDiv"], "table": {k: rel[("H1", "HDiv")][k] for k in ("lt", "le", "eq")}})
    ctx.sample({"pair": ["HDiv", "HCurl"], "table": {k: rel[("HDiv", "HCurl")][k] for k in ("lt", "le", "eq")}})


def replay(ctx, doc):
    r = doc["replay"]
    A, B = _real(r["a"]), _real(r["b"])
    print("replay", _label(r["a"]), r["op"], _label(r["b"]), "expected", r.get("expected"), "<:", _op(lambda: A < B), ">:", _op(lambda: A > B), "==:", _op(lambda: A == B))


def main(argv=None):
    main_wrapper("C25", run, argv)
