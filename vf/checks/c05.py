"""C05 — Operators build expressions with the mathematically intended value.

spec/UFLBuild.tla is the language as a state machine whose records carry the predicted shape, free
indices and exact value; TLC enumerates every legal program over several operator alphabets and the
replay executes each through ufl's public operators, comparing all three observables.
"""

from __future__ import annotations

import os

from ..builder import LIT, Slice, replay_doc, run_slices
from ..common import main_wrapper

F, G = ("f", ()), ("g", ())
U, V = ("u", (2,)), ("v", (2,))
A, B = ("A", (2, 2)), ("B", (2, 2))
T3 = ("T", (2, 2, 2))
P, Q = ("p", (3,)), ("q", (3,))


MATH = {"exp", "ln", "sin", "cos", "tan", "sinh", "cosh", "tanh", "asin", "atan"}


def slices(tier):
    q = tier == "quick"
    L = LIT
    out = [
        Slice("arith", [F, U, A], {"add", "sub", "neg", "mul", "div", "pow", "abs"}, 2, lits=[L["one"], L["two"], L["zero"]], zeros=[(2,)]),
        Slice("index", [U, A], {"index", "as_tensor", "mul", "add"}, 2, idx=(10, 11)),
        Slice("index3d", [T3], {"index", "as_tensor"}, 2, idx=(10, 11), maxrank=3),
        Slice("lists", [F, U, A], {"list", "index", "as_tensor"}, 2 if q else 3, lits=[L["zero"]], idx=(10, 11)),
        Slice("tensoralg", [F, U, A, B], {"dot", "inner", "outer", "transpose", "tr", "det", "inv", "cofac", "dev", "skew", "sym", "perp"}, 2, zeros=[(2,)], idx=(10,)),
        # unary tensor operators applied to operands that carry free indices
        Slice("free-index-operands", [U, A], {"index", "perp", "transpose", "dev", "skew", "sym", "tr", "neg", "abs"}, 2, idx=(10,), levels=[{"index"}, {"perp", "transpose", "dev", "skew", "sym", "tr", "neg", "abs"}], mikinds=("name", "slice", "fixed"), tiny=True),
        Slice("cross", [P, Q], {"cross", "dot", "inner", "outer", "neg", "index"}, 2, maxdim=3, idx=(10,), gdim=3, zeros=[(3,)]),
        Slice("complex", [F, U], {"conj", "real", "imag", "abs", "mul", "inner", "outer", "dot", "pow"}, 2, lits=[L["i"], L["two"]], complex_env=True),
        # elementary functions at their rational points (z = 0 and o = 1 in every environment; f generic: undefined)
        Slice("math", [("z", ()), ("o", ()), F], MATH | {"mul", "add", "sub", "atan2"}, 2, fixed={"z": 0, "o": 1}),
        # zeros that carry free indices of different extents (0*u[i]*w[j]) under binding in either index order
        Slice("zeros-mixed", [U, ("w", (3,))], {"as_tensor", "index", "outer", "mul", "add"}, 2, idx=(10, 11), zerofi=[((10, 2), (11, 3))], maxdim=3, mikinds=("name",), tiny=True),
        # atan2 of two literals (folded at construction)
        Slice("atan2-lits", [F], {"atan2"}, 1, lits=[L["zero"], L["one"], L["two"], L["mone"]]),
        # component tensors over an indexed list tensor whose items share a free index, bound in either axis order, then
        # indexed by fixed indices (the ComponentTensor/ListTensor shortcut of Indexed)
        Slice("list-ct", [U, V], {"index", "list", "as_tensor"}, 6, idx=(10, 11), levels=[{"index"}, {"index"}, {"list"}, {"index"}, {"as_tensor"}, {"index"}], mikinds=("name", "fixed"), chain=True, tiny=True),
        Slice("cond", [F, G], {"lt", "ge", "eq", "ne", "and", "or", "not", "cond", "max", "min", "sign"}, 2, lits=[L["zero"]]),
        Slice("cond3", [F, G], {"lt", "eq", "and", "not", "cond"}, 3),
        Slice("zeros", [F, U], {"mul", "add", "index", "as_tensor", "dot", "inner", "outer", "abs", "conj"}, 2, lits=[L["zero"]], zeros=[(2,), (2, 2)], idx=(10, 11), small=True),
        Slice("index-deep", [U, A, T3], {"index", "as_tensor", "mul", "add", "list", "neg"}, 6, idx=(10, 11, 12), maxrank=3, simulate=8 if q else 160, depth=7),
        Slice("mixed-deep", [F, G, U, V, A], {"add", "sub", "mul", "div", "index", "as_tensor", "list", "dot", "inner", "outer", "transpose", "tr", "abs", "neg", "cond", "lt", "max"}, 7, lits=[L["one"], L["two"], L["zero"], L["half"]], zeros=[(2,)], idx=(10, 11), simulate=8 if q else 160, depth=8),
    ]
    if not q:
        out += [
            Slice("arith-wide", [F, G, U, A], {"add", "sub", "neg", "mul", "div", "pow", "abs"}, 2, lits=[L["one"], L["mone"], L["two"], L["half"], L["zero"]], zeros=[(2,)]),
            Slice("arith3", [F, U], {"add", "sub", "mul", "div", "pow"}, 3, lits=[L["two"], L["zero"]], zeros=[(2,)]),
            Slice("index3", [U, A], {"index", "as_tensor", "mul"}, 3, idx=(10, 11)),
            Slice("index-wide", [U, A, T3], {"index", "as_tensor", "mul", "add"}, 2, idx=(10, 11, 12), maxrank=3),
            Slice("tensoralg-wide", [F, U, V, A, B], {"dot", "inner", "outer", "transpose", "tr", "det", "inv", "cofac", "dev", "skew", "sym", "perp", "index"}, 2, lits=[L["two"]], zeros=[(2,), (2, 2)], idx=(10,)),
            Slice("complex-wide", [F, G, U], {"conj", "real", "imag", "abs", "mul", "add", "inner", "outer", "dot", "pow"}, 2, lits=[L["i"], L["two"], L["zero"]], complex_env=True),
            Slice("cond-wide", [F, G, U], {"lt", "gt", "le", "ge", "eq", "ne", "and", "or", "not", "cond", "max", "min", "sign", "neg"}, 2, lits=[L["zero"], L["one"]]),
            Slice("zeros3", [F, U], {"mul", "add", "index", "as_tensor", "inner", "outer"}, 3, lits=[L["zero"]], zeros=[(2,)], idx=(10, 11), small=True),
        ]
    return out


def run(ctx, args):
    ctx.rule = (
        "every reachable state of UFLBuild within each slice's bounds is a legal UFL program; TLC enumerates them "
        "(exhaustively, or by -simulate for the deep slices) with predicted shape/free indices/exact value of the "
        "last node; each distinct program whose constructed nodes are all ancestors of its last node is replayed "
        "through the public API; non-trivial = value defined in some environment; distinct = distinct program"
    )
    ctx.assume("the Python evaluator vf/sem.py reads the denotation of implementation-built objects; it is exercised against TLC's predictions on every program")
    ctx.assume("environments: 2 per slice, pairwise distinct small rationals (one complex environment in the complex slice)")
    only = os.environ.get("VERIF_SLICES")
    sls = [sl for sl in slices(ctx.tier) if not only or sl.name in only.split(",")]
    run_slices(ctx, sls, "C05")


def replay(ctx, doc):
    replay_doc(ctx, doc, "C05")


def main(argv=None):
    main_wrapper("C05", run, argv)
