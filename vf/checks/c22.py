"""C22 — Block extraction partitions mixed forms.

Model: spec/Parts.tla (shared with C16).  The test / trial value vector of a mixed space is the
concatenation of the sub-function values; block (i, j) of a form's tensor is its restriction to the
rows of sub-space i and the columns of sub-space j (`EBVal`), FormSplitter / extract_blocks are
transcribed as coded (`SZ`, `EBNone`, `EBShape` with AsCoded = TRUE).  TLC checks for every linear
/ bilinear form of the bounded universes that the blocks partition the tensor, that block (i, j) is
zero outside its rows / columns and that the block structure is k x k' (bilinear) / k (linear); with
the as-coded constant it produces the counterexample (a linear form on a MixedElement gets a k x k
structure whose rows repeat the k blocks).

The sub-elements of a MixedElement carry <<physical, reference>> value sizes (VSub / USub): Lagrange
(equal), symmetric 2x2 tensor (4 / 3), covariant Piola vector on a triangle mesh immersed in 3D
(3 / 2).  The loop of FormSplitter.argument for replace_argument=False is transcribed (PosOff /
CntOff / KeptPos: the rebuilt vector grows by the physical size of every sub-element and keeps
obj[counter + d]); TLC checks SplitterKeepsOwn (the kept components are those of the requested
sub-function, i.e. the block is the one replace_argument=True builds) in every universe, and
exhibits the counterexample when the counter advances by the REFERENCE size (OffsetBy).

Interior facets (universes with sides = 2, spec constant Sides): the value vector of a side of the form is
that of the macro element of a facet -- the '+' traces of all components, then their '-' traces -- the
restrictions x('+') / x('-') are constructors (rp / rm: the value of x with every terminal replaced by
its trace on that side; of sub-functions, of whole mixed arguments, of compound expressions, of
coefficients, whose '-' trace is their value in the next coefficient environment), FormSplitter.restricted
is transcribed in SZ (the operand is split, a Zero stays, anything else is restricted to the side of the
visited node), and block (i, j) is the restriction of the facet tensor to both traces of sub-functions
i / j.  Interior facet integrals take integrands in which every Argument / Coefficient is restricted
exactly once, cell and exterior facet integrals integrands without restrictions; one form may mix them.

Binding: every printed (form, predicted blocks) is rebuilt with real ufl objects -- MixedElement
spaces with `split`, MixedFunctionSpace with TestFunctions / TrialFunctions -- and
`extract_blocks(form)`, `extract_blocks(form, i, j)`, `extract_blocks(form, i)` (each with both
settings of `replace_argument`) and `formsplitter.extract_blocks(form, arity=..)` are called.
Every returned block is assembled at a point on the arguments it may contain (new Arguments on the
sub-element spaces; the sub-space arguments of a MixedFunctionSpace -- any other argument in a
block is a dependence on a foreign sub-function; for MixedElement + replace_argument=False the
original flattened arguments at ALL their components, so that a block that picks a component of
another sub-function is observed), zero-padded into the full tensor and compared with the model's
block and with the restriction of the really assembled input; the padded blocks must sum to the
assembled input per integral key.
"""

from __future__ import annotations

import os

from .. import tlc
from ..common import MachineryError, main_wrapper
from ..scalar import Cx
from . import c16 as base
from .c16 import Finding, ForeignArgument, Slots, Uni, World, assemble, by_key, call, keyed_diff, pred_tab

PID = "C22"
KNOWN_LINEAR = "C22:linear-form-mixedelement-returns-kxk-duplicated-rows"


def facet_pre(*specs):
    """Initial nodes of an interior facet universe: 'x+' / 'x-' (the restrictions of node x), 'x+-' (x('+') - x('-'),
    the jump of x) and 'x++' (x('+') + x('-'), twice the average of x).  Returns (pre, names): the `pre` list of the
    universe and the name ('p1', 'p2', ...) of the node of every spec and of every restriction built on the way."""
    pre, names = [], {}

    def node(label, op, operands):
        if label not in names:
            pre.append((op, tuple(operands), ()))
            names[label] = f"p{len(pre)}"
        return names[label]

    for spec in specs:
        x = spec.rstrip("+-")
        kind = spec[len(x):]
        if kind in ("+", "-"):
            node(spec, "rp" if kind == "+" else "rm", (x,))
        elif kind in ("+-", "++"):
            node(spec, "sub" if kind == "+-" else "add", (node(x + "+", "rp", (x,)), node(x + "-", "rm", (x,))))
        else:
            raise MachineryError(f"facet_pre: {spec}")
    return pre, names


def facet_universes(tier):
    """Interior facet universes (sides = 2): restrictions and dS integrals."""
    q = tier == "quick"
    f, W2 = ("f", ()), ("W", (2,))
    EB = ("extract_blocks",)
    noacts = ("two", "w_u", "w_v", "w_u0", "w_u1", "w_u2", "w_v0", "w_v1", "w_v2")
    deep_ops = {"add", "sub", "mul", "neg", "inner", "dot", "index", "conj", "list", "var", "isum", "rp", "rm"}
    out = []

    def exhaustive(name, mixed, vsub, usub, usable, ops, **kw):
        # every term of <= 2 constructor calls over restricted sub-functions / coefficients, jumps and sums of the two traces
        pre, names = facet_pre(*usable)
        raw = ("v", "u", "f") + tuple(f"{s}{m}{k}" for s in "vu" for m in ("", "_") for k in range(3)) + tuple(f"{s}[{k}]" for s in "vu" for k in range(3))
        hidden = tuple(p for label, p in names.items() if label not in usable)
        out.append(Uni(name, mixed, vsub, usub, [f], ops, 2, EB, exclude=noacts + raw + hidden, pre=pre, sides=2, **kw))

    # MixedFunctionSpace: the jump of the first test sub-function, one trace of the second; the sum of the traces of the
    # second trial sub-function, one trace of the first; the jump of the coefficient
    exhaustive("ms-dS", "space", [(), ()], [(), ()], ("v0+-", "v1-", "u0+", "u1++", "f+-"), {"add", "mul"})
    if not q:
        exhaustive("me-dS", "element", [(), ()], [(), ()], ("v_0+-", "v_1-", "u_0+", "u_1++", "f+", "f-"), {"sub", "mul"})
        exhaustive("me-dS-rect", "element", [(), ()], [(), (), ()], ("v_0++", "v_1+", "v_1-", "u_0-", "u_1+-", "u_2+", "f-"), {"add", "mul"})
        exhaustive("ms-dS-lin", "space", [(), (), ()], None, ("v0+-", "v1++", "v2+", "v2-", "f+", "f-"), {"sub", "mul"})
    # sampled programs: the restrictions are constructors (of sub-functions, of whole mixed arguments, of compound
    # expressions), next to the restricted sub-functions; cell, exterior facet and interior facet integrals in one form
    def pieces(*names):
        return [n + sd for n in names for sd in ("+", "-")]

    kp = [(5, 6), (1, 5), (5, 2)]
    n1, n2, d = (200, 0, 5) if q else (800, 800, 6)
    pre, _ = facet_pre(*pieces(*("v_0", "v_1", "u_0", "u_1", "f", "W")))
    out.append(Uni("sample-me-dS" if q else "deep-me-dS", "element", [(), (2,)], [(), (2,)], [f, W2], deep_ops, 0, EB, keypairs=kp, exclude=noacts, pre=pre, sides=2, simulate=n1, depth=d))
    pre, _ = facet_pre(*pieces(*("v0", "v1", "u0", "u1", "f", "W")))
    if n2:
        out.append(Uni("deep-ms-dS", "space", [(), (2,)], [(2,), ()], [f, W2], deep_ops, 0, EB, keypairs=kp, exclude=noacts, pre=pre, sides=2, simulate=n2, depth=d))
    if not q:
        pre, _ = facet_pre(*pieces(*("v_0", "v_1", "v_2", "u_0", "u_1", "f", "X")))
        out.append(Uni("deep-me-dS-refsize", "element", [(), (2, 2), (2,)], [(3,), ()], [f, W2, ("X", (3,)), ("G", (2, 2))], deep_ops, 0, EB, keypairs=kp, vkinds=["P", "sym", "P"], ukinds=["curl", "P"], gdim=3,
                       exclude=noacts, pre=pre, sides=2, simulate=250, depth=5))
    return out


def universes(tier):
    return plain_universes(tier) + facet_universes(tier)


def plain_universes(tier):
    q = tier == "quick"
    f, W2, X3, G = ("f", ()), ("W", (2,)), ("X", (3,)), ("G", (2, 2))
    EB = ("extract_blocks",)
    noacts = ("two", "w_u", "w_v", "w_u0", "w_u1", "w_u2", "w_v0", "w_v1", "w_v2")
    T = (2, 2)  # with kind "sym": symmetric tensor sub-element, physical value size 4, reference value size 3
    # the rows of a matrix valued piece of split, and the flat components (of sub-element 0) that stay usable
    symrows = ("v_0r0", "v_0r1", "u_0r0", "u_0r1")
    deep_ops = {"add", "sub", "mul", "div", "neg", "inner", "dot", "index", "conj", "list"}
    out = [
        # MixedElement, 2 sub-elements (scalar, vector), same space on both sides
        Uni("me2", "element", [(), (2,)], [(), (2,)], [f, W2], {"add", "mul", "inner"}, 2, EB, exclude=noacts + ("v", "u", "v[1]", "v[2]", "u[1]", "u[2]")),
        # different mixed spaces on the two sides (2 x 3 sub-elements)
        Uni("me-rect", "element", [(), (2,)], [(), (), ()], [f], {"add", "mul"} if q else {"add", "mul", "index"}, 2, EB, exclude=noacts + ("v", "u")),
        # mixed test space, ordinary trial space
        Uni("me-plain", "element", [(), ()], [()], [f], {"add", "mul"}, 2, EB, exclude=noacts + ("v",), uplain=True),
        # MixedFunctionSpace of 2 spaces; different test / trial spaces (2 x 3), two integrals
        Uni("ms2", "space", [(), (2,)], [(), (2,)], [f, W2], {"add", "mul", "inner", "index"}, 2, EB, exclude=noacts),
        Uni("ms-rect", "space", [(), (2,)], [(2,), (), ()], [f], {"add", "mul", "index"}, 2, EB, keypairs=[(1, 2)], exclude=noacts),
    ]
    # Sub-elements whose reference value size differs from their physical value size, NOT in the last position (the
    # offsets of the later sub-functions in the flattened argument count physical components): symmetric 2x2 tensor
    # (4 / 3) and, on a triangle mesh immersed in 3D, covariant Piola mapped vector (3 / 2).
    if q:
        out += [
            # sampled: symmetric tensor in the middle of the test space, Piola vector first in the trial space (3 x 2 blocks)
            Uni("sample-me-refsize", "element", [(), T, (2,)], [(3,), ()], [f, W2, X3, G], deep_ops, 0, EB, keypairs=[(1, 2)], vkinds=["P", "sym", "P"], ukinds=["curl", "P"], gdim=3,
                exclude=noacts, simulate=200, depth=4, nenv=1),
        ]
    else:
        out += [
            # symmetric tensor first, same space on both sides; in the middle of 3; with an ordinary trial space
            Uni("me-sym", "element", [T, ()], [T, ()], [f, G], {"add", "mul", "inner"}, 2, EB, vkinds=["sym", "P"], ukinds=["sym", "P"],
                exclude=noacts + symrows + ("v", "u", "v[0]", "v[2]", "v[3]", "u[0]", "u[1]", "u[3]")),
            Uni("me-sym3", "element", [(), T, ()], [(), T, ()], [f, G], {"add", "mul", "inner"}, 2, EB, vkinds=["P", "sym", "P"], ukinds=["P", "sym", "P"], nenv=1,
                exclude=noacts + ("v_1r0", "v_1r1", "u_1r0", "u_1r1", "v", "u", "v[1]", "v[3]", "v[4]", "u[1]", "u[2]", "u[4]")),
            Uni("me-sym-plain", "element", [T, ()], [()], [f, G], {"add", "mul", "inner"}, 2, EB, vkinds=["sym", "P"], uplain=True,
                exclude=noacts + symrows + ("v", "v[0]", "v[3]")),
            # Piola mapped vector sub-element first, immersed mesh
            Uni("me-curl", "element", [(3,), ()], [(3,), ()], [f, X3], {"add", "mul", "inner"}, 2, EB, vkinds=["curl", "P"], ukinds=["curl", "P"], gdim=3,
                exclude=noacts + ("v", "u", "v[0]", "v[2]", "u[0]", "u[1]")),
            Uni("deep-me-sym", "element", [T, (2,), ()], [T, (2,), ()], [f, W2, G], deep_ops, 0, EB, keypairs=[(1, 2), (3, 4)], vkinds=["sym", "P", "P"], ukinds=["sym", "P", "P"], exclude=noacts, simulate=700, depth=5, nenv=1),
            Uni("deep-me-sym-rect", "element", [(), T, (2,)], [T, T, ()], [f, W2, G], deep_ops, 0, EB, keypairs=[(1, 2)], vkinds=["P", "sym", "P"], ukinds=["sym", "sym", "P"], exclude=noacts, simulate=500, depth=5, nenv=1),
            Uni("deep-me-curl", "element", [(3,), (), (3,)], [(), (3,), (3,)], [f, X3], deep_ops, 0, EB, keypairs=[(1, 2)], vkinds=["curl", "P", "P"], ukinds=["P", "curl", "curl"], gdim=3, exclude=noacts, simulate=500, depth=5, nenv=1),
            Uni("deep-me-refsize", "element", [(), T, (2,)], [(3,), ()], [f, W2, X3, G], deep_ops, 0, EB, keypairs=[(1, 2), (3, 4)], vkinds=["P", "sym", "P"], ukinds=["curl", "P"], gdim=3, exclude=noacts, simulate=700, depth=5, nenv=1),
        ]
    if q:
        # 3 sub-spaces, two integrals, deeper terms: sampled programs, purely bilinear / linear by
        # construction (drawn here with ctx.seed, validated and predicted by TLC)
        out += [
            Uni("sample-me", "element", [(), (2,)], [(), (2,)], [f, W2], deep_ops, 0, EB, keypairs=[(1, 2), (3, 4)], exclude=noacts, simulate=500, depth=4),
            Uni("sample-me3", "element", [(), (2,), ()], [(), (2,), ()], [f, W2], deep_ops, 0, EB, keypairs=[(1, 2)], exclude=noacts, simulate=400, depth=4),
            Uni("sample-ms3", "space", [(), (2,), ()], [(), (2,), ()], [f, W2], deep_ops, 0, EB, keypairs=[(1, 2)], exclude=noacts, simulate=400, depth=4),
        ]
    else:
        out += [
            # two integrals, whole mixed arguments and their components
            Uni("me2-int", "element", [(), (2,)], [(), (2,)], [f], {"add", "mul"}, 2, EB, keypairs=[(1, 2), (3, 4)], exclude=noacts + ("v_1", "u_1", "v[2]", "u[2]")),
            # 3 sub-spaces
            Uni("me3", "element", [(), (), (2,)], [(), (), (2,)], [f], {"add", "mul", "inner"}, 2, EB, exclude=noacts + ("v", "u", "v[2]", "v[3]", "u[2]", "u[3]")),
            Uni("ms3", "space", [(), (), (2,)], [(), (), (2,)], [f], {"add", "mul", "inner"}, 2, EB, exclude=noacts),
        ]
    if not q:
        out += [
            Uni("me2-3", "element", [(), ()], [(), ()], [f], {"add", "mul"}, 3, EB, exclude=noacts + ("v", "u")),
            Uni("ms2-3", "space", [(), ()], [(), ()], [f], {"add", "mul"}, 3, EB, exclude=noacts),
            # sampled deeper programs, purely bilinear / linear by construction (drawn here with
            # ctx.seed, validated and predicted by TLC)
            Uni("deep-me", "element", [(), (2,)], [(), (2,)], [f, W2], deep_ops, 0, EB, keypairs=[(1, 2), (3, 4)], exclude=noacts, simulate=3500, depth=6),
            Uni("deep-me-b", "element", [(2,), ()], [(2,), ()], [f, W2], deep_ops, 0, EB, keypairs=[(1, 2), (1, 1)], exclude=noacts, simulate=3500, depth=6),
            Uni("deep-me3", "element", [(), (2,), ()], [(), (2,), ()], [f, W2], deep_ops, 0, EB, keypairs=[(1, 2)], exclude=noacts, simulate=3000, depth=5),
            Uni("deep-me-rect", "element", [(), (2,)], [(), (), (2,)], [f, W2], deep_ops, 0, EB, keypairs=[(1, 2)], exclude=noacts, simulate=2000, depth=5),
            Uni("deep-ms", "space", [(), (2,)], [(), (2,)], [f, W2], deep_ops, 0, EB, keypairs=[(1, 2), (3, 4)], exclude=noacts, simulate=3500, depth=6),
            Uni("deep-ms-b", "space", [(2,), ()], [(2,), ()], [f, W2], deep_ops, 0, EB, keypairs=[(1, 2), (1, 1)], exclude=noacts, simulate=3500, depth=6),
            Uni("deep-ms3", "space", [(), (2,), ()], [(), (2,), ()], [f, W2], deep_ops, 0, EB, keypairs=[(1, 2)], exclude=noacts, simulate=3000, depth=5),
            Uni("deep-ms-rect", "space", [(), (2,)], [(2,), (), ()], [f, W2], deep_ops, 0, EB, keypairs=[(1, 2)], exclude=noacts, simulate=2000, depth=5),
        ]
    return out


# --------------------------------------------------------------------------------------------


def part_slots(w, num, p):
    """global slot numbers (1-based) of sub-space p (0-based) of side num"""
    uni = w.uni
    parts = uni.vpart if num == 0 else uni.upart
    return [s + 1 for s, q in enumerate(parts) if q == p + 1]


def block_slots(w, i, j, replaced=True):
    """Slots of the arguments block (i, j) is allowed to contain, and the map local slot -> global
    slot.  MixedElement with replace_argument: new Arguments on the sub-element spaces;
    MixedFunctionSpace: the original arguments of sub-spaces (i, j) (every other argument is
    foreign); MixedElement with replace_argument=False: the original (flattened) arguments with
    ALL their components, so that a dependence on a component of another sub-function is
    observed."""
    import ufl

    uni = w.uni
    gi = part_slots(w, 0, i)
    gj = part_slots(w, 1, j) if j is not None else []
    if uni.mixed == "element" and not replaced:
        gi = list(range(1, uni.nv + 1))
        gj = list(range(1, uni.nu + 1)) if j is not None else []
        return Slots(w.vslots, w.uslots if j is not None else []), gi, gj
    if uni.mixed == "element":
        # on an interior facet: the '+' traces of the components, then their '-' traces (the order of part_slots)
        sides = [(sd,) for sd in base.SIDE_NAMES] if uni.sides == 2 else [()]
        a = ufl.Argument(w.subspaces[0][i], 0, None)
        rows = [(a, c) + sd for sd in sides for c in base.comps(uni.vsub[i])]
        if j is None:
            cols = []
        elif uni.uplain:
            cols = list(w.uslots)
        else:
            b = ufl.Argument(w.subspaces[1][j], 1, None)
            cols = [(b, c) + sd for sd in sides for c in base.comps(uni.usub[j])]
    else:
        rows = [w.vslots[s - 1] for s in gi]
        cols = [w.uslots[s - 1] for s in gj]
    return Slots(rows, cols), gi, gj


def pad(tabs, gi, gj, nenv, nr, nc):
    """{key: local table} -> {key: full table}; rows / columns outside the block carry the value at
    the zero vector (the block does not depend on them)"""
    li = {g: k + 1 for k, g in enumerate(gi)}
    lj = {g: k + 1 for k, g in enumerate(gj)}
    out = {}
    for key, t in tabs.items():
        out[key] = [[[t[e][li.get(i, 0)][lj.get(j, 0)] for j in range(nc + 1)] for i in range(nr + 1)] for e in range(nenv)]
    return out


def restrict(Freal, gi, gj, nr, nc):
    """the restriction of the assembled input to rows gi / columns gj (other slots -> zero vector)"""
    si, sj = set(gi), set(gj)
    return {k: [[[g[i if i in si else 0][j if j in sj else 0] for j in range(nc + 1)] for i in range(nr + 1)] for g in t] for k, t in Freal.items()}


def sym_pairs(uni):
    """per side, the pairs of (1-based) slots that carry the components (0, 1) / (1, 0) of a symmetric
    tensor sub-function"""
    out = []
    for subs, kinds, half in ((uni.vsub, uni.vkinds, uni.nvh), (uni.usub or [], uni.ukinds, uni.nuh)):
        pairs, off = [], 0
        for sh, k in zip(subs, kinds):
            if k == "sym":
                pairs += [(sd * half + off + 2, sd * half + off + 3) for sd in range(uni.sides)]  # flat components 1 = (0, 1) and 2 = (1, 0), on every side
            off += Uni._size(sh)
        out.append(pairs)
    return out


def after_refsize(uni, num, p):
    """sub-element p (0-based) of side num of a MixedElement space comes after a sub-element whose
    reference value size differs from its physical value size"""
    sz = uni.vsubsz if num == 0 else uni.usubsz
    return any(a != b for a, b in sz[:p])


def refsize_universe(uni):
    return any(after_refsize(uni, num, len(sz)) for num, sz in ((0, uni.vsubsz), (1, uni.usubsz)))


def _plus(x, y, z):
    return None if x is None or y is None or z is None else x + y - z


def on_symmetric_values(tabs, uni):
    """The values of a symmetric tensor sub-function are symmetric: instead of the unit tensors
    E01 and E10 the tables are compared at E01 + E10 (rows / columns s, t of the pair both become
    the value at e_s + e_t, computed from the multi-affine table)."""
    vp, up = sym_pairs(uni)
    if not vp and not up:
        return tabs
    out = {}
    for key, t in tabs.items():
        new = []
        for g in t:
            g = [list(r) for r in g]
            for s1, s2 in vp:
                both = [_plus(a, b, z) for a, b, z in zip(g[s1], g[s2], g[0])]
                g[s1], g[s2] = both, list(both)
            for t1, t2 in up:
                if len(g[0]) > t2:
                    for r in g:
                        r[t1] = r[t2] = _plus(r[t1], r[t2], r[0])
            new.append(g)
        out[key] = new
    return out


def outside_diff(full, want, gi, gj, arity):
    """first entry in a row / column of ANOTHER sub-function where the block differs from its
    restriction (there the restriction of a purely linear / bilinear form vanishes)"""
    si, sj = set(gi) | {0}, set(gj) | {0}
    for key in sorted(set(full) | set(want), key=repr):
        a, b = full.get(key), want.get(key)
        for e, g in enumerate(a if a is not None else b):
            for r, row in enumerate(g):
                for c, x in enumerate(row):
                    if r in si and (arity == 1 or c in sj):
                        continue
                    xa = Cx(0) if a is None else a[e][r][c]
                    xb = Cx(0) if b is None else b[e][r][c]
                    if xa is None or xb is None or base.close(xa, xb):
                        continue
                    return (key, e, r, c, str(xa), str(xb))
    return None


def add_keyed(a, b):
    out = dict(a)
    for k, t in b.items():
        out[k] = base._add_tabs(out[k], t, False) if k in out else t
    return out


def both_traces(uni, rec):
    """(the form has an interior facet integral, some integrand contains BOTH restrictions x('+') and x('-') of one
    expression x)"""
    nodes = [(op, tuple(a)) for op, a, _ in uni.prelude] + [(n["op"], tuple(n["args"])) for n in rec["prog"]]
    facet = both = False
    for it in rec["ints"]:
        if it["key"] not in base.FACET_KEYS:
            continue
        facet = True
        seen, stack, sides = set(), [it["root"]], {}
        while stack:
            i = stack.pop()
            if i in seen or i <= uni.ninit - len(uni.prelude):
                continue
            seen.add(i)
            op, a = nodes[i - (uni.ninit - len(uni.prelude)) - 1]
            if op in ("rp", "rm"):
                sides.setdefault(a[0], set()).add(op)
            stack.extend(a)
        both = both or any(len(v) == 2 for v in sides.values())
    return facet, both


def facet_sfx(d):
    """the first difference lies in an interior facet integral"""
    return ":interior-facet" if d and isinstance(d[0], tuple) and d[0][0] == "interior_facet" else ""


def is_empty(x):
    return x is None or (hasattr(x, "empty") and x.empty())


def structure(R):
    """('matrix', rows, cols) | ('vector', n) | ('other', description) of what extract_blocks returned"""
    if not isinstance(R, (tuple, list)):
        return ("other", type(R).__name__)
    if all(isinstance(r, (tuple, list)) for r in R) and len(R) > 0:
        lens = {len(r) for r in R}
        if len(lens) == 1:
            return ("matrix", len(R), lens.pop())
        return ("other", "ragged")
    if all(not isinstance(r, (tuple, list)) for r in R):
        return ("vector", len(R))
    return ("other", "mixed nesting")


def check_record(w, rec, corrupt=False):
    uni = w.uni
    from ufl import extract_blocks
    from ufl.algorithms.formsplitter import extract_blocks as extract_blocks_alg  # also takes `arity`

    findings = []
    st = {}

    def cnt(k, n=1):
        st[k] = st.get(k, 0) + n

    nenv, nr, nc = uni.nenv, uni.nv, uni.nu
    fm = w.form(rec)
    F, keys = fm["F"], fm["keys"]
    slots = Slots(w.vslots, w.uslots)
    if "Ftab" not in fm:
        fm["Ftab"] = assemble(F, w.envs, slots, senvs=w.senvs)
    Freal = fm["Ftab"]
    Fpred = by_key(keys, [pred_tab(t) for t in rec["F"]], nenv, nr, nc)
    if corrupt == "input":
        k0 = next(iter(Fpred))
        Fpred[k0][0][0][0] = (Fpred[k0][0][0][0] or Cx(0)) + Cx(1)
    d = keyed_diff(Freal, Fpred, nenv, nr, nc)
    cnt("evaluations", sum(len(g) * len(g[0]) for t in Freal.values() for g in t))
    if d is not None:
        findings.append(Finding("binding", f"{PID}:binding:input-table", f"input form {w.text(rec)}: real table differs from the model's at {d}"))
        return findings, st
    if all(x is None for t in Freal.values() for g in t for r in g for x in r):
        cnt("undefined_skipped")
        return findings, st
    arity = rec["arity"]
    kind = base.space_kind(uni)
    text = w.text(rec)
    if uni.sides == 2:
        facet, both = both_traces(uni, rec)
        cnt("forms_with_interior_facet_integrals", int(facet))
        cnt("forms_with_both_traces_of_one_expression_in_an_integrand", int(both))
    rows, cols = rec["shape"]
    lin = "linear" if arity == 1 else "bilinear"

    def viol(fp, what, label):
        findings.append(Finding("violation", fp, what, {"label": label}))

    def sfx(replaced):
        return "" if replaced else ":replace_argument=False"

    def opt(replaced):
        return "" if replaced else ", replace_argument=False"

    def block_table(blk, i, j, replaced, label):
        """full-size table of one returned block, or None after reporting"""
        jj = j if arity == 2 else None
        bs, gi, gj = block_slots(w, i, jj, replaced)
        if is_empty(blk):
            return {}
        try:
            loc = assemble(blk, w.envs, bs, senvs=w.senvs)
        except ForeignArgument as e:
            viol(f"{PID}:{lin}:{kind}:block-contains-foreign-argument" + sfx(replaced),
                 f"{label} of {text}: block ({i}, {jj}) depends on an argument outside sub-spaces ({i}, {jj}): {e}", label)
            return None
        cnt("evaluations", sum(len(g) * len(g[0]) for t in loc.values() for g in t))
        return pad(loc, gi, gj, nenv, nr, nc)

    def predicted(i, j):
        ptabs = [pred_tab(t) for t in rec["blocks"][i][j if arity == 2 else 0]]
        if corrupt == "output" and i == 0 and j == 0:
            ptabs[0][0][0][0] = (ptabs[0][0][0][0] or Cx(0)) + Cx(1)
        return by_key(keys, ptabs, nenv, nr, nc)

    def compare_block(full, i, j, label, replaced=True):
        if full is None:
            return
        jj = j if arity == 2 else None
        full = on_symmetric_values(full, uni)
        d1 = keyed_diff(full, on_symmetric_values(predicted(i, j), uni), nenv, nr, nc)
        if d1 is not None and corrupt:
            findings.append(Finding("conformance", f"{PID}:conformance:block", f"{label} of {text}: block ({i}, {jj}) differs from the model's at {d1}", {"label": label}))
            return
        gi, gj = part_slots(w, 0, i), (part_slots(w, 1, j) if arity == 2 else [])
        want = on_symmetric_values(restrict(Freal, gi, gj, nr, nc), uni)
        d2 = keyed_diff(full, want, nenv, nr, nc)
        cnt("block_comparisons")
        if d2 is not None:
            d3 = outside_diff(full, want, gi, gj, arity)
            if d3 is not None:
                viol(f"{PID}:{lin}:{kind}:block-depends-on-another-sub-function" + facet_sfx(d3) + sfx(replaced),
                     f"{label} of {text}: block ({i}, {jj}) depends on a component of another sub-function at (key, env, row, col, real, required) = {d3}", label)
            else:
                viol(f"{PID}:{lin}:{kind}:block-is-not-the-restriction" + facet_sfx(d2) + sfx(replaced),
                     f"{label} of {text}: block ({i}, {jj}) is not the restriction of the form to sub-spaces ({i}, {jj}) at (key, env, row, col, real, required) = {d2}", label)
        elif d1 is not None:
            findings.append(Finding("conformance", f"{PID}:conformance:block", f"{label} of {text}: block ({i}, {jj}) differs from the model's at {d1}", {"label": label}))

    # ---- extract_blocks(form): the whole structure ------------------------------------------------
    judged = {}  # replace_argument -> grid of the blocks of extract_blocks(F) that have been judged

    def single(B, i, j, label, replaced):
        """judge one separately requested block (a block equal to the judged one of the whole structure has its verdict)"""
        g = judged.get(replaced)
        if g is not None and not corrupt and _same(B, g[i][j]):
            cnt("single_blocks_equal_to_judged_block")
            return
        compare_block(block_table(B, i, j, replaced, label), i, j, label, replaced)

    def judge_whole(R, label, replaced):
        sreal = structure(R)
        want = ("matrix", rows, cols) if cols > 0 else ("vector", rows)
        grid = None
        if sreal == want:
            grid = [[R[i][j] for j in range(cols)] for i in range(rows)] if cols > 0 else [[R[i]] for i in range(rows)]
        elif uni.mixed == "element" and arity == 1 and sreal == ("matrix", rows, rows) and all(_same(R[i][j], R[i][0]) for i in range(rows) for j in range(rows)):
            viol(KNOWN_LINEAR, f"{label} of the linear form {text} returned a {rows}x{rows} tuple whose row i repeats block i {rows} times instead of {rows} blocks", label)
            grid = [[R[i][0]] for i in range(rows)]
        elif uni.mixed == "element" and arity == 2 and uni.uplain and sreal == ("matrix", rows, rows):
            viol(f"{PID}:bilinear-mixedelement-test-ordinary-trial-space-returns-kxk-duplicated-columns",
                 f"{label} of {text} (mixed test space with {rows} sub-elements, ordinary trial space) returned a {rows}x{rows} tuple instead of {rows}x1 blocks", label)
            grid = [[R[i][0]] for i in range(rows)]
        elif uni.mixed == "element" and arity == 2 and sreal == ("matrix", rows, rows) and rows != cols:
            viol(f"{PID}:bilinear-mixedelement-block-columns-counted-from-test-space",
                 f"{label} of {text} (test space with {rows}, trial space with {cols} sub-elements) returned a {rows}x{rows} tuple instead of {rows}x{cols} blocks", label)
            return
        else:
            viol(f"{PID}:{lin}:{kind}:structure", f"{label} of {text} returned structure {sreal}, the form has {want}", label)
            return
        judged.setdefault(replaced, grid)
        total = {}
        ok = True
        for i in range(rows):
            for j in range(max(cols, 1)):
                if not replaced and not is_empty(grid[i][j]) and (after_refsize(uni, 0, i) or (arity == 2 and after_refsize(uni, 1, j))):
                    # the kept components of this block lie behind a sub-element whose reference and physical value sizes differ
                    cnt("kept_argument_blocks_behind_a_sub_element_with_other_reference_size")
                full = block_table(grid[i][j], i, j, replaced, label)
                if full is None:
                    ok = False
                    continue
                compare_block(full, i, j, label, replaced)
                total = add_keyed(total, full)
        if ok:
            cnt("partition_sums")
            d = keyed_diff(on_symmetric_values(total, uni), on_symmetric_values(Freal, uni), nenv, nr, nc)
            if d is not None:
                viol(f"{PID}:{lin}:{kind}:blocks-do-not-sum-to-the-form" + facet_sfx(d) + sfx(replaced),
                     f"{label} of {text}: the zero-padded blocks do not sum to the assembled form at (key, env, row, col, sum, form) = {d}", label)

    def same_result(A, B):
        """two results of extract_blocks are the same nested tuples of equal forms"""
        if isinstance(A, (tuple, list)) or isinstance(B, (tuple, list)):
            return isinstance(A, (tuple, list)) and isinstance(B, (tuple, list)) and len(A) == len(B) and all(same_result(a, b) for a, b in zip(A, B))
        return _same(A, B)

    for replaced in (True, False):
        label = f"extract_blocks(F{opt(replaced)})"
        status, R = call(lambda: extract_blocks(F, replace_argument=replaced))
        if status == "raise":
            viol(f"{PID}:{lin}:{kind}:refuses:{type(R).__name__}", f"{label} of {text} raised {type(R).__name__}: {R}", label)
            continue
        judge_whole(R, label, replaced)
        if not replaced:
            continue
        # the documented option `arity` (set to the arity of the form): the same answer, or one that is judged as well
        label = f"formsplitter.extract_blocks(F, arity={arity})"
        status, R2 = call(lambda: extract_blocks_alg(F, arity=arity))
        if status == "raise":
            viol(f"{PID}:{lin}:{kind}:refuses-explicit-arity:{type(R2).__name__}", f"{label} of {text} raised {type(R2).__name__}: {R2}", label)
        elif same_result(R2, R):
            cnt("explicit_arity_same_result")
        else:
            cnt("explicit_arity_other_result")
            judge_whole(R2, label, replaced)
    # ---- single blocks and rows ---------------------------------------------------------------------
    for replaced in (True, False):
        for i in range(rows):
            if arity == 2:
                for j in range(cols):
                    label = f"extract_blocks(F, {i}, {j}{opt(replaced)})"
                    status, B = call(lambda: extract_blocks(F, i, j, replace_argument=replaced))
                    if status == "raise":
                        viol(f"{PID}:{lin}:{kind}:single-block-refuses:{type(B).__name__}", f"{label} of {text} raised {type(B).__name__}: {B}", label)
                        continue
                    single(B, i, j, label, replaced)
                label = f"extract_blocks(F, {i}{opt(replaced)})"
                status, B = call(lambda: extract_blocks(F, i, replace_argument=replaced))
                if status == "raise":
                    viol(f"{PID}:{lin}:{kind}:row-request-refuses:{type(B).__name__}", f"{label} of {text} raised {type(B).__name__}: {B}", label)
                elif isinstance(B, (tuple, list)) and len(B) == cols:
                    for j in range(cols):
                        single(B[j], i, j, label, replaced)
                elif cols == 1 and not isinstance(B, (tuple, list)) and not is_empty(B):
                    # a row of one block, returned as the block itself
                    single(B, i, 0, label, replaced)
                else:
                    rowtab = restrict(Freal, part_slots(w, 0, i), list(range(1, nc + 1)), nr, nc)
                    nonzero = keyed_diff(rowtab, {}, nenv, nr, nc) is not None
                    if uni.mixed == "element" and is_empty(B):
                        if nonzero:
                            viol(f"{PID}:bilinear-mixedelement-row-request-returns-empty-form",
                                 f"{label} of {text} returned an empty form instead of row {i} of the blocks (documented: 'If j is None, return the ith row')", label)
                    else:
                        viol(f"{PID}:{lin}:{kind}:row-request-structure", f"{label} of {text} returned {type(B).__name__}, expected the {cols} blocks of row {i}", label)
            else:
                label = f"extract_blocks(F, {i}{opt(replaced)})"
                status, B = call(lambda: extract_blocks(F, i, replace_argument=replaced))
                if status == "raise":
                    viol(f"{PID}:{lin}:{kind}:single-block-refuses:{type(B).__name__}", f"{label} of {text} raised {type(B).__name__}: {B}", label)
                    continue
                single(B, i, 0, label, replaced)
    viol_labels = {f.extra.get("label") for f in findings if f.kind == "violation"}
    findings = [f for f in findings if not (f.kind == "conformance" and f.extra.get("label") in viol_labels)]
    return findings, st


def nontrivial(rec):
    """the form has a non-zero tensor entry"""
    return any(c[0][1] != 0 and (c[0][0] != 0 or c[1][0] != 0) for t in rec["F"] for g in t for row in g for c in row)


def _same(a, b):
    if is_empty(a) or is_empty(b):
        return is_empty(a) and is_empty(b)
    return a.equals(b)


# --------------------------------------------------------------------------------------------


def run(ctx, args):
    ctx.rule = (
        "TLC enumerates every purely bilinear / purely linear integrand of each bounded universe of spec/Parts.tla over the "
        "sub-functions of MixedElement spaces (ufl.split) and MixedFunctionSpaces with 2-3 sub-spaces (scalar and vector; MixedElement "
        "spaces also with symmetric 2x2 tensor sub-elements and, on a triangle mesh immersed in 3D, covariant Piola mapped vector "
        "sub-elements -- reference value size 3 / 2, physical value size 4 / 3 -- in first and middle position), one or "
        "two integrals (thorough tier additionally programs of up to 6 constructor calls drawn with the run's seed and validated by "
        "TLC), and over the traces on the two sides of an interior facet (restrictions x('+') / x('-') of sub-functions, whole mixed "
        "arguments, coefficients and compound expressions, jumps and sums of the two traces; dS integrals alone and next to dx / ds "
        "integrals), with the predicted blocks; each form is rebuilt with real ufl objects and extract_blocks(form), (form, i, j), (form, i) "
        "are called with both settings of replace_argument, formsplitter.extract_blocks(form, arity=..) with the form's arity; every returned block is assembled at every unit-vector point on its own "
        "sub-space arguments in 2 coefficient environments; a case is one form; non-trivial = the form has a non-zero block; "
        "distinct = distinct (universe, program, integrals)"
    )
    ctx.assume("assembly at a point: Arguments are real valued terminals; the value vector of a mixed space is the concatenation of the sub-function values; per (integral type, subdomain id); vf/sem.py reads real expressions and is compared with TLC's table of every input form")
    ctx.assume("forms: purely bilinear (every monomial of degree (1,1)) or purely linear (degree (1,0)); cell, exterior facet and interior facet integrals, no derivatives; interior facet integrands have every Argument and Coefficient below exactly one restriction (ufl requires restricted Arguments there and refuses nested restrictions), the other integrands have no restriction")
    ctx.assume("assembly on an interior facet: the rows / columns are the '+' traces of all components followed by their '-' traces; at a slot the trace of the argument on the slot's side is the unit vector, its trace on the other side zero (vf/sem.py passes the side to the terminals); the two traces of a coefficient are independent values (the '-' trace = its value in the next environment); block (i, j) contains both traces of sub-functions i / j")
    ctx.assume("sub-elements with a non-identity pull back: the value vector of the sub-function is its PHYSICAL value (ufl.split and the flattened mixed argument have one component per physical component); blocks on a symmetric tensor sub-function are compared at symmetric values only (E01 + E10 instead of E01 and E10); a separately requested block that equals (Form.equals) the judged block of extract_blocks(form) shares its verdict")
    ctx.assume("a block that is None or an empty form counts as zero; a returned block may only contain the Arguments of its own sub-spaces (MixedElement + replace_argument: Arguments on FunctionSpace(mesh, sub_element); MixedFunctionSpace: the original arguments of the block's sub-spaces; MixedElement with replace_argument=False: the original flattened arguments, assembled at ALL their components, the block must vanish on the components of the other sub-functions)")
    ctx.assume("expected structure: extract_blocks(form) -> k x k' nested tuple for bilinear forms (k, k' sub-spaces of the test / trial space), k-tuple for linear forms; extract_blocks(form, i) of a bilinear form -> row i (docstring of ufl.algorithms.formsplitter.extract_blocks)")
    ctx.assume("mixed test space with an ordinary trial space counts as a form on a mixed space (k x 1 blocks); ordinary test space with a mixed trial space is not generated (extract_blocks documents that it returns the form itself)")
    if args.selftest:
        return selftest(ctx)
    only = os.environ.get("VERIF_UNIVERSES")
    unis = [u for u in universes(ctx.tier) if not only or u.name in only.split(",")]
    if not only:
        from concurrent.futures import ThreadPoolExecutor

        f = ("f", ())
        with ThreadPoolExecutor(2) as ex:
            futs = [
                ex.submit(base.as_coded_counterexample, ctx, Uni("me-ascoded", "element", [(), ()], None, [f], {"mul"}, 1, ("extract_blocks",), exclude=("two", "w_v")), "BlocksShape", pid=PID),
                # the model of FormSplitter.argument (replace_argument=False) with the offset advanced by the REFERENCE value
                # size: the block after a symmetric tensor sub-element takes a component of the tensor
                ex.submit(base.as_coded_counterexample, ctx, Uni("me-refoffset", "element", [(2, 2), ()], None, [f], {"mul"}, 1, ("extract_blocks",), vkinds=["sym", "P"],
                                                                 exclude=("two", "w_v", "v", "v_0", "v_0r0", "v_0r1", "v[0]", "v[1]", "v[2]")), "SplitterKeepsOwn", pid=PID, ascoded=False, offset_by="reference"),
            ]
            for fu in futs:
                fu.result()
    base.run_universes(ctx, __name__, unis, pid=PID)
    if any(u.sides == 2 for u in unis) and not ctx.cov.get("forms_with_both_traces_of_one_expression_in_an_integrand"):
        raise MachineryError("vacuous: no form with both restrictions of one expression in an interior facet integrand was judged")
    if any(refsize_universe(u) for u in unis) and not ctx.cov.get("kept_argument_blocks_behind_a_sub_element_with_other_reference_size"):
        raise MachineryError("vacuous: no non-empty replace_argument=False block behind a sub-element whose reference and physical value sizes differ was judged")


def selftest(ctx):
    uni = Uni("selftest", "space", [(), ()], [(), ()], [("f", ())], {"add", "mul"}, 2, ("extract_blocks",), exclude=("two", "w_u0", "w_u1"))
    for corrupt in ("input", "output"):
        coefval, res = base.run_tlc(uni, ctx.seed)
        tlc.require_ok(res, "selftest")
        recs = tlc.decode_prints(res)[:150]
        results, stats = base.replay_records(ctx, __name__, uni, coefval, recs, corrupt, procs=1)
        rejected = sum(1 for _, fs in results if any(f.kind in ("binding", "conformance") for f in fs))
        print(f"selftest: corrupted one predicted {corrupt} table entry per behaviour: {rejected}/{len(results)} rejected", flush=True)
        if rejected < len(results):
            raise MachineryError(f"selftest: corrupted {corrupt} tables were accepted")
    print("selftest ok", flush=True)


def replay(ctx, doc):
    r = doc["replay"]
    uni = Uni.from_json(r["uni"])
    w = World(uni, base.coefval_from_json(r["coefval"]))
    fs, _ = check_record(w, r["rec"])
    print(f"replay {PID}: extract_blocks({w.text(r['rec'])})")
    for f in fs:
        print(f"  {f.kind}: {f.what} [{f.fp}]")
        if f.kind == "violation":
            ctx.violation(f.fp, f.what, r)
    if not fs:
        print("  no disagreement")


def main(argv=None):
    main_wrapper(PID, run, argv)
