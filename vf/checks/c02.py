"""C02 — Gateaux derivatives are the true directional derivatives.

Semantics (spec/UFLBuild.tla over spec/jets/CQ.tla): the coefficient w is seeded as w + s v (and,
for second derivatives, + t v2); the value of derivative(F, w, v) is BY DEFINITION the s-coefficient
of F's truncated Taylor series — no differentiation rule appears in the specification.  grad(w) is
an independent data terminal seeded with grad(v).  The replay builds derivative(F, w, v) with the
public API, runs expand_derivatives and evaluates the result.
"""

from __future__ import annotations

import os

from ..builder import LIT, Slice, replay_doc, run_slices
from ..common import main_wrapper

W, DV, DV2 = ("w", ()), ("dv", ()), ("dv2", ())
F, G = ("f", ()), ("g", ())
U, DU = ("u", (2,)), ("du", (2,))
GW, GDV = ("gw", (2,)), ("gdv", (2,))
GU, GDU = ("gu", (2, 2)), ("gdu", (2, 2))
FIN = {"expand_derivatives"}

E1 = {"mul", "add", "sub", "div", "pow", "abs", "sqrt", "neg", "index", "dot", "inner", "outer", "list", "cond", "lt", "max", "min", "sign", "variable", "as_tensor", "conj", "real"}


MATH = {"exp", "ln", "sin", "cos", "tan", "sinh", "cosh", "tanh", "asin", "atan"}


def slices(tier):
    q = tier == "quick"
    kw = dict(finalops=FIN, only_final=True, nenv=1)
    scalar = dict(mode="gateaux", seeds={"w": ("dv", "dv2"), "gw": ("gdv", None)}, opts={"dv": {"kind": "arg0"}, "gw": {"grad_of": "w"}, "gdv": {"grad_of": "dv"}}, gateaux=[("w", "dv"), ("w", "dv2")])
    vector = dict(mode="gateaux", seeds={"u": ("du", None), "gu": ("gdu", None)}, opts={"du": {"kind": "arg0"}, "gu": {"grad_of": "u"}, "gdu": {"grad_of": "du"}}, gateaux=[("u", "du")])
    comp = dict(mode="gateaux", seeds={"u": (("comp", (1,), "dv"), None)}, opts={"dv": {"kind": "arg0"}}, gateaux=[(("comp", (1,), "u"), "dv")])
    userd = dict(mode="gateaux", seeds={"w": ("dv", None), "f": (("prod", "g", "dv"), None)}, opts={"dv": {"kind": "arg0"}}, gateaux=[("w", "dv", {"f": "g"})])
    # f depends on w through a user-supplied derivative df/dw = g; then grad(f) is perturbed by grad(g dv)
    userdg = dict(mode="gateaux", seeds={"w": ("dv", None), "f": (("prod", "g", "dv"), None), "gf": (("dprod", "g", "gdv", "dv", "gg"), None)},
                  opts={"dv": {"kind": "arg0"}, "gf": {"grad_of": "f"}, "gg": {"grad_of": "g"}, "gdv": {"grad_of": "dv"}}, gateaux=[("w", "dv", {"f": "g"})])
    # two derivatives with the same coefficient and direction but DIFFERENT user-supplied relations in
    # one expansion: the s-variable carries df/dw = g, the t-variable df/dw = h
    userd2 = dict(mode="gateaux", seeds={"w": ("dv", "dv"), "f": (("prod", "g", "dv"), ("prod", "h", "dv"))}, opts={"dv": {"kind": "arg0"}}, gateaux=[("w", "dv", {"f": "g"}), ("w", "dv", {"f": "h"})])
    mathj = dict(mode="gateaux", seeds={"w": ("dv", None), "w1": (None, "dv")}, opts={"dv": {"kind": "arg0"}}, gateaux=[("w", "dv"), ("w1", "dv")])
    # a fixed component of a rank-2 coefficient, and a tuple of two components with two directions
    AT = ("A", (2, 2))
    comp2 = dict(mode="gateaux", seeds={"A": (("comp", (0, 1), "dv"), None)}, opts={"dv": {"kind": "arg0"}}, gateaux=[(("comp", (0, 1), "A"), "dv")])
    tup2 = dict(mode="gateaux", seeds={"A": (("comps", [((0, 1), "dv"), ((1, 0), "dq")]), None)}, opts={}, gateaux=[(("tuple", [("comp", (0, 1), "A"), ("comp", (1, 0), "A")]), ["dv", "dq"])])
    A1 = {"mul", "add", "div", "pow", "abs", "sqrt", "neg", "max", "sign"}
    A2 = {"mul", "add", "sub", "div", "pow", "cond", "lt", "max", "min"}
    G1 = {"gateaux1"}
    out = [
        # [expression over w and grad w, derivative, expand]
        Slice("s1", [W, DV, DV2, F, GW, GDV], A1, 3, lits=[LIT["two"], LIT["half"]], idx=(10,), jets=scalar, levels=[A1 | A2 | {"index", "dot", "inner"}, G1, FIN], mikinds=("name", "fixed"), **kw),
        Slice("s-second", [W, DV, DV2, F], A1, 4, lits=[LIT["two"]], jets=scalar, levels=[{"mul", "pow", "div", "add", "sqrt"}, G1, {"gateaux2"}, FIN], **kw),
        Slice("v1", [U, DU, F, GU, GDU], E1, 3, idx=(10,), lits=[LIT["two"]], jets=vector, levels=[{"index", "dot", "inner", "outer", "mul", "list", "neg", "tr", "transpose", "pow"}, G1, FIN], mikinds=("name", "fixed"), **kw),
        Slice("v2", [U, DU, F, GU, GDU], E1, 4, idx=(10,), jets=vector, levels=[{"index", "dot", "inner", "tr"}, {"mul", "add", "div", "pow", "abs"}, G1, FIN], mikinds=("fixed",), **kw),
        Slice("comp", [U, DV, F], E1, 4, idx=(10,), jets=comp, levels=[{"index", "dot", "mul", "inner"}, {"mul", "add", "pow", "div", "index"}, G1, FIN], mikinds=("name", "fixed"), **kw),
        Slice("userd-grad", [W, DV, F, G, ("gf", (2,)), ("gg", (2,)), GDV], A1, 4, idx=(10,), jets=userdg, levels=[{"index", "dot"}, {"mul", "add"}, G1, FIN], mikinds=("fixed",), chain="strict", **kw),
        Slice("userd-two", [W, DV, F, G, ("h", ())], A1, 4, jets=userd2, levels=[G1, {"gateaux2"}, {"add", "mul"}, FIN], chain=True, **kw),
        Slice("comp2", [AT, DV, F], E1, 4, idx=(10,), jets=comp2, levels=[{"index", "tr", "det", "inner", "dot"}, {"mul", "add", "pow", "index"}, G1, FIN], mikinds=("fixed",), chain=True, **kw),
        Slice("tuple2", [AT, DV, ("dq", ()), F], E1, 4, idx=(10,), jets=tup2, levels=[{"index", "tr", "det", "inner"}, {"mul", "add", "pow", "index"}, G1, FIN], mikinds=("fixed",), chain=True, **kw),
        # Gateaux derivative through exp, ln, sin, ...: w vanishes at the point (w1 is 1 there)
        Slice("math", [W, ("w1", ()), DV, F], MATH | {"mul", "add", "atan2"}, 3, jets=mathj, fixed={"w": 0, "w1": 1},
              levels=[MATH | {"mul", "atan2"}, G1 | {"gateaux2"}, FIN], **dict(kw, chain="strict")),
        Slice("math2", [W, ("w1", ()), DV], MATH | {"mul", "add"}, 4, jets=mathj, fixed={"w": 0, "w1": 1},
              levels=[MATH | {"mul"}, {"exp", "ln", "sin", "cos", "mul"}, G1 | {"gateaux2"}, FIN], **dict(kw, chain="strict")),
        # second derivatives through the elementary functions and atan2 with BOTH operands depending on w (w = 0 at the point)
        Slice("math-second", [W, DV, DV2], MATH | {"atan2", "add", "mul"}, 5, lits=[LIT["one"]], jets=dict(scalar, seeds={"w": ("dv", "dv2")}), fixed={"w": 0},
              levels=[{"add", "mul"}, MATH | {"atan2"}, G1, {"gateaux2"}, FIN], **dict(kw, chain="strict")),
        # powers whose exponent depends on the coefficient (w = 2, w1 = 3 at the point): w**w, w**w1, 2**w ...
        Slice("pow-var", [W, ("w1", ()), DV], {"pow", "mul", "add"}, 4, lits=[LIT["two"]], jets=mathj, fixed={"w": 2, "w1": 3},
              levels=[{"pow", "mul", "add"}, {"pow", "mul"}, G1 | {"gateaux2"}, FIN], **dict(kw, chain="strict")),
        Slice("userd", [W, DV, F, G], A1, 3, lits=[LIT["two"]], jets=userd, levels=[{"mul", "add", "pow", "div", "abs"}, G1, FIN], **kw),
    ]
    if not q:
        out += [
            Slice("s2", [W, DV, F, GW, GDV], A1, 4, lits=[LIT["two"]], idx=(10,), jets=scalar, levels=[{"mul", "div", "pow", "abs", "sqrt", "dot", "index", "lt"}, {"mul", "add", "div", "pow", "cond", "max"}, G1, FIN], mikinds=("fixed",), **kw),
            Slice("s-second2", [W, DV, DV2, F], A1, 5, jets=scalar, levels=[{"mul", "div"}, {"mul", "add", "pow"}, G1, {"gateaux2"}, FIN], **kw),
            Slice("userd-two2", [W, DV, F, G, ("h", ())], A1, 5, jets=userd2, levels=[{"mul"}, G1, {"gateaux2"}, {"add", "mul"}, FIN], chain=True, **kw),
            Slice("userd2", [W, DV, F, G], A1, 4, jets=userd, levels=[{"mul", "add", "pow", "div"}, {"mul", "add", "div"}, G1, FIN], **kw),
            Slice("s3", [W, DV, DV2, F, GW, GDV], A1, 5, lits=[LIT["two"]], idx=(10,), jets=scalar, levels=[A1 | {"index", "dot"}, A2 | {"dot", "inner", "index"}, A2, G1, FIN], mikinds=("name", "fixed"), chain=True, simulate=1500, depth=6, **kw),
            Slice("v3", [U, DU, F, GU, GDU], E1, 5, idx=(10,), jets=vector, levels=[{"index", "dot", "inner", "outer", "mul", "list", "tr", "as_tensor"}, {"mul", "add", "index", "dot", "inner"}, {"mul", "add", "div", "pow", "abs", "cond", "lt"}, G1, FIN], mikinds=("name", "fixed"), chain=True, simulate=1500, depth=6, **kw),
        ]
    return out


def structural(ctx, rec, obj, w):
    from ufl.classes import CoefficientDerivative
    from ufl.corealg.traversal import unique_pre_traversal

    for n in unique_pre_traversal(obj):
        if isinstance(n, CoefficientDerivative):
            return ("coefficient-derivative-left", "CoefficientDerivative survives expand_derivatives")
    return None


def refusal(rec, status, detail, w):
    """'If the derivative cannot be represented the expansion raises instead of returning a wrong value'."""
    return status == "mismatch:raise"


def run(ctx, args):
    ctx.rule = (
        "TLC enumerates programs [integrand expressions over the seeded coefficient, derivative(., w, v) "
        "(and a second derivative), expand_derivatives] under the series semantics; each is replayed through "
        "ufl.derivative and expand_derivatives and the expanded expression evaluated exactly; slices: scalar "
        "coefficient with gradient data, vector coefficient with gradient data, fixed component u[1], user-supplied "
        "coefficient derivatives; case = one program; non-trivial = predicted value defined"
    )
    ctx.assume("the direction is an Argument (first derivative) / Coefficient (second); grad(w) is independent data perturbed by grad(v)")
    only = os.environ.get("VERIF_SLICES")
    sls = [sl for sl in slices(ctx.tier) if not only or sl.name in only.split(",")]
    run_slices(ctx, sls, "C02", post=structural, accept=refusal)


def replay(ctx, doc):
    replay_doc(ctx, doc, "C02")


def main(argv=None):
    main_wrapper("C02", run, argv)
