"""C07 — Geometry lowering computes the geometric quantities of the actual cell.

spec/CellGeom.tla defines, for an affine simplex given by integer vertices, every geometric quantity
from first principles (vertices only), proves the oracle self-consistent on every enumerated cell
(circumcentre equidistant, normals orthogonal/outward/unit, volume = facet area x height / d,
K J = I, ...) and prints the oracle value of every (cell, facet | ridge, quantity).

The conformance step builds `Mesh(LagrangeElement(cell, 1, (gdim,)))`, applies the REAL
`apply_geometry_lowering` to `Q(mesh)` for every quantity class Q (directly, with the preserved
Jacobian-family types compute_form_data uses, in two stages, and below '+'/'-' restrictions) and
evaluates the lowered expression with vf/sem.py under an environment that supplies the low-level
terminals a form compiler supplies for the concrete cell, facet and ridge (J = ReferenceGrad(x), x,
x0, X, reference volumes, ReferenceNormal, CellFacetJacobian, CellRidgeJacobian, CellVertices,
CellEdgeVectors, FacetEdgeVectors, CellOrientation), all computed by independent exact Python code
that is validated against the TLC output on every enumerated cell.

Every value is handled as the exact pair (value^2, sign).  Square roots that are not rational are
evaluated to 256 fractional bits (a subclass of the evaluator overrides Sqrt), so the comparison
`value^2 == oracle^2 and sign == oracle sign` is exact for rational results and has a relative
tolerance of 1e-30 (far below the 1e-12 that double precision would need) otherwise.
"""

from __future__ import annotations

import os

import itertools
import json
import math
import warnings
from concurrent.futures import ProcessPoolExecutor, ThreadPoolExecutor, as_completed
from fractions import Fraction

from .. import tlc
from ..common import MachineryError, main_wrapper
from ..scalar import Cx, Undefined
from ..sem import Evaluator, Unsupported, comps

KIND = {1: "interval", 2: "triangle", 3: "tetrahedron"}
# Conventions (UFC / FIAT / basix numbering of simplices, which is what FFCx and TSFC supply):
# reference vertices 0, e_1, .., e_d; edge numbering below; facet i is opposite vertex i for d >= 2
# and IS vertex i for the interval; sub-entity vertices are listed in ascending order and the
# reference sub-entity is mapped so that its vertex j goes to the j-th listed vertex.
EDGES = {1: [(0, 1)], 2: [(1, 2), (0, 2), (0, 1)], 3: [(2, 3), (1, 3), (1, 2), (0, 3), (0, 2), (0, 1)]}
FACET_LOCAL_EDGES = [(1, 2), (0, 2), (0, 1)]  # edges of a triangular facet in terms of its own vertices
OFFSET = (2, -1, 3)  # position of vertex 0 (cells are enumerated modulo translation, placed here)
XREF = {1: (Fraction(1, 4),), 2: (Fraction(1, 4), Fraction(1, 3)), 3: (Fraction(1, 4), Fraction(1, 3), Fraction(1, 6))}
PREC = 256  # fractional bits of an irrational square root
TOL = Fraction(1, 10**30)

CELL_Q = ["Jacobian", "JacobianInverse", "JacobianDeterminant", "SpatialCoordinate", "CellCoordinate", "CellVolume",
          "Circumradius", "CellDiameter", "MinCellEdgeLength", "MaxCellEdgeLength", "CellNormal"]
FACET_Q = ["FacetNormal", "FacetArea", "FacetJacobian", "FacetJacobianInverse", "FacetJacobianDeterminant",
           "MinFacetEdgeLength", "MaxFacetEdgeLength"]
RIDGE_Q = ["RidgeJacobian", "RidgeJacobianInverse", "RidgeJacobianDeterminant"]
ALL_Q = CELL_Q + FACET_Q + RIDGE_Q


# ------------------------------------------------------------------------------------------------
# exact linear algebra on Fractions (independent of ufl and of the spec's adjugate formulas:
# Gauss-Jordan elimination)
# ------------------------------------------------------------------------------------------------
def dot(a, b):
    return sum((x * y for x, y in zip(a, b)), Fraction(0))


def sub(a, b):
    return tuple(x - y for x, y in zip(a, b))


def gram(T):
    return [[dot(a, b) for b in T] for a in T]


def det(M):
    """Determinant by fraction Gaussian elimination."""
    n = len(M)
    A = [[Fraction(x) for x in row] for row in M]
    d = Fraction(1)
    for c in range(n):
        p = next((r for r in range(c, n) if A[r][c] != 0), None)
        if p is None:
            return Fraction(0)
        if p != c:
            A[c], A[p] = A[p], A[c]
            d = -d
        d *= A[c][c]
        for r in range(c + 1, n):
            f = A[r][c] / A[c][c]
            if f:
                A[r] = [x - f * y for x, y in zip(A[r], A[c])]
    return d


def solve(M, B):
    """X with M X = B (M square invertible, B a list of rows)."""
    n = len(M)
    if n == 0:
        return []
    A = [[Fraction(x) for x in row] + [Fraction(x) for x in brow] for row, brow in zip(M, B)]
    for c in range(n):
        p = next(r for r in range(c, n) if A[r][c] != 0)
        A[c], A[p] = A[p], A[c]
        piv = A[c][c]
        A[c] = [x / piv for x in A[c]]
        for r in range(n):
            if r != c and A[r][c] != 0:
                f = A[r][c]
                A[r] = [x - f * y for x, y in zip(A[r], A[c])]
    return [row[n:] for row in A]


def pinv(T):
    """Left pseudo-inverse (T^T-columns): rows a = (Gram^-1 T)[a], i.e. K with K J = I for J = T^T."""
    if not T:
        return []
    return solve(gram(T), [list(t) for t in T])


def sv(q):
    """rational -> (value^2, sign)"""
    q = Fraction(q)
    return (q * q, (q > 0) - (q < 0))


def sq_only(q2):
    """non-negative value given by its square"""
    return (Fraction(q2), 1 if q2 > 0 else 0)


def unit(h):
    """components of h / |h| as (square, sign)"""
    n2 = dot(h, h)
    return [(x * x / n2, (x > 0) - (x < 0)) for x in h]


# ------------------------------------------------------------------------------------------------
# the Python transcription of spec/CellGeom.tla (validated against TLC on every enumerated cell)
# ------------------------------------------------------------------------------------------------
def facet_vertices(d, f):
    return [f] if d == 1 else [m for m in range(d + 1) if m != f]


def facet_opposite(d, f):
    return 1 - f if d == 1 else f


def facet_normal_dir(V, d, f):
    """The component of (facet vertex - opposite vertex) orthogonal to the facet."""
    fv = facet_vertices(d, f)
    FT = [sub(V[m], V[fv[0]]) for m in fv[1:]]
    w = sub(V[fv[0]], V[facet_opposite(d, f)])
    if FT:
        al = solve(gram(FT), [[dot(t, w)] for t in FT])
        h = tuple(w[i] - sum(al[a][0] * FT[a][i] for a in range(len(FT))) for i in range(len(w)))
    else:
        h = w
    return FT, h


def ref_vertices(d):
    return [tuple(Fraction(1 if i == m - 1 else 0) for i in range(d)) for m in range(d + 1)]


class Geo:
    """All oracle values and all supplied low-level terminals of one cell."""

    def __init__(self, d, g, rel, co, off=OFFSET):
        self.d, self.g, self.rel, self.co, self.off = d, g, [tuple(r) for r in rel], co, tuple(off[:g])
        V = self.V = [tuple(Fraction(self.off[i] + r[i]) for i in range(g)) for r in self.rel]
        T = self.T = [sub(V[k], V[0]) for k in range(1, d + 1)]
        G = gram(T)
        self.gram = det(G)
        if self.gram <= 0:
            raise MachineryError(f"degenerate cell {rel}")
        self.J = [[T[k][i] for k in range(d)] for i in range(g)]
        self.K = pinv(T)
        self.detJ_sv = sv(det(self.J)) if g == d else (self.gram, co)
        self.orientation = sv(det(self.J))[1] if g == d else co
        fact = math.factorial(d)
        self.vol = sq_only(self.gram / (fact * fact))
        # circumcentre: the point c of the affine hull with |c - v_m| equal for all m
        b = [[G[a][a] / 2] for a in range(d)]
        u = [r[0] for r in solve(G, b)]
        c = tuple(V[0][i] + sum(u[a] * T[a][i] for a in range(d)) for i in range(g))
        self.cc = c
        self.R2 = dot(sub(c, V[0]), sub(c, V[0]))
        pairs = list(itertools.combinations(range(d + 1), 2))
        self.diam2 = max(dot(sub(V[a], V[b_]), sub(V[a], V[b_])) for a, b_ in pairs)
        self.edges = [sub(V[b_], V[a]) for a, b_ in EDGES[d]]
        el2 = [dot(e, e) for e in self.edges]
        self.minE2, self.maxE2 = min(el2), max(el2)
        self.X = XREF[d]
        self.x = tuple(V[0][i] + sum(self.J[i][k] * self.X[k] for k in range(d)) for i in range(g))
        if g == d + 1:
            # cell normal: orthogonal to every tangent, det[J | n] > 0, times the orientation
            n = tuple((-1) ** (i + g - 1) * det([self.J[r] for r in range(g) if r != i]) for i in range(g))
            self.cn = [(s, co * sg) for s, sg in unit(n)]
            self.cn_dir = n
        else:
            self.cn = None
        RV = ref_vertices(d)
        self.refvol = Fraction(1, fact)
        self.reffacetvol = Fraction(1, math.factorial(d - 1))
        self.facets = []
        for f in range(d + 1):
            FT, h = facet_normal_dir(V, d, f)
            fg = det(gram(FT)) if FT else Fraction(1)
            fv = facet_vertices(d, f)
            RFT, rh = facet_normal_dir(RV, d, f)
            fd = {"fv": fv, "FT": FT, "h": h, "fgram": fg, "n": unit(h), "area": sq_only(fg / (self.reffacetvol.denominator ** 2)),
                  "FK": pinv(FT), "refnormal": unit(rh), "CFJ": [[RFT[j][i] for j in range(d - 1)] for i in range(d)]}
            if d == 3:
                fe = [sub(V[fv[b_]], V[fv[a]]) for a, b_ in FACET_LOCAL_EDGES]
                fd["FEV"] = fe
                l2 = [dot(e, e) for e in fe]
                fd["minFE2"], fd["maxFE2"] = min(l2), max(l2)
                fd["RFEV"] = [sub(RV[fv[b_]], RV[fv[a]]) for a, b_ in FACET_LOCAL_EDGES]
            self.facets.append(fd)
        self.refedges = [sub(RV[b_], RV[a]) for a, b_ in EDGES[d]]
        self.ridges = []
        if d == 3:
            for r, (a, b_) in enumerate(EDGES[3]):
                e = self.edges[r]
                self.ridges.append({"RJ": e, "len2": dot(e, e), "CRJ": self.refedges[r]})

    # ---- oracle values: {quantity: (shape, [(sq, sign)] row-major)} -----------------------------
    def cell_values(self):
        d, g = self.d, self.g
        out = {
            "Jacobian": ((g, d), [sv(self.J[i][k]) for i in range(g) for k in range(d)]),
            "JacobianInverse": ((d, g), [sv(self.K[k][i]) for k in range(d) for i in range(g)]),
            "JacobianDeterminant": ((), [self.detJ_sv]),
            "SpatialCoordinate": ((g,), [sv(v) for v in self.x]),
            "CellCoordinate": ((d,), [sv(v) for v in self.X]),
            "CellVolume": ((), [self.vol]),
            "Circumradius": ((), [sq_only(self.R2)]),
            "CellDiameter": ((), [sq_only(self.diam2)]),
            "MinCellEdgeLength": ((), [sq_only(self.minE2)]),
            "MaxCellEdgeLength": ((), [sq_only(self.maxE2)]),
        }
        if self.cn is not None:
            out["CellNormal"] = ((g,), list(self.cn))
        return out

    def facet_values(self, f):
        d, g = self.d, self.g
        fd = self.facets[f]
        out = {"FacetNormal": ((g,), list(fd["n"])), "FacetArea": ((), [fd["area"]])}
        if d >= 2:
            out["FacetJacobian"] = ((g, d - 1), [sv(fd["FT"][j][i]) for i in range(g) for j in range(d - 1)])
            out["FacetJacobianInverse"] = ((d - 1, g), [sv(fd["FK"][j][i]) for j in range(d - 1) for i in range(g)])
            out["FacetJacobianDeterminant"] = ((), [sq_only(fd["fgram"])])
        if d == 3:
            out["MinFacetEdgeLength"] = ((), [sq_only(fd["minFE2"])])
            out["MaxFacetEdgeLength"] = ((), [sq_only(fd["maxFE2"])])
        return out

    def ridge_values(self, r):
        g = self.g
        rd = self.ridges[r]
        return {
            "RidgeJacobian": ((g, 1), [sv(v) for v in rd["RJ"]]),
            "RidgeJacobianInverse": ((1, g), [sv(v / rd["len2"]) for v in rd["RJ"]]),
            "RidgeJacobianDeterminant": ((), [sq_only(rd["len2"])]),
        }


# ------------------------------------------------------------------------------------------------
# numbers: (square, sign) -> scalar with 256-bit square roots
# ------------------------------------------------------------------------------------------------
def hp_sqrt(q):
    q = Fraction(q)
    if q < 0:
        raise Undefined("sqrt of negative")
    n, dd = q.numerator, q.denominator
    rn, rd = math.isqrt(n), math.isqrt(dd)
    if rn * rn == n and rd * rd == dd:
        return Fraction(rn, rd)
    return Fraction(math.isqrt((n * dd) << (2 * PREC)), dd << PREC)


def sv_to_cx(p):
    s, sg = p
    return Cx(sg * hp_sqrt(s)) if sg else Cx(0)


class HPEvaluator(Evaluator):
    """vf.sem.Evaluator with square roots evaluated to PREC fractional bits instead of doubles."""

    def n_Sqrt(self, o, c, b, ctx):
        v = self.ev(o.ufl_operands[0], (), b, ctx)
        if v.im != 0:
            raise Undefined("sqrt of a non-real value")
        return Cx(hp_sqrt(v.re))

    def n_Power(self, o, c, b, ctx):
        x, y = o.ufl_operands
        e = self.ev(y, (), b, ctx)
        if e.im == 0 and e.re == Fraction(1, 2):
            v = self.ev(x, (), b, ctx)
            if v.im != 0:
                raise Undefined("sqrt of a non-real value")
            return Cx(hp_sqrt(v.re))
        return Evaluator.n_Power(self, o, c, b, ctx)


# ------------------------------------------------------------------------------------------------
# the environment: what a form compiler supplies for one cell / facet / ridge
# ------------------------------------------------------------------------------------------------
class CellEnv:
    def __init__(self, geo, facet=None, ridge=None, corrupt=None):
        self.geo, self.facet, self.ridge = geo, facet, ridge
        self.corrupt = corrupt  # selftest: name of a supplied terminal to corrupt
        self.used = set()
        self.tables = {}

    def _table(self, name):
        gq = self.geo
        d, g = gq.d, gq.g
        fd = gq.facets[self.facet] if self.facet is not None else None
        rd = gq.ridges[self.ridge] if self.ridge is not None else None

        def need(x, what):
            if x is None:
                raise MachineryError(f"{name} requested outside a {what} context")
            return x

        if name == "SpatialCoordinate":
            return {(i,): Cx(gq.x[i]) for i in range(g)}
        if name == "Jacobian":
            return {(i, k): Cx(gq.J[i][k]) for i in range(g) for k in range(d)}
        if name == "JacobianInverse":
            return {(k, i): Cx(gq.K[k][i]) for k in range(d) for i in range(g)}
        if name == "JacobianDeterminant":
            return {(): sv_to_cx(gq.detJ_sv)}
        if name == "CellOrigin":
            return {(i,): Cx(gq.V[0][i]) for i in range(g)}
        if name == "CellCoordinate":
            return {(k,): Cx(gq.X[k]) for k in range(d)}
        if name == "CellOrientation":
            return {(): Cx(gq.orientation)}
        if name == "ReferenceCellVolume":
            return {(): Cx(gq.refvol)}
        if name == "ReferenceFacetVolume":
            return {(): Cx(gq.reffacetvol)}
        if name == "CellVertices":
            return {(m, i): Cx(gq.V[m][i]) for m in range(d + 1) for i in range(g)}
        if name == "CellEdgeVectors":
            return {(e, i): Cx(gq.edges[e][i]) for e in range(len(gq.edges)) for i in range(g)}
        if name == "ReferenceCellEdgeVectors":
            return {(e, i): Cx(gq.refedges[e][i]) for e in range(len(gq.refedges)) for i in range(d)}
        if name == "ReferenceNormal":
            rn = need(fd, "facet")["refnormal"]
            return {(i,): sv_to_cx(rn[i]) for i in range(d)}
        if name == "CellFacetJacobian":
            m = need(fd, "facet")["CFJ"]
            return {(i, j): Cx(m[i][j]) for i in range(d) for j in range(d - 1)}
        if name == "FacetEdgeVectors":
            m = need(fd, "facet")["FEV"]
            return {(e, i): Cx(m[e][i]) for e in range(3) for i in range(g)}
        if name == "ReferenceFacetEdgeVectors":
            m = need(fd, "facet")["RFEV"]
            return {(e, i): Cx(m[e][i]) for e in range(3) for i in range(d)}
        if name == "CellRidgeJacobian":
            m = need(rd, "ridge")["CRJ"]
            return {(i, 0): Cx(m[i]) for i in range(d)}
        raise Unsupported(f"environment has no terminal {name}")

    def terminal(self, o, comp, derivs, side, ref):
        name = type(o).__name__
        if derivs:
            if name == "SpatialCoordinate" and len(derivs) == 1 and derivs[0][0] == "X":
                # affine cell: ReferenceGrad(x) is the constant matrix J
                self.used.add("ReferenceGrad(x)")
                v = Cx(self.geo.J[comp[0]][derivs[0][1]])
                if self.corrupt == "Jacobian" and comp[0] == 0 and derivs[0][1] == 0:
                    v = v + Cx(1)
                return v
            if name == "SpatialCoordinate" and all(dv[0] == "X" for dv in derivs):
                return Cx(0)
            raise Unsupported(f"derivative {derivs} of {name}")
        tab = self.tables.get(name)
        if tab is None:
            self.used.add(name)
            tab = self.tables[name] = self._table(name)
        v = tab[comp]
        if self.corrupt == name and all(c == 0 for c in comp):
            v = v * Cx(3) + Cx(1)
        return v


# ------------------------------------------------------------------------------------------------
# lowering of Q(mesh) with the real code (once per cell kind / gdim / variant / side)
# ------------------------------------------------------------------------------------------------
VARIANTS = ["direct", "keepJ", "keepJKdet", "twostage", "plus", "minus", "integral", "pointintegral"]
_lowered = {}


def _mesh(d, g):
    from ufl import Cell, Mesh

    from ..elements import LagrangeElement

    return Mesh(LagrangeElement(Cell(KIND[d]), 1, (g,)))


def lowered(d, g, qname, variant):
    """('ok', expr, shape) | ('raises', message) for apply_geometry_lowering(Q(mesh)) in a variant."""
    key = (d, g, qname, variant)
    r = _lowered.get(key)
    if r is not None:
        return r
    import ufl.classes as C
    from ufl.algorithms.apply_geometry_lowering import apply_geometry_lowering

    mesh = _mesh(d, g)
    try:
        with warnings.catch_warnings():
            warnings.simplefilter("error")
            q = getattr(C, qname)(mesh)
            jk = (C.Jacobian, C.JacobianInverse, C.JacobianDeterminant)
            if variant == "direct":
                e = apply_geometry_lowering(q, preserve_types=())
            elif variant == "keepJ":
                e = apply_geometry_lowering(q, preserve_types=(C.Jacobian,))
            elif variant == "keepJKdet":
                e = apply_geometry_lowering(q, preserve_types=jk)
            elif variant == "twostage":
                e = apply_geometry_lowering(apply_geometry_lowering(q, preserve_types=jk), preserve_types=())
            elif variant == "plus":
                e = apply_geometry_lowering(q("+"), preserve_types=())
            elif variant == "minus":
                e = apply_geometry_lowering(q("-"), preserve_types=())
            elif variant in ("integral", "pointintegral"):
                # the Form / Integral branch of apply_geometry_lowering (automatic preserve types): one integral
                # per component over the cell (dx), exterior facet (ds) or ridge (dr), or a vertex integral (dP)
                import ufl

                ent = "cell" if qname in CELL_Q else "facet" if qname in FACET_Q else "ridge"
                meas = ufl.dP if variant == "pointintegral" else {"cell": ufl.dx, "facet": ufl.ds, "ridge": ufl.dr}[ent]

                def low1(scalar):
                    (itg,) = apply_geometry_lowering(scalar * meas(mesh)).integrals()
                    return itg.integrand()

                def build(prefix, shape):
                    if not shape:
                        return low1(q[prefix] if prefix else q)
                    return [build(prefix + (k,), shape[1:]) for k in range(shape[0])]

                e = build((), tuple(q.ufl_shape))
                if q.ufl_shape:
                    e = ufl.as_tensor(e)
            else:
                raise MachineryError(variant)
        r = ("ok", e, tuple(q.ufl_shape), leftover_types(e) - LOW_LEVEL)
    except (ValueError, IndexError, TypeError) as ex:
        r = ("raises", f"{type(ex).__name__}: {ex}")
    _lowered[key] = r
    return r


def leftover_types(expr):
    """Geometric terminal types that remain in a lowered expression."""
    from ufl.classes import GeometricQuantity
    from ufl.corealg.traversal import unique_pre_traversal

    return {type(n).__name__ for n in unique_pre_traversal(expr) if isinstance(n, GeometricQuantity)}


LOW_LEVEL = {"SpatialCoordinate", "CellOrigin", "CellOrientation", "ReferenceCellVolume", "ReferenceFacetVolume", "ReferenceNormal",
             "CellFacetJacobian", "CellRidgeJacobian", "CellVertices", "CellEdgeVectors", "FacetEdgeVectors"}


# ------------------------------------------------------------------------------------------------
# comparison
# ------------------------------------------------------------------------------------------------
def as_pair(got):
    """Cx -> (value^2, sign) or a string describing why it is not a real number."""
    re, im = got.re, got.im
    if isinstance(re, float):
        re = Fraction(re)
    if isinstance(im, float):
        im = Fraction(im)
    if im != 0:
        return "nonreal"
    return (re * re, (re > 0) - (re < 0))


def pair_equal(got, want):
    """(square, sign) pairs: exact, or equal within TOL when a 256-bit square root was involved."""
    if got == want:
        return True
    if got[1] != want[1]:
        return False
    return abs(got[0] - want[0]) <= TOL * want[0]


def pj(p):
    """(square, sign) -> JSON"""
    s = Fraction(p[0])
    if s.denominator.bit_length() > 80:
        return [float(s), 1, p[1]]
    return [s.numerator, s.denominator, p[1]]


def classify(got, want, shape, others):
    """Structural class of a mismatch (part of the fingerprint)."""
    if any(isinstance(x, str) for x in got):
        return "nonreal"
    if all(pair_equal((a[0], 0), (b[0], 0)) for a, b in zip(got, want)):
        return "sign"
    if shape == ():
        return "value"  # a wrong scalar: no finer structural class (keeps fingerprints stable)
    for tag, alt in others:
        if len(alt) == len(got) and all(pair_equal(a, b) for a, b in zip(got, alt)):
            return tag
    nz = [(a, b) for a, b in zip(got, want) if b[1] != 0]
    if len(nz) >= 2 and all(a[1] == b[1] for a, b in zip(got, want)):
        r = nz[0][0][0] / nz[0][1][0]
        if all(pair_equal((a[0], 1), (r * b[0], 1)) for a, b in zip(got, want)):
            return "scale"
    return "value"


def transposed(vals, shape):
    if len(shape) != 2:
        return None
    r, c = shape
    return [vals[i * c + j] for j in range(c) for i in range(r)]


class Collector:
    """What one worker found (plain data, merged into the Ctx by the parent)."""

    def __init__(self):
        self.cells = 0
        self.evals = 0
        self.exact = 0
        self.approx = 0
        self.compared = 0  # (cell, entity, quantity, variant) comparisons
        self.violations = []
        self.machinery = []
        self.skipped = {}
        self.samples = []
        self.keys = []
        self.used = set()
        self.per_kind = {}

    def merge(self, o):
        self.cells += o.cells
        self.evals += o.evals
        self.exact += o.exact
        self.approx += o.approx
        self.compared += o.compared
        self.violations += o.violations
        self.machinery += o.machinery
        for k, v in o.skipped.items():
            self.skipped[k] = self.skipped.get(k, 0) + v
        for k, v in o.per_kind.items():
            self.per_kind[k] = self.per_kind.get(k, 0) + v
        self.samples = (self.samples + o.samples)[:5]
        self.keys += o.keys
        self.used |= o.used


def evaluate(expr, shape, env):
    """All components of a lowered expression -> list of (square, sign) | 'nonreal' | 'undefined'."""
    ev = HPEvaluator(env)
    out = []
    for c in comps(shape):
        try:
            out.append(as_pair(ev.ev(expr, c, {})))
        except Undefined as e:
            out.append("undefined:" + str(e))
    return out


def _base(geo, ent, idx, qname, variant, wvals):
    return {"d": geo.d, "g": geo.g, "rel": [list(r) for r in geo.rel], "co": geo.co, "off": list(geo.off), "entity": [ent, idx],
            "quantity": qname, "variant": variant, "expected": [pj(p) for p in wvals]}


def check_quantity(col, geo, ent, idx, qname, want, variants, corrupt=None, others=()):
    """Lower Q(mesh) in every variant, evaluate for this cell / entity, compare with the oracle."""
    d, g = geo.d, geo.g
    shape, wvals = want
    place = f"{KIND[d]}-in-R{g}"
    for variant in variants:
        low = lowered(d, g, qname, variant)
        col.compared += 1

        def base(variant=variant):
            return _base(geo, ent, idx, qname, variant, wvals)

        if low[0] == "raises":
            col.violations.append((f"C07:{qname}:{place}:raises", f"{qname} on {place} ({variant}): lowering raises {low[1]} but the quantity is defined",
                                   dict(base(), observed="raises: " + low[1])))
            continue
        _, expr, qshape, left = low
        if tuple(expr.ufl_shape) != tuple(shape) or tuple(qshape) != tuple(shape):
            col.violations.append((f"C07:{qname}:{place}:shape", f"{qname} on {place} ({variant}): shape {expr.ufl_shape} (declared {qshape}), oracle {shape}",
                                   dict(base(), observed=f"shape {expr.ufl_shape}")))
            continue
        if variant in ("direct", "twostage", "plus", "minus"):
            if left:
                col.violations.append((f"C07:{qname}:{place}:not-lowered", f"{qname} on {place} ({variant}): {sorted(left)} left after lowering",
                                       dict(base(), observed="left: " + ",".join(sorted(left)))))
                continue
        env = CellEnv(geo, facet=idx if ent == "facet" else None, ridge=idx if ent == "ridge" else None, corrupt=corrupt)
        got = evaluate(expr, shape, env)
        col.used |= env.used
        col.evals += len(got)
        ok = True
        for a, b in zip(got, wvals):
            if isinstance(a, str) or not pair_equal(a, b):
                ok = False
            elif a == b:
                col.exact += 1
            else:
                col.approx += 1
        if not ok:
            alts = list(others() if callable(others) else others)
            t = transposed(wvals, shape)
            if t is not None and t != wvals:
                alts.append(("transposed", t))
            what = classify(got, wvals, shape, alts)
            col.violations.append((f"C07:{qname}:{place}:{what}",
                                   f"{qname} on {place} rel-vertices {geo.rel[1:]} co={geo.co} {ent} {idx} ({variant}): lowered value differs from the cell's value [{what}]",
                                   dict(base(), observed=[a if isinstance(a, str) else pj(a) for a in got])))


def tlc_pair(t):
    n, dd, k = t
    if dd == 0:
        return None
    return sv(Fraction(n, dd)) if k == 2 else (Fraction(n, dd), k)


def check_cell(col, rec, variants, corrupt_terminal=None, corrupt_oracle=False):
    """One TLC-enumerated cell: validate the Python transcription against the TLC table, then bind."""
    d, g = rec["k"]
    rel = [[0] * g] + [list(v) for v in rec["v"]]
    co = rec["co"]
    if tuple(rec["off"]) != OFFSET[:g]:
        col.machinery.append(f"offset mismatch {rec['off']}")
        return
    geo = Geo(d, g, rel, co)
    col.cells += 1
    kind = f"{KIND[d]}-in-R{g}"
    col.per_kind[kind] = col.per_kind.get(kind, 0) + 1
    col.keys.append(f"{d}|{g}|{rec['v']}|{co}")
    tables = [("cell", -1, geo.cell_values(), rec["c"])]
    tables += [("facet", f, geo.facet_values(f), rec["f"][f]) for f in range(d + 1)]
    tables += [("ridge", r, geo.ridge_values(r), rec["r"][r]) for r in range(len(geo.ridges))]
    if len(rec["r"]) != len(geo.ridges):
        col.machinery.append(f"ridge count mismatch for {rec['v']}")
    facet_alt = {}
    for ent, idx, py, tl in tables:
        tl = {e["n"]: e["v"] for e in tl}
        if set(tl) != set(py):
            col.machinery.append(f"quantity sets differ for {kind} {ent}: TLC {sorted(tl)} vs Python {sorted(py)}")
            continue
        for qname, (shape, vals) in py.items():
            tv = [tlc_pair(t) for t in tl[qname]]
            if corrupt_oracle and idx <= 0:
                # selftest: corrupt the TLC oracle (flip the sign of a signed value, scale an unsigned one)
                p = tv[-1]
                tv[-1] = (p[0], -p[1]) if (p[1] != 0 and shape != ()) else (p[0] * 4 + 1, 1)
                if vals == tv:
                    col.machinery.append("selftest: corruption had no effect")
                col.skipped["selftest-corrupted-oracle-values"] = col.skipped.get("selftest-corrupted-oracle-values", 0) + 1
            elif tv != vals:
                col.machinery.append(f"Python transcription differs from TLC for {kind} rel {rec['v']} co={co} {ent} {idx} {qname}: TLC {tl[qname]} vs Python {[pj(p) for p in vals]}")
                continue
            # the TLC value is the oracle
            others = ()
            if ent == "facet":
                others = (lambda idx=idx, qname=qname: [("wrong-facet", geo.facet_values(f2)[qname][1]) for f2 in range(d + 1) if f2 != idx])
            check_quantity(col, geo, ent, idx, qname, (shape, tv), variants, corrupt=corrupt_terminal, others=others)
    if len(col.samples) < 2:
        col.samples.append({"cell": kind, "rel_vertices": rec["v"], "co": co, "oracle": {e["n"]: e["v"] for e in rec["c"]}})


def work(payload):
    """Worker process: decode a chunk of TLC print lines and check the cells."""
    lines, every = payload
    col = Collector()
    for i, s in enumerate(lines):
        variants = VARIANTS if i % every == 0 else VARIANTS[:1]
        try:
            rec = json.loads(json.loads(s))
        except Exception:  # noqa: BLE001
            rec = json.loads(s[1:-1].replace('\\"', '"').replace("\\\\", "\\"))
        if "ref" in rec:
            check_reference(col, rec)
            continue
        try:
            check_cell(col, rec, variants)
        except (Unsupported, MachineryError, KeyError, IndexError) as e:
            col.machinery.append(f"{type(e).__name__}: {e} (cell {rec.get('v')})")
    return col


def check_reference(col, rec):
    """The reference data / tables printed once per TLC run must be the ones the environment uses."""
    d, g = rec["k"]
    geo = Geo(d, g, [[0] * g] + [[1 if i == k else 0 for i in range(g)] for k in range(d)], 1)
    mine = {
        "edges": [list(e) for e in EDGES[d]],
        "facetverts": [facet_vertices(d, f) for f in range(d + 1)],
        "opp": [facet_opposite(d, f) for f in range(d + 1)],
        "refnormal": [[pj(p) for p in geo.facets[f]["refnormal"]] for f in range(d + 1)],
        "cfj": [[[int(x) for x in row] for row in geo.facets[f]["CFJ"]] for f in range(d + 1)],
        "refedges": [[int(x) for x in e] for e in geo.refedges],
        "refvol": [1, geo.refvol.denominator],
        "reffacetvol": [1, geo.reffacetvol.denominator],
        "X": [[x.numerator * (12 // x.denominator), 12] for x in XREF[d]],
        "off": list(OFFSET[:g]),
    }
    for k, v in mine.items():
        if rec[k] != v:
            col.machinery.append(f"reference data '{k}' of the environment differs from CellGeom.tla for {KIND[d]}: {rec[k]} vs {v}")
    col.skipped["reference-tables-validated"] = col.skipped.get("reference-tables-validated", 0) + 1


# ------------------------------------------------------------------------------------------------
# TLC jobs
# ------------------------------------------------------------------------------------------------
INVARIANTS = ["AdjugateLaw", "KJIsIdentity", "JKProjector", "GramIsDetSquared", "Equidistant", "RadiusIsDistance", "TriangleRadius",
              "DiameterIsLongestEdge", "CellNormalLaw", "CoordinateLaw", "FacetNormalLaw", "UnitNormal", "VolumeIsAreaTimesHeight",
              "FacetInverseLaw", "FacetJacobianIsJTimesCFJ", "PiolaNormal", "RidgeIsJTimesCRJ", "ValueShape", "EmitCell"]
JAVA = "-DTLA-Library=" + os.path.join(os.path.dirname(os.path.dirname(os.path.dirname(os.path.abspath(__file__)))), "spec") + " -Xmx2g -Xmn128m -XX:ParallelGCThreads=2 -Dtlc2.tool.queue.IStateQueue=StateDeque"


class Job:
    """One TLC run: cells of dimension d in R^g, relative vertices in [-bl, bh]^g (last one in
    [-xl, xh]^g), shard `shard` of `nshards`."""

    def __init__(self, d, g, bl, bh, xl=None, xh=None, nshards=1, shard=0):
        self.d, self.g, self.bl, self.bh = d, g, bl, bh
        self.xl = bl if xl is None else xl
        self.xh = bh if xh is None else xh
        self.nshards, self.shard = nshards, shard

    def label(self):
        return f"{KIND[self.d]}-in-R{self.g} box[-{self.bl},{self.bh}] last[-{self.xl},{self.xh}] shard {self.shard}/{self.nshards}"

    def cfg(self):
        return (f"CONSTANTS D = {self.d}\nG = {self.g}\nBL = {self.bl}\nBH = {self.bh}\nXL = {self.xl}\nXH = {self.xh}\n"
                f"NShards = {self.nshards}\nShard = {self.shard}\nEmit = TRUE\nSPECIFICATION Spec\n" + "".join(f"INVARIANT {i}\n" for i in INVARIANTS))

    # the same enumeration in Python (used only to know how many cells / states TLC must produce)
    def expected(self):
        d, g = self.d, self.g
        box = list(itertools.product(range(-self.bl, self.bh + 1), repeat=g))
        xbox = list(itertools.product(range(-self.xl, self.xh + 1), repeat=g))

        def key(p):
            return sum((p[i] + 7) * (1, 17, 289)[i] for i in range(g))

        def inshard(vs):
            k = key(vs[0]) if len(vs) == 1 else key(vs[0]) * 4327 + key(vs[1])
            return ((k % 9973) * 7919 + k // 9973) % self.nshards == self.shard

        def indep(vs):
            return _idet([[sum(a * b for a, b in zip(u, v)) for v in vs] for u in vs]) > 0

        depth = 1 if d == 1 else 2
        prefixes = [()]
        nprefix = 0
        for level in range(1, d):
            new = []
            for pre in prefixes:
                for p in box:
                    vs = pre + (p,)
                    if indep(vs) and (len(vs) != depth or inshard(vs)):
                        new.append(vs)
            prefixes = new
            nprefix += len(new)
        shapes = 0
        for pre in prefixes:
            for p in xbox:
                vs = pre + (p,)
                if indep(vs) and (len(vs) != depth or inshard(vs)):
                    shapes += 1
        cells = shapes * (2 if g > d else 1)
        ncq = 10 + (1 if g == d + 1 else 0)
        nfq = 2 + (3 if d >= 2 else 0) + (2 if d == 3 else 0)
        nr = 6 if d == 3 else 0
        per_cell = 1 + ncq + (d + 1) * (1 + nfq) + nr * (1 + 3)
        # every state except the initial one is produced by exactly one action
        self.actions = {"PickVertex": nprefix, "PickCell": shapes, "PickOrientation": cells, "PickFacet": cells * (d + 1),
                        "PickRidge": cells * nr, "PickQuantity": cells * (ncq + (d + 1) * nfq + nr * 3)}
        return cells, 1 + nprefix + shapes + cells * per_cell


def _idet(M):
    n = len(M)
    if n == 0:
        return 1
    if n == 1:
        return M[0][0]
    return sum((-1) ** j * M[0][j] * _idet([r[:j] + r[j + 1:] for r in M[1:]]) for j in range(n))


def jobs_for(tier, seed):
    if tier == "quick":
        s = seed
        return [
            Job(1, 1, 4, 4),
            Job(1, 2, 2, 2),
            Job(1, 3, 1, 1),
            Job(2, 2, 2, 2, nshards=5, shard=s % 5),
            Job(2, 3, 1, 1, nshards=9, shard=s % 9),
            Job(3, 3, 1, 1, nshards=45, shard=s % 45),
        ]
    out = [Job(1, 1, 25, 25), Job(1, 2, 20, 20), Job(1, 3, 7, 7)]
    out += [Job(2, 2, 7, 7, nshards=4, shard=k) for k in range(4)]
    out += [Job(2, 3, 2, 2, nshards=4, shard=k) for k in range(4)]
    out += [Job(3, 3, 1, 1, nshards=5, shard=k) for k in range(5)]
    # larger tetrahedra: a 1/400 sample (chosen by the seed) of those with relative coordinates in [-2, 2]
    out += [Job(3, 3, 2, 2, nshards=400, shard=seed % 400)]
    return out


def run_job(job):
    res = tlc.run("CellGeom", job.cfg(), workers=1, timeout=1500, heap=None, env={"JAVA_TOOL_OPTIONS": JAVA})
    return job, res


def full_every(tier):
    """Every cell is checked in the 'direct' variant; every n-th cell in all six variants."""
    return 4 if tier == "quick" else 16


def run(ctx, args):
    if args.selftest:
        return selftest(ctx)
    ctx.rule = (
        "TLC (CellGeom.tla) enumerates every non-degenerate cell with integer relative vertex coordinates in the boxes listed under "
        "coverage.boxes (quick: seed-chosen shards; thorough: complete boxes plus a seed-chosen 1/400 sample of larger tetrahedra) "
        "(modulo translation; both orientations: via vertex order when gdim = tdim, as input co = +-1 when immersed), every "
        "facet, every ridge and every quantity, checks the oracle self-consistency invariants and prints the oracle table; "
        "each cell is replayed through Mesh(LagrangeElement(cell, 1, (gdim,))), Q(mesh), apply_geometry_lowering (directly for "
        "every cell; additionally with Jacobian preserved, J/K/detJ preserved, two-stage, '+' and '-' restricted for every 4th (quick) / "
        "16th (thorough) cell; for those also inside dx/ds/dr and dP integrals, i.e. through the Form branch with its automatic preserve types) and the evaluator; a "
        "case = one cell (kind, gdim, relative vertices, orientation); every case is non-trivial (non-degenerate cell)"
    )
    ctx.assume("conventions of the supplied terminals = UFC/FIAT/basix reference simplices (vertex 0 = origin, facet i opposite vertex i, "
               "interval facet i = vertex i, edge tables of DESIGN.md App. B, sub-entity vertices ascending); stated in CellGeom.tla")
    ctx.assume("affine cells: ReferenceGrad(SpatialCoordinate) is the constant matrix with columns v_k - v_0; '+' and '-' restrictions are "
               "evaluated on the same cell (the lowering is per cell)")
    ctx.assume("detJ on immersed cells = CellOrientation * sqrt(det J^T J) (DESIGN.md App. B); CellNormal = CellOrientation * the unit normal n "
               "with det[J | n] > 0, as documented in the code ('up' for a line pointing to the 'right')")
    ctx.assume("skipped because ufl documents them as unsupported (constructor or lowering raises): FacetJacobian/-Inverse/-Determinant and all "
               "ridge quantities on intervals, Min/MaxFacetEdgeLength for tdim < 3, CellNormal unless gdim = tdim + 1, FacetCellCoordinate; "
               "ridge quantities of triangles (zero-column matrices; the lowering of their inverse/determinant raises, apply_integral_scaling "
               "never uses them)")
    ctx.assume("irrational square roots are evaluated to 256 fractional bits; comparison of (value^2, sign) exact for rational values, relative "
               "tolerance 1e-30 otherwise; vf/sem.py evaluator and the exact Fraction oracle transcription are validated against TLC on every cell")
    jobs = jobs_for(ctx.tier, ctx.seed)
    total = Collector()
    npy = 4 if ctx.tier == "quick" else 7
    chunk = 40 if ctx.tier == "quick" else 250
    pending = []
    import multiprocessing

    # spawn: worker processes must not be forked from a process that already runs TLC threads
    with ThreadPoolExecutor(max_workers=4) as tex, ProcessPoolExecutor(max_workers=npy, mp_context=multiprocessing.get_context("spawn")) as pex:
        # big jobs first
        futs = [tex.submit(run_job, j) for j in sorted(jobs, key=lambda j: -j.d * 10 - j.g)]
        for fut in as_completed(futs):
            job, res = fut.result()
            ctx.add_tlc(res)
            if not res.ok:
                tlc.require_ok(res, "CellGeom " + job.label())
            ncell, nstates = job.expected()
            lines = res.prints
            if len(lines) != ncell + 1:
                raise MachineryError(f"CellGeom {job.label()}: {len(lines) - 1} cells printed, {ncell} expected")
            if res.distinct != nstates:
                raise MachineryError(f"CellGeom {job.label()}: {res.distinct} distinct states, {nstates} expected (an action was not taken as often as it must be)")
            if ncell == 0:
                raise MachineryError(f"CellGeom {job.label()}: empty shard")
            ctx.count("cells_enumerated_by_tlc", ncell)
            # action counts implied by `distinct states == expected` (each non-initial state has one producing action)
            for a, n in job.actions.items():
                ctx.cov["actions"]["CellGeom." + a] = ctx.cov["actions"].get("CellGeom." + a, 0) + n
            for i in range(0, len(lines), chunk):
                pending.append(pex.submit(work, (lines[i:i + chunk], full_every(ctx.tier))))
            res.prints = []
            res.stdout = ""
        for p in pending:
            total.merge(p.result())
    finish(ctx, total, jobs)


def finish(ctx, total, jobs):
    if total.machinery:
        raise MachineryError(f"{len(total.machinery)} machinery problems, first: {total.machinery[0]}")
    if total.cells != ctx.cov.get("cells_enumerated_by_tlc"):
        raise MachineryError(f"{total.cells} cells checked, {ctx.cov.get('cells_enumerated_by_tlc')} enumerated")
    ctx.traces(total.cells)
    ctx.evaluated(total.evals)
    for k in total.keys:
        ctx.distinct(k)
    for k, v in total.skipped.items():
        ctx.count(k, v)
    ctx.cov["cells_per_kind"] = dict(sorted(total.per_kind.items()))
    ctx.cov["quantity_comparisons"] = total.compared
    ctx.cov["components_exactly_equal"] = total.exact
    ctx.cov["components_equal_within_1e-30"] = total.approx
    ctx.cov["supplied_terminals_used"] = sorted(total.used)
    groups = {}
    for j in jobs:
        groups.setdefault((j.label().split(" shard")[0], j.nshards), []).append(j.shard)
    ctx.cov["boxes"] = sorted(lab + (" (complete)" if len(sh) == n else f" (sample: shard {sorted(sh)} of {n})") for (lab, n), sh in groups.items())
    # thorough: every box marked (complete) is enumerated completely; the [-2,2] tetrahedra are an additional seed-chosen sample
    ctx.cov["exhaustive"] = ctx.tier == "thorough"
    for s in total.samples:
        ctx.sample(s)
    for fp, what, rep in total.violations:
        ctx.violation(fp, what, rep)


# ------------------------------------------------------------------------------------------------
# replay and selftest
# ------------------------------------------------------------------------------------------------
def replay(ctx, doc):
    r = doc["replay"]
    d, g = r["d"], r["g"]
    geo = Geo(d, g, r["rel"], r["co"], tuple(r["off"]) + OFFSET[len(r["off"]):])
    ent, idx = r["entity"]
    table = geo.cell_values() if ent == "cell" else geo.facet_values(idx) if ent == "facet" else geo.ridge_values(idx)
    shape, vals = table[r["quantity"]]
    exp = [(Fraction(n, dd), s) for n, dd, s in r["expected"]]
    if exp != vals:
        raise MachineryError(f"replay: recorded oracle {r['expected']} differs from the recomputed one {[pj(p) for p in vals]}")
    col = Collector()
    check_quantity(col, geo, ent, idx, r["quantity"], (shape, vals), [r["variant"]])
    print(f"replay {r['quantity']} {KIND[d]}-in-R{g} rel {r['rel'][1:]} co={r['co']} {ent} {idx} variant {r['variant']}: "
          f"expected {r['expected']} violations {len(col.violations)}")
    for fp, what, rep in col.violations:
        print("  observed", rep["observed"])
        ctx.violation(fp, what, rep)


def selftest(ctx):
    """The binding must reject (1) a corrupted oracle value, (2) a corrupted supplied terminal, and
    the transcription cross-check must reject (3) a corrupted TLC table."""
    jobs = [Job(1, 2, 1, 1), Job(2, 3, 1, 1, nshards=40, shard=1), Job(3, 3, 1, 1, nshards=100, shard=7)]
    problems = []
    for job in jobs:
        _, res = run_job(job)
        ctx.add_tlc(res)
        tlc.require_ok(res, "selftest " + job.label())
        recs = [r for r in tlc.decode_prints(res) if "ref" not in r]
        if not recs:
            raise MachineryError("selftest: no cells")
        recs = recs[:6]
        place = f"{KIND[job.d]}-in-R{job.g}"
        # (0) uncorrupted: accepted
        col = Collector()
        for r in recs:
            check_cell(col, r, ["direct"])
        if col.violations or col.machinery:
            problems.append(f"{place}: uncorrupted data rejected: {(col.violations or col.machinery)[0]}")
        # (1) corrupted oracle: every corrupted quantity must be rejected
        col = Collector()
        for r in recs:
            check_cell(col, r, ["direct"], corrupt_oracle=True)
        n_corrupt = col.skipped.get("selftest-corrupted-oracle-values", 0)
        rejected = {(json.dumps(v[2]["rel"]), v[2]["co"], tuple(v[2]["entity"]), v[2]["quantity"]) for v in col.violations}
        print(f"selftest {place}: corrupted oracle values {n_corrupt}, rejected {len(rejected)}")
        if n_corrupt == 0 or len(rejected) != n_corrupt:
            problems.append(f"{place}: {n_corrupt} oracle values corrupted but {len(rejected)} rejected")
        # (2) corrupted supplied terminals
        terms = ["Jacobian", "CellOrigin", "ReferenceCellVolume", "ReferenceNormal"]
        if job.g > job.d:
            terms.append("CellOrientation")  # not used by the lowering when gdim = tdim
        if job.d >= 2:
            terms += ["CellEdgeVectors", "CellFacetJacobian", "ReferenceFacetVolume"]
        if job.d == 3:
            terms += ["FacetEdgeVectors", "CellRidgeJacobian"]
        for tname in terms:
            col = Collector()
            for r in recs:
                check_cell(col, r, ["direct"], corrupt_terminal=tname)
            hit = sorted({v[2]["quantity"] for v in col.violations})
            print(f"selftest {place}: corrupted terminal {tname}: rejected quantities {hit}")
            if not hit:
                problems.append(f"{place}: corrupting the supplied terminal {tname} was not noticed")
        # (3) corrupted TLC table vs transcription
        col = Collector()
        bad = json.loads(json.dumps(recs[0]))
        bad["c"][0]["v"][0][0] += 1
        check_cell(col, bad, ["direct"])
        if not any("transcription differs" in m for m in col.machinery):
            problems.append(f"{place}: corrupted TLC table accepted by the transcription cross-check")
        ctx.traces(len(recs))
    if problems:
        raise MachineryError("selftest failed: " + "; ".join(problems))
    print("selftest: corrupted oracle values, corrupted supplied terminals and corrupted TLC tables are all rejected")


def main(argv=None):
    main_wrapper("C07", run, argv)
