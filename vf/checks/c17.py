"""C17 — Restriction propagation preserves two-sided integrands.

spec/Restrict.tla gives every terminal a '+' and a '-' value (admissible environments satisfy the
continuity the property assumes), defines the meaning M of an interior-facet integrand, transcribes
RestrictionPropagator handler by handler (P) and lets TLC check, for every term its state machine
builds, that an accepted valid integrand keeps its meaning and comes out with every side-dependent
terminal directly below exactly one restriction, that a double restriction is always rejected and a
missing one whenever the propagator is given the default-restriction map.

The conformance step builds every dumped (term, mode) on real ufl and
  * calls the real apply_restrictions the way FormData does for dS integrals
    (default_restrictions = {mesh: '+'} / None) and compares accept / raise with the model verdict, the
    value of input and output (vf/sem.py under the same two-sided environments) with each other and
    with the predicted meaning, and the structure of the real output with the predicted one;
  * sends scalar integrands through compute_form_data(expr*dS, do_apply_restrictions=True,
    do_apply_default_restrictions=True/False) and demands the property as stated: accepted exactly
    when the integrand has a two-sided meaning, value and structure preserved.

Slices (bounded instances: terminal pool, atoms, constructor levels) on the same mesh kind share one
TLC run (constant Configs); deep random terms come from TLC's simulation mode, seeded by ctx.seed.

Mesh kinds (MESHES): the model is instantiated with the degree and continuity of the coordinate field
and the geometric / topological dimension, i.e. with everything RestrictionPropagator.facet_normal
looks at.  The specification decides from them whether the two facet normals are opposite
(NormalsOpposite: affine non-manifold meshes only) or two independent vectors (degree-2 coordinates,
broken coordinates, triangles immersed in R^3), checks that the environments generated here grant
exactly that (ASSUME Admissible, ASSUME Discriminating) and predicts the propagated form; vectors have
GDim components.

Measures (MEASURES): besides dS over one mesh the model has integrals over two meshes A and B (Measure(..., A,
intersect_measures=(Measure(..., B),)): ds/\\dS, dx/\\dS (A a mesh of intervals), dS/\\ds, dS/\\dS, and dS over A with
B only in the integrand).  The specification derives from the integral types which domain is two-sided (DefRestr:
FormData's map of default restrictions, PropagatesOn: its guard; ASSUME GuardCovers), gives the terminals of a
one-sided domain one value and no meaning below a restriction, and transcribes the domain-dependent branches of
_require_restriction / _default_restricted / _opposite.  The real Measure is built from the same records; the
terminals the judgement treats as one-sided are those the specification dumps.
"""

from __future__ import annotations

import json
import os
import random
import time
import warnings

from .. import tlc
from ..common import MachineryError, main_wrapper
from ..scalar import Cx, Undefined, from_tla, to_tla

# ------------------------------------------------------------------------------------------------
# terminals: name -> (kind, sh); kinds are those of spec/Restrict.tla
# ------------------------------------------------------------------------------------------------

TERMINALS = {
    "f1": ("cg", 0),  # Coefficient, P1
    "f2": ("cg", 0),  # Coefficient, P2
    "u1": ("cg", 1),  # Coefficient, vector P1
    "u2": ("cg", 1),  # Coefficient, vector P2
    "g": ("dg", 0),  # Coefficient, DG1 (L2)
    "g0": ("dg", 0),  # Coefficient, DG0 (L2)
    "w": ("dg", 1),  # Coefficient, vector DG1 (L2)
    "q": ("dg", 1),  # Coefficient, HDiv-conforming (not in H1)
    "v": ("arg", 0),  # TestFunction, P1
    "vd": ("arg", 0),  # TrialFunction, DG1
    "vv": ("arg", 1),  # TestFunction, vector P2
    "x": ("x", 1),  # SpatialCoordinate
    "n": ("n", 1),  # FacetNormal
    "h": ("cellq", 0),  # CellVolume
    "cn": ("cellq", 1),  # CellNormal (manifold meshes, gdim = tdim + 1)
    "rn": ("sfacetq", 1),  # ReferenceNormal: facet quantity seen from the cell (gdim = tdim: shape (tdim,))
    "rc": ("cellq", 0),  # Circumradius (affine meshes only)
    "a": ("facetq", 0),  # FacetArea
    "mf": ("facetq", 0),  # MinFacetEdgeLength
    "c": ("const", 0),  # Constant
    "cv": ("const", 1),  # VectorConstant
    "two": ("lit", 0),
    "three": ("lit", 0),
}
# the same kinds on a second mesh (domain 2 of a multi-domain world): name + "_b"
for _nm in ("f1", "u1", "g", "w", "v", "x", "n", "h", "a", "c"):
    TERMINALS[_nm + "_b"] = TERMINALS[_nm]
LITVAL = {"two": 2, "three": 3}


def dom_of(nm):
    """Index (from 1) of the domain a terminal lives on."""
    return 2 if nm.endswith("_b") else 1


SINGLE = {"cg", "x", "facetq", "const", "lit"}
HANDLER = {
    "cg": "coefficient",
    "dg": "coefficient",
    "arg": "argument",
    "x": "spatial_coordinate",
    "n": "facet_normal",
    "cellq": "geometric_cell_quantity",
    "facetq": "geometric_facet_quantity",
    "sfacetq": "geometric_facet_quantity",
    "const": "constant",
    "lit": "constant_value",
}

INVARIANTS = (
    "TypeOK",
    "MeaningIffValid",
    "Sound",
    "RejectsExactlyInvalid",
    "RejectsDouble",
    "PropagateOnlyAsCoded",
    "DeviationOnlyWithoutDefaults",
    "DeviationKeepsMissing",
)

# mesh kinds: what facet_normal (and the mathematics of the two normals) distinguishes.  Cells are
# triangles (tdim 2); "h1": the coordinate element is H1-conforming.
MESHES = {
    "affine": {"deg": 1, "h1": True, "gdim": 2, "tdim": 2, "text": "affine mesh"},
    "p2mesh": {"deg": 2, "h1": True, "gdim": 2, "tdim": 2, "text": "P2 mesh"},
    "manifold": {"deg": 1, "h1": True, "gdim": 3, "tdim": 2, "text": "affine manifold mesh (triangles in R^3)"},
    "p2manifold": {"deg": 2, "h1": True, "gdim": 3, "tdim": 2, "text": "P2 manifold mesh (triangles in R^3)"},
    "dgmesh": {"deg": 1, "h1": False, "gdim": 2, "tdim": 2, "text": "mesh with broken P1 coordinates"},
    # a mesh of intervals in R^2 (the facets of a triangle mesh as a mesh of their own): only as the one-sided
    # domain of a multi-domain integral
    "codim1": {"deg": 1, "h1": True, "gdim": 2, "tdim": 1, "text": "affine mesh of intervals in R^2", "aux": True},
}
# integral types the propagation distinguishes (default_restriction_map: None / '+'), with the Measure names
MEASURE = {"cell": "dx", "exterior_facet": "ds", "interior_facet": "dS"}


def dS_only(mesh):
    """The domains of a plain interior-facet integral over one mesh."""
    return [{"mesh": mesh, "it": "interior_facet", "inm": True}]


def doms_text(doms):
    if len(doms) == 1 and doms[0]["it"] == "interior_facet":
        return MESHES[doms[0]["mesh"]]["text"]
    ms = [f"{MEASURE[d['it']]}({MESHES[d['mesh']]['text']})" for d in doms if d["inm"]]
    extra = [MESHES[d["mesh"]]["text"] for d in doms if not d["inm"]]
    return " /\\ ".join(ms) + (f", integrand also on a second {extra[0]} that is not in the Measure" if extra else "")

JAVA = "-DTLA-Library=" + os.path.join(os.path.dirname(os.path.dirname(os.path.dirname(os.path.abspath(__file__)))), "spec") + " -Xmx3g -Xmn256m -XX:ParallelGCThreads=2"


class Slice:
    """One bounded instance (a record of the constant Configs of spec/Restrict.tla).  atoms: operands
    available from the start, written "g", "g+", "g-", "grad(g)+", "rv(g)-" (default: the terminals)."""

    def __init__(self, name, terms, levels, maxnodes=None, mesh="affine", maxdead=0, simulate=None, depth=None, atoms=None, run=None, doms=None, form_every=None):
        self.name = name
        self.mesh = mesh
        self.doms = doms or dS_only(mesh)  # the Measure: domain 1 = mesh (primary), the others: intersect measures / integrand only
        if self.doms[0]["mesh"] != mesh:
            raise MachineryError(f"slice {name}: the primary domain is not the mesh {mesh}")
        self.form_every = form_every  # every n-th eligible integrand goes through compute_form_data (None: the tier's default)
        self.run = run or mesh
        self.terms = list(terms)
        self.atoms = list(atoms) if atoms is not None else list(terms)
        self.levels = [sorted(l) for l in levels]
        self.maxnodes = maxnodes or len(levels)
        self.maxdead = maxdead
        self.simulate = simulate
        self.depth = depth


class Run:
    """One world of a TLC run (an entry of the constants MeshesC / TermsC / TValC): slices on the same
    mesh kind and in the same mode (exhaustive / simulation) share the terminal table (the union of
    theirs) and the environments."""

    def __init__(self, name, slices=(), mesh="affine", simulate=None, depth=None, terms=None, nenv=2, doms=None):
        self.name = name
        self.slices = list(slices)
        self.mesh = mesh
        self.geo = MESHES[mesh]
        self.gdim = self.geo["gdim"]
        self.doms = doms or (self.slices[0].doms if self.slices else dS_only(mesh))
        if any(sl.doms != self.doms for sl in self.slices):
            raise MachineryError(f"run {name}: slices over different measures")
        self.text = doms_text(self.doms)
        # structural class of the measure in the fingerprints of a multi-domain world: e.g. "ds/dS", "dS/+" (+: only in the integrand)
        self.tag = "/".join(MEASURE[d["it"]] if d["inm"] else "+" for d in self.doms) if len(self.doms) > 1 else ""
        self.simulate = simulate
        self.depth = depth
        self.nenv = nenv
        self.terms = list(terms) if terms is not None else []
        for sl in self.slices:
            self.terms += [t for t in sl.terms if t not in self.terms]
        for nm in self.terms:
            if (nm in ("q", "rn") and self.gdim != self.geo["tdim"]) or (nm == "cn" and self.gdim != self.geo["tdim"] + 1):
                raise MachineryError(f"terminal {nm} is not available on the mesh kind {mesh} (vectors of the model have gdim components)")
            if dom_of(nm) > len(self.doms):
                raise MachineryError(f"terminal {nm}: the world {name} has no domain {dom_of(nm)}")

    def geo_of(self, nm):
        """Mesh kind of the domain of a terminal."""
        return MESHES[self.doms[dom_of(nm) - 1]["mesh"]]

    def eff_type(self, k):
        """Integral type of domain k (from 0) as FormData sees it -- ONLY used to build the real Measure / map; the
        one-sided domains the judgement relies on are those the specification dumps (checked against this)."""
        d = self.doms[k]
        return d["it"] if d["inm"] else self.doms[0]["it"]

    def to_json(self):
        return {"name": self.name, "terms": self.terms, "mesh": self.mesh, "nenv": self.nenv, "doms": self.doms}

    @staticmethod
    def from_json(j):
        mesh = j["mesh"] if "mesh" in j else "affine" if j["affine"] else "p2mesh"  # (replay files written before the mesh kinds)
        return Run(j["name"], (), mesh, terms=j["terms"], nenv=j.get("nenv", 2), doms=j.get("doms"))

    def atom_term(self, a):
        side = a[-1] if a[-1] in "+-" else None
        core = a[:-1] if side else a
        if core.startswith("grad("):
            t = ("grad", self.terms.index(core[5:-1]) + 1)
        elif core.startswith("rv("):
            t = ("rv", self.terms.index(core[3:-1]) + 1)
        else:
            t = ("T", self.terms.index(core) + 1)
        return ("R", t, side) if side else t


class Batch:
    """One invocation of TLC: several worlds (Run), each with its slices."""

    def __init__(self, name, runs, simulate=None, depth=None):
        self.name = name
        self.runs = list(runs)
        self.simulate = simulate
        self.depth = depth
        if len({r.nenv for r in self.runs}) != 1:
            raise MachineryError(f"batch {name}: worlds with different numbers of environments")
        self.nenv = self.runs[0].nenv
        self.nslices = sum(len(r.slices) for r in self.runs)


def batches(runs, quick):
    """Worlds -> TLC invocations (the JVM start and warm-up cost more than a small world): the quick tier
    explores every exhaustive world in one invocation, the thorough tier the affine worlds one by one and
    the other mesh kinds together; every simulation runs on its own."""
    multi = [r for r in runs if not r.simulate and len(r.doms) > 1]
    ex = [r for r in runs if not r.simulate and len(r.doms) == 1]
    out = []
    if quick:
        if ex:
            out.append(Batch("exhaustive", ex))
    else:
        out += [Batch(r.name, [r]) for r in ex if r.mesh == "affine"]
        rest = [r for r in ex if r.mesh != "affine"]
        if rest:
            out.append(Batch("meshes", rest))
    if multi:
        out.append(Batch("measures", multi))  # the multi-domain measures: an invocation of their own, beside the others
    out += [Batch(r.name, [r], r.simulate, r.depth) for r in runs if r.simulate]
    return [b for b in out if b.runs]


def group(sls):
    """Slices -> worlds: exhaustive slices of one mesh kind together, every simulation on its own."""
    runs = []
    for label in sorted({s.run for s in sls if not s.simulate}):
        ex = [s for s in sls if s.run == label and not s.simulate]
        if len({s.mesh for s in ex}) != 1:
            raise MachineryError(f"run {label}: slices on different mesh kinds")
        runs.append(Run(label, ex, ex[0].mesh, doms=ex[0].doms))
    for s in sls:
        if s.simulate:
            runs.append(Run(s.name, [s], s.mesh, s.simulate, s.depth, doms=s.doms))
    return runs


def tla_term(t):
    return "<<" + ", ".join(tla_term(x) if isinstance(x, tuple) else json.dumps(x) if isinstance(x, str) else str(x) for x in t) + ">>"


# ------------------------------------------------------------------------------------------------
# admissible two-sided environments (shared verbatim by TLC and the evaluator)
# ------------------------------------------------------------------------------------------------


def gen_envs(sl, seed):
    """envs[e][name][field]['+' | '-'] -> list of ints; field in v (value), g (gradient), r
    (reference value); vectors have gdim components.  The continuity constraints of the property are
    built in; the specification checks them (ASSUME Admissible) and that nothing more is built in for
    the facet normal (ASSUME Discriminating)."""
    G = sl.gdim
    rng = random.Random(seed * 1000003 + sum(ord(ch) for ch in sl.name) * 7919 + 5)
    envs = []
    for _ in range(sl.nenv):
        env = {}
        for nm in sl.terms:
            kind, sh = TERMINALS[nm]
            L = G if sh else 1
            geo = sl.geo_of(nm)  # the mesh kind of the terminal's own domain
            opposite_normals = geo["deg"] <= 1 and geo["h1"] and geo["gdim"] == geo["tdim"]

            def vec(n, avoid=()):
                while True:
                    mags = rng.sample(range(1, 10), n)
                    out = [m * rng.choice((1, 1, -1)) for m in mags]
                    if all(abs(o) != abs(a) for o, a in zip(out, avoid)):
                        return out

            def pair(n, same=False, opposite=False):
                p = vec(n)
                if same:
                    return {"+": p, "-": list(p)}
                if opposite:
                    return {"+": p, "-": [-z for z in p]}
                return {"+": p, "-": vec(n, avoid=p)}

            if kind == "lit":
                v = {"+": [LITVAL[nm]], "-": [LITVAL[nm]]}
            elif kind in SINGLE:
                v = pair(L, same=True)
            elif kind == "n" and opposite_normals:
                v = pair(L, opposite=True)
            else:
                v = pair(L)
            env[nm] = {"v": v, "g": pair(G), "r": pair(L, same=(kind == "cg"))}
        envs.append(env)
    return envs


def _tla_vec(xs):
    return "<<" + ", ".join(to_tla(Cx(int(z))) for z in xs) + ">>"


def _tla_pm(pm):
    return f"[p |-> {_tla_vec(pm['+'])}, m |-> {_tla_vec(pm['-'])}]"


def _tla_mesh(kind):
    g = MESHES[kind]
    return f'[name |-> "{kind}", deg |-> {g["deg"]}, h1 |-> {"TRUE" if g["h1"] else "FALSE"}, gdim |-> {g["gdim"]}, tdim |-> {g["tdim"]}]'


def mc_module(name, batch, envs):
    """envs[i] = the environments of batch.runs[i]."""
    meshes, doms, terms, tvals, cfgs = [], [], [], [], []
    for wi, run in enumerate(batch.runs):
        meshes.append(_tla_mesh(run.mesh))
        doms.append("<<" + ", ".join(f'[mesh |-> {_tla_mesh(d["mesh"])}, it |-> "{d["it"]}", inm |-> {"TRUE" if d["inm"] else "FALSE"}]' for d in run.doms) + ">>")
        terms.append("<<" + ", ".join(f'[nm |-> "{nm}", kind |-> "{TERMINALS[nm][0]}", sh |-> {TERMINALS[nm][1]}, dom |-> {dom_of(nm)}]' for nm in run.terms) + ">>")
        tv = []
        for env in envs[wi]:
            tv.append("<<" + ",\n    ".join(f"[v |-> {_tla_pm(env[nm]['v'])}, g |-> {_tla_pm(env[nm]['g'])}, r |-> {_tla_pm(env[nm]['r'])}]" for nm in run.terms) + ">>")
        tvals.append("<<" + ",\n   ".join(tv) + ">>")
        for sl in run.slices:
            levels = ", ".join("{" + ", ".join(json.dumps(o) for o in l) + "}" for l in sl.levels)
            atoms = ", ".join(tla_term(run.atom_term(a)) for a in sl.atoms)
            cfgs.append(f'[name |-> "{sl.name}", world |-> {wi + 1}, atoms |-> <<{atoms}>>, levels |-> <<{levels}>>, maxnodes |-> {sl.maxnodes}, maxdead |-> {sl.maxdead}]')
    sep = ",\n  "
    return f"""---- MODULE {name} ----
EXTENDS Restrict
MC_Meshes == <<{sep.join(meshes)}>>
MC_Doms == <<{sep.join(doms)}>>
MC_Terms == <<{sep.join(terms)}>>
MC_TVal == <<{sep.join(tvals)}>>
MC_Configs == <<{sep.join(cfgs)}>>
====
"""


def modes():
    """The propagation modes of the tree under test: "check" (the map only validates) exists when
    apply_restrictions has the parameter apply_default (the fix proposed for C17)."""
    import inspect

    from ufl.algorithms.apply_restrictions import apply_restrictions

    ms = ["default", "none"]
    if "apply_default" in inspect.signature(apply_restrictions).parameters:
        ms.append("check")
    return ms


def mc_cfg(batch, dump=True):
    lines = [
        "CONSTANTS",
        "MeshesC <- MC_Meshes",
        "DomsC <- MC_Doms",
        "TermsC <- MC_Terms",
        "TValC <- MC_TVal",
        "Configs <- MC_Configs",
        f"NEnv = {batch.nenv}",
        "Modes = {" + ", ".join(json.dumps(m) for m in modes()) + "}",
        "SPECIFICATION Spec",
    ]
    lines += [f"INVARIANT {i}" for i in INVARIANTS]
    if dump:
        lines.append("INVARIANT DumpInv")
    return "\n".join(lines) + "\n"


def run_tlc(batch, seed, workers=3, timeout=900):
    """-> ([environments of every world of the batch], TLC result)"""
    envs = [gen_envs(r, seed) for r in batch.runs]
    name = "MC_Restrict_" + "".join(ch if ch.isalnum() else "_" for ch in batch.name)
    kw = {}
    if batch.simulate:
        kw = dict(simulate=f"num={batch.simulate}", depth=batch.depth, seed=seed + 1)
    res = tlc.run(name, mc_cfg(batch), mc_text=mc_module(name, batch, envs), mc_name=name, workers=workers, timeout=timeout, env={"JAVA_TOOL_OPTIONS": JAVA}, **kw)
    return envs, res


# ------------------------------------------------------------------------------------------------
# the real world: ufl objects of a slice, the two-sided environment over them
# ------------------------------------------------------------------------------------------------


class Unrestricted(Exception):
    """The oracle was asked for the value of a side-dependent terminal outside any restriction."""


class OneSidedRestricted(Unrestricted):
    """The oracle was asked for the '+' / '-' value of a terminal of a one-sided domain."""


class World:
    def __init__(self, sl):
        import ufl
        from ufl.pullback import contravariant_piola, identity_pullback
        from ufl.sobolevspace import H1, L2, HDiv

        from ..elements import FiniteElement, LagrangeElement

        self.ufl = ufl
        self.sl = sl
        G = sl.gdim

        def dg(cell, deg, shape=()):
            return FiniteElement("Discontinuous Lagrange", cell, deg, shape, identity_pullback, L2)

        # one mesh per domain of the measure
        self.meshes, self.cells = [], []
        for d in sl.doms:
            geo = MESHES[d["mesh"]]
            cell = {1: ufl.interval, 2: ufl.triangle}[geo["tdim"]]
            ce = LagrangeElement(cell, geo["deg"], (G,)) if geo["h1"] else dg(cell, geo["deg"], (G,))
            self.meshes.append(ufl.Mesh(ce))
            self.cells.append(cell)
        self.mesh = self.meshes[0]
        # the Measure: primary domain and its intersect measures (Measure(..., intersect_measures=...))
        inter = tuple(ufl.Measure(MEASURE[d["it"]], m) for d, m in list(zip(sl.doms, self.meshes))[1:] if d["inm"])
        self.measure = ufl.Measure(MEASURE[sl.doms[0]["it"]], self.mesh, intersect_measures=inter or None)

        def on(f):
            """Constructor of a terminal on the mesh of its domain: f(mesh, cell, space)."""

            def make(nm):
                m, cell = self.meshes[dom_of(nm) - 1], self.cells[dom_of(nm) - 1]
                return f(m, cell, lambda e: ufl.FunctionSpace(m, e))

            return make

        mk = {
            "f1": on(lambda m, cell, space: ufl.Coefficient(space(LagrangeElement(cell, 1)))),
            "f2": on(lambda m, cell, space: ufl.Coefficient(space(LagrangeElement(cell, 2)))),
            "u1": on(lambda m, cell, space: ufl.Coefficient(space(LagrangeElement(cell, 1, (G,))))),
            "u2": on(lambda m, cell, space: ufl.Coefficient(space(LagrangeElement(cell, 2, (G,))))),
            "g": on(lambda m, cell, space: ufl.Coefficient(space(dg(cell, 1)))),
            "g0": on(lambda m, cell, space: ufl.Coefficient(space(dg(cell, 0)))),
            "w": on(lambda m, cell, space: ufl.Coefficient(space(dg(cell, 1, (G,))))),
            "q": on(lambda m, cell, space: ufl.Coefficient(space(FiniteElement("Raviart-Thomas", cell, 1, (2,), contravariant_piola, HDiv)))),
            "v": on(lambda m, cell, space: ufl.TestFunction(space(LagrangeElement(cell, 1)))),
            "vd": on(lambda m, cell, space: ufl.TrialFunction(space(dg(cell, 1)))),
            "vv": on(lambda m, cell, space: ufl.TestFunction(space(LagrangeElement(cell, 2, (G,))))),
            "x": on(lambda m, cell, space: ufl.SpatialCoordinate(m)),
            "n": on(lambda m, cell, space: ufl.FacetNormal(m)),
            "h": on(lambda m, cell, space: ufl.CellVolume(m)),
            "cn": on(lambda m, cell, space: ufl.CellNormal(m)),
            "rn": on(lambda m, cell, space: ufl.classes.ReferenceNormal(m)),
            "rc": on(lambda m, cell, space: ufl.Circumradius(m)),
            "a": on(lambda m, cell, space: ufl.FacetArea(m)),
            "mf": on(lambda m, cell, space: ufl.MinFacetEdgeLength(m)),
            "c": on(lambda m, cell, space: ufl.Constant(m)),
            "cv": on(lambda m, cell, space: ufl.VectorConstant(m)),
            "two": on(lambda m, cell, space: ufl.as_ufl(2)),
            "three": on(lambda m, cell, space: ufl.as_ufl(3)),
        }
        self.objs = [mk[nm[:-2] if nm.endswith("_b") else nm](nm) for nm in sl.terms]
        self.by_name = dict(zip(sl.terms, self.objs))
        self.name_of = {o: nm for nm, o in self.by_name.items() if TERMINALS[nm][0] != "lit"}
        # the kinds of the model must be the kinds of the real objects
        for nm, o in self.by_name.items():
            k = self.classify(o)
            if k != TERMINALS[nm][0]:
                raise MachineryError(f"terminal {nm}: model kind {TERMINALS[nm][0]} but the real object is {k}")
            if tuple(o.ufl_shape) != ((G,) if TERMINALS[nm][1] else ()):
                raise MachineryError(f"terminal {nm}: shape {o.ufl_shape}")
            if isinstance(o, (ufl.Coefficient, ufl.Argument)) and tuple(o.ufl_element().reference_value_shape) != tuple(o.ufl_shape):
                raise MachineryError(f"terminal {nm}: reference value shape {o.ufl_element().reference_value_shape}")
            if isinstance(o, (ufl.Coefficient, ufl.Argument)) and tuple(ufl.grad(o).ufl_shape) != (*o.ufl_shape, G):
                raise MachineryError(f"terminal {nm}: gradient shape {ufl.grad(o).ufl_shape}")
        # the mesh kinds of the model must be the kinds of the real meshes, the domain of a terminal its real domain
        for d, m in zip(sl.doms, self.meshes):
            geo = MESHES[d["mesh"]]
            ce = m.ufl_coordinate_element()
            real = {"deg": ce.embedded_superdegree, "h1": ce in H1, "gdim": m.geometric_dimension, "tdim": m.topological_dimension}
            if real != {k: geo[k] for k in real}:
                raise MachineryError(f"mesh kind {d['mesh']}: the model has {geo}, the real mesh {real}")
        for nm, o in self.by_name.items():
            if TERMINALS[nm][0] != "lit" and ufl.domain.extract_unique_domain(o) is not self.meshes[dom_of(nm) - 1]:
                raise MachineryError(f"terminal {nm}: not on domain {dom_of(nm)}")
        self.cache = {}
        self.one_sided = None  # names of the terminals of one-sided domains: from the first record of the specification

    def bind_sides(self, rec):
        """The one-sided terminals are those the specification says (dump field os); the integral types the real
        Measure was built from must say the same (default_restriction_map of the code under test)."""
        from ufl.algorithms.apply_restrictions import default_restriction_map

        os_ = set(rec.get("os", ()))
        if self.one_sided is None:
            mine = {nm for nm in self.sl.terms if default_restriction_map[self.sl.eff_type(dom_of(nm) - 1)] is None}
            if mine != os_:
                raise MachineryError(f"world {self.sl.name}: the specification has the one-sided terminals {sorted(os_)}, the measure {sorted(mine)}")
            self.one_sided = os_
        elif os_ != self.one_sided:
            raise MachineryError(f"world {self.sl.name}: records with different one-sided terminals")

    @staticmethod
    def classify(o):
        """Kind of a real terminal, from what the property's continuity assumptions depend on."""
        from ufl.classes import Argument, Coefficient, Constant, ConstantValue, FacetArea, FacetNormal, GeometricCellQuantity, MaxFacetEdgeLength, MinFacetEdgeLength, ReferenceNormal, SpatialCoordinate
        from ufl.sobolevspace import H1

        if isinstance(o, ConstantValue):
            return "lit"
        if isinstance(o, Constant):
            return "const"
        if isinstance(o, Argument):
            return "arg"
        if isinstance(o, Coefficient):
            return "cg" if o.ufl_element() in H1 else "dg"
        if isinstance(o, SpatialCoordinate):
            return "x"
        if isinstance(o, FacetNormal):
            return "n"
        if isinstance(o, (FacetArea, MinFacetEdgeLength, MaxFacetEdgeLength)):
            return "facetq"  # a quantity of the physical facet alone
        if isinstance(o, ReferenceNormal):
            return "sfacetq"  # the facet as a local facet of the cell
        if isinstance(o, GeometricCellQuantity):
            return "cellq"
        return "?" + type(o).__name__

    # ---- term -> real expression, through the public API ---------------------------------------
    def build(self, t):
        r = self.cache.get(t)
        if r is None:
            with warnings.catch_warnings():
                warnings.simplefilter("ignore")  # jump() of a domain-less expression warns and returns zero
                r = self._build(t)
            if len(self.cache) < 300000:
                self.cache[t] = r
        return r

    def _build(self, t):
        ufl = self.ufl
        op = t[0]
        if op == "T":
            return self.objs[t[1] - 1]
        if op == "half":
            return ufl.as_ufl(0.5)
        if op == "grad":
            return ufl.grad(self.objs[t[1] - 1])
        if op == "rv":
            from ufl.classes import ReferenceValue

            return ReferenceValue(self.objs[t[1] - 1])
        a = self.build(t[1])
        if op == "R":
            return a(t[2])
        if op == "var":
            return ufl.variable(a)
        if op == "neg":
            return -a
        if op == "idx":
            return a[t[2]]
        if op == "jump":
            return ufl.jump(a)
        if op == "avg":
            return ufl.avg(a)
        if op == "jumpn":
            return ufl.jump(a, self.by_name["n"])
        b = self.build(t[2])
        if op == "add":
            return a + b
        if op == "mul":
            return a * b
        if op == "div":
            return a / b
        if op == "dot":
            return ufl.dot(a, b)
        if op == "cond":
            return ufl.conditional(ufl.lt(a, b), self.build(t[3]), self.build(t[4]))
        raise MachineryError(f"unknown constructor {op}")

    # ---- the system under test ------------------------------------------------------------------
    def apply(self, expr, d):
        """apply_restrictions as FormData.__init__ calls it for an integral with an interior-facet domain: the map
        gives every domain the default restriction of its integral type."""
        from ufl.algorithms.apply_restrictions import apply_restrictions, default_restriction_map

        kw = {"default_restrictions": None if d == "none" else {m: default_restriction_map[self.sl.eff_type(k)] for k, m in enumerate(self.meshes)}}
        if d == "check":
            kw["apply_default"] = False
        if expr.ufl_shape == ():
            (integral,) = (expr * self.measure).integrals()
            return apply_restrictions(integral, **kw).integrand()
        return apply_restrictions(expr, **kw)

    def form_data(self, expr, d):
        from ufl.algorithms import compute_form_data

        fd = compute_form_data(expr * self.measure, do_apply_restrictions=True, do_apply_default_restrictions=(d == "default"), do_estimate_degrees=False)
        itgs = [i for idd in fd.integral_data for i in idd.integrals]
        if len(itgs) != 1:
            return None
        return itgs[0].integrand()


class TwoSidedEnv:
    """vf/sem.py environment: every terminal has a '+' and a '-' value; outside a restriction only a
    single-valued quantity has a value, anything else raises Unrestricted."""

    def __init__(self, world, env):
        self.w = world
        self.env = env

    def terminal(self, o, comp, derivs, side, ref):
        nm = self.w.name_of.get(o)
        if nm is None:
            raise MachineryError(f"unknown terminal {o!r}")
        kind = World.classify(o)
        if derivs:
            if ref or len(derivs) != 1 or comp:
                raise MachineryError(f"no data for derivatives {derivs} of {nm} (ref={ref}, comp={comp})")
            field, idx, single = "g", derivs[0], False
        elif ref:
            field, idx, single = "r", (comp[0] if comp else 0), kind == "cg"
        else:
            field, idx, single = "v", (comp[0] if comp else 0), kind in SINGLE
        if self.w.one_sided is None:
            raise MachineryError("the world is not bound to the one-sided terminals of the specification")
        if nm in self.w.one_sided:
            # one cell only: one value (slot '+' of the tables = field p of the specification), no sides
            if side is not None and kind != "const":
                raise OneSidedRestricted(f"{nm}:{field}")
            side = "+"
        elif side is None:
            if not single:
                raise Unrestricted(f"{nm}:{field}")
            side = "+"
        return Cx(self.env[nm][field][side][idx])


def veq(x, y):
    """Equality of two value vectors (None = undefined component)."""
    return len(x) == len(y) and all((a is None and b is None) or (a is not None and b is not None and a == b) for a, b in zip(x, y))


def eval_vec(expr, env):
    """[Cx | None per component]; raises Unrestricted."""
    from ..sem import Evaluator, comps

    ev = Evaluator(env)
    out = []
    for c in comps(expr.ufl_shape):
        try:
            out.append(ev.ev(expr, c, {}))
        except (Undefined, ZeroDivisionError, OverflowError):
            out.append(None)
    return out


# ------------------------------------------------------------------------------------------------
# structure of a real expression
# ------------------------------------------------------------------------------------------------


def leaves_of(w, expr):
    """({(name, chain, side)}, {problems}): which terminal occurs, through which chain (grad /
    reference_value directly on the terminal), below which restriction ('0' = none)."""
    from ufl.classes import ConstantValue, Grad, Label, MultiIndex, ReferenceValue, Restricted, Terminal, Variable

    leaves, problems, seen = set(), set(), set()

    def chain_of(o):
        if isinstance(o, Terminal):
            return o, ""
        if isinstance(o, Grad) and isinstance(o.ufl_operands[0], Terminal):
            return o.ufl_operands[0], "grad"
        if isinstance(o, ReferenceValue) and isinstance(o.ufl_operands[0], Terminal):
            return o.ufl_operands[0], "rv"
        return None, None

    def leaf(t, ch, side):
        if isinstance(t, (MultiIndex, Label, ConstantValue)):
            if side != "0" and ch == "" and isinstance(t, ConstantValue):
                problems.add("restricted-literal")
            return
        nm = w.name_of.get(t)
        if nm is None:
            problems.add("foreign-terminal:" + type(t).__name__)
            return
        leaves.add((nm, ch, side))

    def walk(o, side):
        key = (id(o), side)
        if key in seen:
            return
        seen.add(key)
        if isinstance(o, Restricted):
            if side != "0":
                problems.add("double-restriction")
            t, ch = chain_of(o.ufl_operands[0])
            if t is None:
                problems.add("restriction-on-nonterminal:" + type(o.ufl_operands[0]).__name__)
                walk(o.ufl_operands[0], o.side())
            else:
                leaf(t, ch, o.side())
            return
        t, ch = chain_of(o)
        if t is not None:
            leaf(t, ch, side)
            return
        if isinstance(o, Variable):
            problems.add("variable")
        for x in o.ufl_operands:
            walk(x, side)

    walk(expr, "0")
    return leaves, problems


def structure_findings(w, out, d, leaves, problems, opposite):
    """Structural postcondition of the property on a real result (independent of the model's
    propagation; opposite = the facet normals whose two values the specification calls opposite;
    w.one_sided = the terminals of the domains the specification calls one-sided)."""
    F = []
    for p in sorted(problems):
        if p.startswith(("restriction-on-nonterminal", "double-restriction", "restricted-literal", "foreign-terminal")):
            F.append(("C17:structure:" + p, f"the result contains a {p}"))
        elif p == "variable":
            F.append(("C17:structure:variable-not-stripped", "a Variable survives the propagation"))
    for nm, ch, side in sorted(leaves):
        kind = TERMINALS[nm][0]
        if nm in w.one_sided:
            if side != "0" and kind != "const":
                F.append((f"C17:structure:restricted-one-sided:{ch or kind}", f"{ch + ' of ' if ch else ''}{nm} ({kind}) lives on a one-sided domain and is restricted in the result"))
            continue
        single = (kind in SINGLE and ch == "") or (kind == "cg" and ch == "rv")
        if side == "0" and not single:
            F.append((f"C17:structure:unrestricted:{ch or kind}", f"{ch + ' of ' if ch else ''}{nm} ({kind}) is not below a restriction in the result"))
        if kind == "const" and side != "0":
            F.append(("C17:structure:restricted-constant", f"the constant {nm} is restricted in the result"))
        if d == "default" and side == "0" and kind not in ("const", "lit"):
            F.append((f"C17:structure:default-not-applied:{ch or kind}", f"{nm} is not restricted although defaults are applied"))
        if d != "none" and nm in opposite and kind == "n" and side == "-":
            F.append(("C17:structure:facet-normal-minus-left", "n('-') survives on an affine mesh with default restrictions"))
    return F


# ------------------------------------------------------------------------------------------------
# judgement of one dumped record (pure: returns findings; used by run, replay and selftest)
# ------------------------------------------------------------------------------------------------


def tup(t):
    return tuple(tup(x) if isinstance(x, list) else x for x in t)


def term_text(sl, t):
    op = t[0]
    if op == "T":
        return sl.terms[t[1] - 1]
    if op == "half":
        return "0.5"
    if op in ("grad", "rv"):
        return f"{'grad' if op == 'grad' else 'reference_value'}({sl.terms[t[1] - 1]})"
    if op == "R":
        return f"({term_text(sl, t[1])})('{t[2]}')"
    if op == "idx":
        return f"({term_text(sl, t[1])})[{t[2]}]"
    if op == "cond":
        return f"conditional({term_text(sl, t[1])} < {term_text(sl, t[2])}, {term_text(sl, t[3])}, {term_text(sl, t[4])})"
    if op == "jumpn":
        return f"jump({term_text(sl, t[1])}, n)"
    if op in ("var", "neg", "jump", "avg"):
        return f"{ {'var': 'variable', 'neg': '-'}.get(op, op) }({term_text(sl, t[1])})"
    sym = {"add": "+", "mul": "*", "div": "/"}.get(op)
    if sym:
        return f"({term_text(sl, t[1])} {sym} {term_text(sl, t[2])})"
    return f"{op}({term_text(sl, t[1])}, {term_text(sl, t[2])})"


def _handler_of(w, envs, in_leaves, d, top):
    """Localise a value change: the first primitive restricted terminal whose value the real
    propagation changes names the handler."""
    from ufl.classes import ReferenceValue

    for nm, ch, side in sorted(in_leaves):
        o = w.by_name[nm]
        e = w.ufl.grad(o) if ch == "grad" else ReferenceValue(o) if ch == "rv" else o
        if side != "0":
            e = e(side)
        try:
            out = w.apply(e, d)
            for env in envs:
                if not veq(eval_vec(e, env), eval_vec(out, env)):
                    return {"grad": "grad", "rv": "reference_value"}.get(ch) or HANDLER[TERMINALS[nm][0]]
        except Exception:  # noqa: BLE001 - localisation only
            continue
    return "operator:" + top


MODE_TEXT = {"default": "defaults on", "none": "defaults off", "check": "defaults off, checked"}
MODE_KEY = {"default": "d", "none": "nd", "check": "ck"}


def _bump(stats, key, n=1):
    stats[key] = stats.get(key, 0) + n


def _missing_handler(rec):
    """Handler name of (the first of) the terminals that lack a restriction."""
    k = _first(rec["missing"])
    return "grad" if k == "grad" else "reference_value" if k.startswith("rv-") else HANDLER.get(k, k)


def judge(w, envs, rec, stats, form_every=0):
    """Findings [(fingerprint, text)] for one TLC record on the real code."""
    sl = w.sl
    term = tup(rec["term"])
    d = rec["d"]
    text = f"{term_text(sl, term)} [{MODE_TEXT[d]}, {sl.text}]"
    w.bind_sides(rec)
    try:
        expr = w.build(term)
    except Exception as exc:  # noqa: BLE001
        raise MachineryError(f"building {text} failed: {type(exc).__name__}: {exc}") from exc
    in_leaves, _ = leaves_of(w, expr)
    want_in = {(l["nm"], l["ch"], l["s"]) for l in rec["inleaves"]}
    if in_leaves != want_in or _collapsed(term, expr):
        _bump(stats, "construction_simplified")
        return []
    _bump(stats, "judged")
    F = _judge_direct(w, envs, rec, term, expr, in_leaves, text, stats)
    if isinstance(form_every, dict):
        form_every = form_every.get(rec["cfg"], 0)
    if form_every and not F and d != "check" and expr.ufl_shape == () and _form_ok(sl, term):
        _bump(stats, "form_eligible")
        if stats["form_eligible"] % form_every == 0:
            F += _judge_form(w, envs, rec, expr, text, stats)
    if sl.tag:
        F = [(f"{fp}:{sl.tag}", what) for fp, what in F]
    return F


def _judge_direct(w, envs, rec, term, expr, in_leaves, text, stats):
    """apply_restrictions called the way FormData calls it (default_restrictions = {mesh: '+'} / None)."""
    d = rec["d"]
    try:
        out = w.apply(expr, d)
        real, msg = "accept", ""
    except Exception as exc:  # noqa: BLE001 - the refusal is the observable
        out, real, msg = None, "reject", f"{type(exc).__name__}: {exc}"
    model = rec["verdict"]
    _bump(stats, f"{model}/{real}/{_klass(rec)}/{MODE_KEY[d]}")
    F = []
    if real == "reject":
        why = "twice" if "twice" in msg else "must-be-restricted" if "must be restricted" in msg else "inconsistent" if "Inconsistent restrictions" in msg else "other"
        if model == "accept":
            if rec["valid"]:
                F.append((f"C17:rejects-valid:{why}", f"{text}: valid integrand refused: {msg}"))
            else:
                _bump(stats, "stricter_than_model")  # an invalid integrand refused where the model predicts acceptance
        elif why == "other":
            F.append(("C17:reject-reason:" + msg.split(":")[0], f"{text}: refused with an unexpected error {msg}"))
        elif why != rec["why"] and sum(map(bool, (rec["nested"], rec["missing"], rec.get("onesided")))) < 2:
            _bump(stats, "reject_reason_differs")
        return F
    out_leaves, problems = leaves_of(w, out)
    if model == "reject":
        if rec["nested"]:
            F.append(("C17:accepted-double-restriction", f"{text}: a restriction below a restriction is accepted -> {str(out)[:120]}"))
        elif rec["missing"]:
            F.append((f"C17:accepted-missing-restriction:{_missing_handler(rec)}", f"{text}: accepted although {rec['missing']} lack a restriction -> {str(out)[:120]}"))
        else:
            # only a restricted quantity of a one-sided domain: neither a missing nor a double restriction
            _bump(stats, "restricted_one_sided_accepted")
        return F
    want_out = {(l["nm"], l["ch"], l["s"]) for l in rec["leaves"]}
    if rec["dev"]:
        # default_restrictions=None is documented as "just propagate restrictions": the model predicts that an
        # integrand without a meaning passes; whether anything rejects it is judged on compute_form_data
        _bump(stats, "propagate_only_passes_missing")
        if not out_leaves <= want_out:
            F.append(("C17:structure:leaves-differ", f"{text}: result has {sorted(out_leaves)} predicted {sorted(want_out)}"))
        return F
    # valid and accepted: structure and value
    F += [(fp, f"{text}: {what} -> {str(out)[:120]}") for fp, what in structure_findings(w, out, d, out_leaves, problems, _opposite_normals(w, rec))]
    if out_leaves != want_out:
        # rebuilding an operator from propagated operands may fold it (a conditional whose branches became
        # equal): leaves may disappear (the value is compared below), none may appear
        if out_leaves <= want_out:
            _bump(stats, "result_simplified")
        elif not F:
            F.append(("C17:structure:leaves-differ", f"{text}: result has {sorted(out_leaves)} predicted {sorted(want_out)}"))
    for e, env in enumerate(envs):
        try:
            vin = eval_vec(expr, env)
        except Unrestricted as exc:
            raise MachineryError(f"{text}: the model calls the integrand valid but the oracle met the unrestricted {exc}") from exc
        pred = [from_tla(v) for v in rec["vals"][e]]
        if len(pred) != len(vin):
            raise MachineryError(f"{text}: predicted {len(pred)} components, real {len(vin)}")
        bad = False
        for p, r in zip(pred, vin):
            _bump(stats, "evals")
            if p is None:
                _bump(stats, "undefined_skipped")
            elif r is None or p != r:
                F.append((f"C17:input-meaning-differs:{term[0]}", f"{text}: env {e}: the model predicts {p} for the integrand, the real expression denotes {r}"))
                bad = True
                break
        if bad:
            break
        try:
            vout = eval_vec(out, env)
        except Unrestricted as exc:
            nm = str(exc).split(":")[0]
            what = "restricted-one-sided" if isinstance(exc, OneSidedRestricted) else "unrestricted"
            F.append((f"C17:structure:{what}:{TERMINALS[nm][0]}", f"{text}: evaluating the result met the {what} {exc} -> {str(out)[:120]}"))
            break
        _bump(stats, "evals", len(vout))
        if not veq(vout, vin):
            h = _handler_of(w, envs, in_leaves, d, term[0])
            if h == "facet_normal" and w.sl.mesh != "affine":
                h += ":" + w.sl.mesh  # the one rule that depends on the mesh kind
            F.append((f"C17:value-changed:{h}", f"{text}: env {e}: value {_fmt(vin)} before, {_fmt(vout)} after -> {str(out)[:120]}"))
            break
    return F


def _judge_form(w, envs, rec, expr, text, stats):
    """The same integrand through compute_form_data(expr*dS, do_apply_restrictions=True,
    do_apply_default_restrictions=d).  Here the property is demanded as stated: an integrand is accepted
    exactly when it has a two-sided meaning, in both modes."""
    d = rec["d"]
    _bump(stats, "forms")
    try:
        out = w.form_data(expr, d)
        real, msg = "accept", ""
    except Exception as exc:  # noqa: BLE001
        out, real, msg = None, "reject", f"{type(exc).__name__}: {exc}"
    _bump(stats, f"form:{'valid' if rec['valid'] else 'invalid'}/{real}/{MODE_KEY[d]}")
    if not rec.get("prop", True):
        raise MachineryError(f"{text}: the specification does not propagate restrictions on this integral (no interior-facet domain in the Measure)")
    if not rec["valid"]:
        if real == "reject":
            return []
        if rec["nested"]:
            return [("C17:accepted-double-restriction:compute_form_data", f"{text}: compute_form_data accepts a restriction below a restriction")]
        if not rec["missing"]:
            _bump(stats, "form_restricted_one_sided_accepted")
            return []
        mode = "" if d == "default" else "default-off:"
        return [(f"C17:accepted-missing-restriction:{mode}{_missing_handler(rec)}", f"{text}: compute_form_data(do_apply_default_restrictions={d == 'default'}) accepts the integrand although {rec['missing']} lack a restriction -> {str(out)[:120]}")]
    if real == "reject":
        if "restrict" in msg.lower():
            return [("C17:rejects-valid:compute_form_data", f"{text}: compute_form_data refuses the valid dS integrand: {msg}")]
        _bump(stats, "form_refused_elsewhere")
        return []
    if out is None:
        _bump(stats, "forms_dropped")
        return []
    leaves, problems = leaves_of(w, out)
    F = [(fp + ":compute_form_data", f"{text}: {what} (through compute_form_data)") for fp, what in structure_findings(w, out, d, leaves, problems, _opposite_normals(w, rec))]
    for e, env in enumerate(envs):
        try:
            if not veq(eval_vec(out, env), eval_vec(expr, env)):
                F.append(("C17:value-changed:compute_form_data", f"{text}: env {e}: the integrand of the form data denotes {_fmt(eval_vec(out, env))}, the original {_fmt(eval_vec(expr, env))}"))
                break
        except Unrestricted as exc:
            what = "restricted-one-sided" if isinstance(exc, OneSidedRestricted) else "unrestricted"
            F.append((f"C17:structure:{what}:compute_form_data", f"{text}: the integrand of the form data has the {what} {exc}"))
            break
    return F


def _klass(rec):
    return "valid" if rec["valid"] else "nested" if rec["nested"] else "missing" if rec["missing"] else "onesided"


def _opposite_normals(w, rec):
    """The facet normals (names) whose two values are opposite according to the specification."""
    if "oppn" in rec:
        return set(rec["oppn"])
    if "opp" in rec:  # replay files written before the multi-domain measures
        opp = rec["opp"]
    else:  # replay files written before the mesh kinds: "affine" / "p2mesh" only
        opp = w.sl.mesh == "affine"
    return {nm for nm in w.sl.terms if TERMINALS[nm][0] == "n"} if opp else set()


def _first(xs):
    return sorted(xs)[0] if xs else "?"


def _fmt(v):
    return "[" + ", ".join("undef" if z is None else repr(z) for z in v) + "]"


def _collapsed(term, expr):
    """ufl simplified the construction into something else (conditional with equal branches)."""
    from ufl.classes import Conditional, Restricted, Sum, Variable

    want = {"cond": Conditional, "add": Sum, "R": Restricted, "var": Variable}.get(term[0])
    return want is not None and not isinstance(expr, want)


def _form_ok(sl, t):
    """Integrands the whole pipeline accepts unchanged in meaning: no arguments (arity checks), no
    reference values (pull-back stage)."""
    if t[0] == "T":
        return TERMINALS[sl.terms[t[1] - 1]][0] != "arg"
    if t[0] == "rv":
        return False
    if t[0] == "grad":
        return TERMINALS[sl.terms[t[1] - 1]][0] != "arg"
    return all(_form_ok(sl, x) for x in t[1:] if isinstance(x, tuple))


# ------------------------------------------------------------------------------------------------
# slices
# ------------------------------------------------------------------------------------------------

BASE = {"use", "R", "grad", "rv"}
ARITH = {"add", "mul", "neg", "div"}
DEEP = {"R", "var", "neg", "idx", "jump", "avg", "jumpn", "add", "mul", "div", "dot"}


def pm(*names):
    return [n + s for n in names for s in "+-"]


def _dom(mesh, it, inm=True):
    return {"mesh": mesh, "it": it, "inm": inm}


# Measures over two meshes A (primary, terminals f1, g, ...) and B (terminals f1_b, g_b, ...): name ->
# (domains, terminals quick, terminals thorough).  No facet quantity on a domain with a cell integral
# (_check_facet_geometry refuses it) and none on a domain that is not in the Measure.
MEASURES = {
    # exterior facets of A that are interior facets of B: the primary integral type is not interior_facet
    "ds-dS": ([_dom("affine", "exterior_facet"), _dom("affine", "interior_facet")], ["f1", "g", "n", "f1_b", "g_b", "n_b"], ["f1", "g", "n", "v", "f1_b", "g_b", "n_b", "h_b"]),
    # cells of a mesh of intervals A that are interior facets of the triangle mesh B
    "dx-dS": ([_dom("codim1", "cell"), _dom("affine", "interior_facet")], ["f1", "g", "x", "f1_b", "g_b", "n_b"], ["f1", "g", "x", "h", "f1_b", "g_b", "n_b", "a_b"]),
    # interior facets of A on the boundary of B
    "dS-ds": ([_dom("affine", "interior_facet"), _dom("affine", "exterior_facet")], ["f1", "g", "n", "f1_b", "g_b", "n_b"], ["f1", "g", "n", "h", "f1_b", "g_b", "n_b", "c_b"]),
    # interior facets of both, B with P2 coordinates (the rule of the facet normal looks at the normal's own mesh)
    "dS-dS": ([_dom("affine", "interior_facet"), _dom("p2mesh", "interior_facet")], ["f1", "g", "n", "g_b", "n_b"], ["f1", "g", "n", "x", "f1_b", "g_b", "n_b", "u1_b"]),
    # B only in the integrand: FormData gives it the primary integral type
    "dS-extra": ([_dom("affine", "interior_facet"), _dom("affine", "interior_facet", False)], ["f1", "g", "n", "f1_b", "g_b", "x_b"], ["f1", "g", "n", "a", "f1_b", "g_b", "x_b", "h_b"]),
}


def measure_slices(q):
    """Multi-domain measures: operators below a restriction (the restriction must travel through them to the
    terminals of the two-sided domain and stop at nothing of a one-sided one), restricted terminals below operators."""
    out = []
    for name, (doms, tq, tt) in MEASURES.items():
        T = tq if q else tt
        vec = [t for t in T if TERMINALS[t][1] == 1]
        mesh = doms[0]["mesh"]
        bin_ = {"mul", "dot"} if vec else {"mul"}
        kw = dict(mesh=mesh, doms=doms, run=name, form_every=1 if q else 2)
        if q:
            out.append(Slice(name + ":ops-R", T, [{"use", "R", *bin_}, {"R"}], **kw))
            if any(d["it"] != "interior_facet" for d in doms[:2]) and mesh == "affine":  # (the quick tier: under ds /\\ dS and dS /\\ ds only)
                out.append(Slice(name + ":R-ops", T, [{"R", "grad"}, {"neg", "add", *bin_}], **kw))
        else:
            out.append(Slice(name + ":ops-R", T, [{"use", "R", "grad", "add", *bin_}, {"R", "neg", "idx", "jump", "avg"}], **kw))
            out.append(Slice(name + ":R-ops", T, [{"R", "grad", "rv"}, {"R", "neg", "add", "div", "jumpn", *bin_}], **kw))
            if any(d["it"] != "interior_facet" for d in doms[:2]) and mesh == "affine":
                out.append(Slice(name + ":cond", ["g", "f1_b", "g_b"], [{"R"}, {"cond"}], **kw))
    if not q:
        doms, _, T = MEASURES["ds-dS"]
        out.append(Slice("ds-dS:deep", T, [DEEP | {"use"}] + [DEEP] * 5, maxnodes=6, doms=doms, simulate=300, depth=8, form_every=2, atoms=[*T, *pm("g_b", "n_b", "h_b", "f1_b", "g"), "grad(f1_b)+", "grad(g)"]))
    return out


def slices(tier):
    """Terms are built as combs over the atoms (maxdead = 0: every call uses the previous result),
    except where maxdead > 0 allows two constructed operands."""
    q = tier == "quick"
    T1 = ["f1", "u2", "g", "w", "q", "v", "vv", "x", "n", "h", "rc", "a", "mf", "c", "cv"]
    T2 = ["f2", "g0", "vd", "x", "n", "rn", "h", "a", "c"]
    # triangles in R^3: vectors have three components
    TM = ["f1", "w", "v", "x", "n", "cn", "h"] if q else ["f1", "u1", "g", "w", "v", "x", "n", "cn", "h", "a", "c"]
    TN = ["n", "g"] if q else ["n", "x", "g", "h"]
    GEOM = ["n", "x", "u1", "w", "h", "cn"]
    UN = {"R", "var", "neg", "idx", "jump", "avg", "jumpn"}
    GEO = ["n", "x", "u2", "w", "h", "a"]
    GRD = ["f2", "g", "v", "n"]
    DEEPT = ["f1", "u2", "g", "w", "v", "n", "h", "c", "two"]
    DEEPA = ["f1", "u2", "c", "two", "g", "n", *pm("g", "w", "v", "n", "h"), "f1-", "grad(f1)+", "grad(g)-"]
    out = [
        # every terminal kind, bare and below one / two restrictions, through the unary constructors
        Slice("terminals", T1, [BASE, UN, {"R"}]),
        Slice("terminals-p2mesh", T2, [BASE, UN, {"R"}], mesh="p2mesh"),
        # the mesh kinds on which the two facet normals are independent although the coordinate field has degree 1
        # (immersed manifold, broken coordinates), and the curved manifold
        Slice("terminals-manifold", TM, [BASE, UN, {"R"}], mesh="manifold"),
        Slice("normals-dgmesh", TN, [BASE, UN, {"R"}], mesh="dgmesh"),
        Slice("normals-p2manifold", TN, [BASE, UN, {"R"}], mesh="p2manifold"),
    ]
    if q:
        out += [
            Slice("arith", ["f1", "g", "c", "two"], [ARITH | {"R", "var"}, {"R", "mul"}], atoms=["f1", "g", "c", "two", "g+", "g-"]),
            Slice("geometry", GEO, [{"R", "dot", "mul", "idx", "jumpn"}, {"R", "add", "neg"}], atoms=["n", "x", "u2", "w", "h", *pm("n", "w"), "h-", "a-"]),
            Slice("grad", GRD, [{"R", "dot", "idx", "var", "grad", "rv"}, {"R", "mul", "avg"}], atoms=["f2", "g", "v", "n", "grad(f2)+", "grad(g)-", "grad(v)-", "rv(g)+", "rv(v)-", "n-", "rv(f2)"]),
            Slice("cond", ["f1", "g", "h"], [{"cond", "R"}, {"R"}], atoms=["f1", "g", "g+", "g-", "h-"]),
            Slice("two-branch", ["f1", "g", "n"], [{"R", "idx"}, {"R", "idx"}, {"add", "div"}], maxdead=1, atoms=["f1", "g", "n"]),
            Slice("deep", DEEPT, [DEEP | {"use"}] + [DEEP] * 4, maxnodes=5, simulate=40, depth=7, atoms=DEEPA),
            Slice("geometry-manifold", ["n", "w", "cn"], [{"R", "dot", "mul", "idx", "jumpn"}, {"R", "neg"}], mesh="manifold", atoms=["n", "w", "cn", *pm("n"), "w-", "cn+"]),
        ]
    else:
        out += [
            # scalar arithmetic over continuous / discontinuous / constant / literal operands
            Slice("arith", ["f1", "g", "c", "two"], [ARITH | {"R", "var"}, ARITH | {"R"}], atoms=["f1", "g", "c", "two", *pm("f1", "g")]),
            Slice("arith3", ["f1", "g", "c"], [{"R", "mul", "div"}, {"R", "add", "mul"}, {"R", "add"}], atoms=["f1", "g", "c", "g+", "g-"]),
            # geometry: normal, coordinate, cell and facet quantities with vectors
            Slice("geometry", GEO, [{"R", "dot", "mul", "idx", "jumpn"}, {"R", "add", "mul", "neg", "dot"}], atoms=[*GEO, *pm("n", "w", "h"), "x-", "u2-", "a-"]),
            Slice("geometry-p2mesh", ["n", "x", "w", "h"], [{"R", "dot", "mul", "idx", "jumpn"}, {"R", "add", "neg", "dot"}, {"R"}], mesh="p2mesh", atoms=["n", "x", "w", "h", *pm("n", "w"), "h+", "x-"]),
            # gradients, reference values, arguments
            Slice("grad", GRD, [{"R", "dot", "mul", "idx", "var", "grad", "rv"}, {"R", "mul", "add", "jumpn", "avg", "dot"}], atoms=[*GRD, *pm("grad(f2)", "grad(g)", "grad(v)", "rv(g)", "rv(v)", "n", "v"), "rv(f2)", "rv(f2)-"]),
            # conditionals
            Slice("cond", ["f1", "g", "h"], [{"cond", "R"}, {"R", "add"}], atoms=["f1", "g", "h", *pm("g", "h"), "f1-"], run="affine-b"),
            Slice("cond-nested", ["f1", "g"], [{"R"}, {"cond"}, {"R"}], atoms=["f1", "g", "g+", "g-"], run="affine-b"),
            # two constructed operands
            Slice("two-branch", ["f1", "g", "n", "w"], [{"R", "idx"}, {"R", "dot", "mul"}, {"add", "mul", "div"}], maxdead=1, atoms=["f1", "g", "n", "w", "g+", "n-"], run="affine-b"),
            # deeper random terms
            Slice("deep", DEEPT, [DEEP | {"use"}] + [DEEP] * 5, maxnodes=6, simulate=1000, depth=8, atoms=DEEPA),
            Slice("geometry-manifold", GEOM, [{"R", "dot", "mul", "idx", "jumpn"}, {"R", "add", "mul", "neg", "dot"}], mesh="manifold", atoms=[*GEOM, *pm("n", "w", "h", "cn"), "x-", "u1-"]),
            Slice("deep-manifold", ["f1", "u1", "g", "w", "v", "x", "n", "cn", "h", "a", "c"], [DEEP | {"use"}] + [DEEP] * 5, maxnodes=6, mesh="manifold", simulate=500, depth=8, atoms=["f1", "u1", "x", "a", "c", "g", "n", *pm("g", "w", "v", "n", "h", "cn"), "f1-", "grad(f1)+", "grad(g)-"]),
            Slice("deep-p2mesh", ["f2", "g0", "w", "vd", "x", "n", "h", "a", "c"], [DEEP | {"use"}] + [DEEP] * 5, maxnodes=6, mesh="p2mesh", simulate=500, depth=8, atoms=["f2", "x", "a", "c", "g0", "n", *pm("g0", "w", "vd", "n", "h"), "f2-"]),
        ]
    return out + measure_slices(q)


# ------------------------------------------------------------------------------------------------
# driver
# ------------------------------------------------------------------------------------------------


def records_of(res):
    recs, seen = [], set()
    for r in tlc.decode_prints(res):
        k = json.dumps([r["cfg"], r["term"], r["d"]])
        if k not in seen:
            seen.add(k)
            recs.append(r)
    return recs


def _judge_chunk(args):
    """Worker: judge a chunk of records of one run (own World: ufl objects do not travel)."""
    runj, envs, recs, form_every = args
    w = World(Run.from_json(runj))
    tenvs = [TwoSidedEnv(w, e) for e in envs]
    stats, found = {}, []
    for rec in recs:
        st = stats.setdefault(rec["cfg"], {})
        for fp, what in judge(w, tenvs, rec, st, form_every=form_every):
            found.append((fp, what, rec))
    return stats, found


def conform(ctx, run, envs, recs, pool, form_every, best):
    t0 = time.time()
    runj = run.to_json()
    if pool is None or len(recs) < 600:
        results = [_judge_chunk((runj, envs, recs, form_every))]
    else:
        n = 1500 if len(recs) >= 6000 else max(200, -(-len(recs) // 4))
        results = pool.map(_judge_chunk, [(runj, envs, recs[i : i + n], form_every) for i in range(0, len(recs), n)])
    stats, found = {}, []
    for s, f in results:
        for cfg, st in s.items():
            tot = stats.setdefault(cfg, {})
            for k, v in st.items():
                tot[k] = tot.get(k, 0) + v
        found += f
    for fp, what, rec in found:
        ctx.count("findings:" + fp)
        key = (len(json.dumps(rec["term"])), run.name, json.dumps(rec["term"]))
        if fp not in best or key < best[fp][0]:
            best[fp] = (key, what, {"world": runj, "envs": envs, "rec": rec})
    nm_cases = ctx.cov.setdefault("normal_minus_cases", {})  # mesh kind -> valid integrands with n below '-', validating modes
    for r in recs:
        if r["term"][0] != "T":
            ctx.distinct(json.dumps([run.name, r["cfg"], r["term"], r["d"]]))
        if len(run.doms) == 1 and r["valid"] and r["verdict"] == "accept" and r["d"] != "none" and any(TERMINALS[l["nm"]][0] == "n" and l["s"] == "-" for l in r["inleaves"]):
            nm_cases[run.mesh] = nm_cases.get(run.mesh, 0) + 1
    for sl in run.slices:
        st = stats.get(sl.name, {})
        mine = [r for r in recs if r["cfg"] == sl.name]
        if not mine:
            raise MachineryError(f"slice {sl.name}: TLC dumped no term")
        terms = {json.dumps(r["term"]) for r in mine}
        ctx.traces(st.get("judged", 0))
        ctx.evaluated(st.get("evals", 0))
        ctx.count("undefined_skipped", st.get("undefined_skipped", 0))
        ctx.count("terms", len(terms))
        ctx.count("forms_through_compute_form_data", st.get("forms", 0))
        ctx.cov.setdefault("slices", []).append({"slice": sl.name, "run": run.name, "mesh": run.mesh, "measure": run.text, "domains": len(run.doms), "terms": len(terms), "records": len(mine), "status": {k: v for k, v in sorted(st.items())}})
        print(f"  slice {sl.name}: terms={len(terms)} records={len(mine)} judged={st.get('judged', 0)} forms={st.get('forms', 0)} simplified={st.get('construction_simplified', 0)}", flush=True)
    ctx.count("replay_s", round(time.time() - t0, 1))
    return stats


def run(ctx, args):
    if args.selftest:
        return selftest(ctx)
    import ufl

    print(f"  ufl: {ufl.__file__}", flush=True)
    quick = ctx.tier == "quick"
    ctx.rule = (
        "TLC builds interior-facet integrands bottom-up (one action per constructor: terminal kinds H1/non-H1 coefficient, argument, x, n, cell and "
        "facet quantities, Constant, literal; grad / reference_value of a terminal, t('+'), t('-'), variable, -, +, *, /, dot, [i], conditional, jump, "
        "jump(.,n), avg), level by level per slice (exhaustive) and by simulation for deeper terms, on every mesh kind facet_normal distinguishes (triangles: affine, "
        "P2 coordinates, affine immersed in R^3, P2 immersed in R^3, broken P1 coordinates) under the measure dS, and under measures over two meshes "
        "(Measure(..., intersect_measures=...): ds/\\dS, dx/\\dS, dS/\\ds, dS/\\dS, dS with a second mesh only in the integrand) whose terminals live on either mesh, then applies "
        "the propagation with and without default restrictions; each (term, mode) is built on real ufl and judged; a case = one (term, mode); "
        "non-trivial = the term has at least one operator"
    )
    ctx.assume("admissible environments only: H1 coefficients, x, facet quantities and constants have equal '+' and '-' values; n('-') = -n('+') exactly on the affine non-manifold mesh (gdim = tdim, H1 P1 coordinates) and two independent vectors on every other mesh kind (P2 coordinates, broken P1 coordinates, triangles immersed in R^3: the conormals of a surface with a kink); non-H1 coefficients, arguments, cell quantities (volume, circumradius, cell normal), the reference normal and all gradients have independent values; the specification checks the generated environments against this (ASSUME Admissible) and that they do not make independent normals opposite (ASSUME Discriminating)")
    ctx.assume("input class = integrands after apply_derivatives: grad and reference_value wrap terminals only; triangle meshes in R^2 and R^3; scalar and R^gdim-vector valued terms (no Piola-mapped element and no reference normal on the immersed meshes: their reference shape is (tdim,))")
    ctx.assume("expressions that ufl folds when they are built (literal-only subterms, conditional with equal branches) are not judged (counted as construction_simplified)")
    ctx.assume("apply_restrictions(default_restrictions=None) is documented as 'just propagate restrictions': passing an integrand with a missing restriction is predicted by the model and not a finding there; 'missing restrictions are rejected, default-restriction on/off' is demanded of compute_form_data(do_apply_restrictions=True, do_apply_default_restrictions=True/False) on scalar integrands without arguments and reference values")
    ctx.assume("multi-domain measures: a domain with a cell or exterior-facet integral type is one-sided: its terminals have one value, outside a restriction; an integrand that restricts one of them has no two-sided meaning (the code refuses it: 'Inconsistent restrictions'); if a tree accepted it, that is counted and not reported (neither a missing nor a double restriction); no facet quantity on a domain with a cell integral or on a domain that is not in the Measure (refused by _check_facet_geometry, resp. a KeyError there)")
    ctx.assume("trusted: the evaluator vf/sem.py (bound to the model: the meaning TLC predicts for every valid term is compared with its value of the real expression)")
    sls = slices(ctx.tier)
    only = os.environ.get("VERIF_SLICES")
    if only:
        sls = [s for s in sls if s.name in only.split(",")]
    bts = batches(group(sls), quick)
    from concurrent.futures import ThreadPoolExecutor, as_completed
    from multiprocessing import get_context

    tops = set()
    pool = get_context("fork").Pool(4 if quick else 6)
    best = {}  # fingerprint -> smallest failing case over all slices
    try:
        # the big exhaustive runs start first; each run is replayed when it ends
        bts.sort(key=lambda b: -b.nslices)
        with ThreadPoolExecutor(3) as ex:
            futs = {ex.submit(run_tlc, b, ctx.seed, 6 if b.nslices > 6 else 2 if b.nslices > 1 else 1, 900): b for b in bts}
            for fut in as_completed(futs):
                b = futs[fut]
                envs, res = fut.result()
                ctx.add_tlc(res)
                if res.outcome != "ok":
                    tail = "\n".join([l for l in res.stdout.splitlines() if not l.startswith('"{')][-40:])
                    raise MachineryError(f"TLC run {b.name}: {res.outcome} {res.violated}\n{tail}")
                allrecs = records_of(res)
                tops |= {x["term"][0] for x in allrecs}
                print(f"  run {b.name}: {'simulation' if b.simulate else 'exhaustive'} worlds={[r.name for r in b.runs]} states={res.distinct} records={len(allrecs)} tlc={res.wall:.1f}s", flush=True)
                for r, renvs in zip(b.runs, envs):
                    mine = {sl.name for sl in r.slices}
                    recs = [x for x in allrecs if x["cfg"] in mine]
                    if any(x["mesh"] != r.mesh for x in recs):
                        raise MachineryError(f"world {r.name}: TLC explored a slice on another mesh kind")
                    conform(ctx, r, renvs, recs, pool, {sl.name: sl.form_every or (3 if quick else 4) for sl in r.slices}, best)
                    if len(ctx.cov["samples"]) < 5:
                        x = next((x for x in recs if x["valid"] and x["verdict"] == "accept" and x["d"] == "default" and len(json.dumps(x["term"])) > 60), recs[0])
                        ctx.sample({"run": r.name, "mesh": r.mesh, "slice": x["cfg"], "term": term_text(r, tup(x["term"])), "mode": x["d"], "verdict": x["verdict"], "predicted_leaves": x["leaves"], "predicted_value_env1": x["vals"][0]})
    finally:
        if pool is not None:
            pool.terminate()
    # one violation per fingerprint (the smallest failing term), the rest is counted
    for fp, (_, what, doc) in sorted(best.items()):
        ctx.violation(fp, what, doc)
    # vacuity: every constructor on top of some term, every verdict class exercised on the real code
    missing_ops = {"T", "grad", "rv", "R", "var", "neg", "add", "mul", "div", "dot", "idx", "cond", "jump", "jumpn", "avg"} - tops
    if missing_ops and not only:
        raise MachineryError(f"vacuous run: constructors never applied last: {sorted(missing_ops)}")
    tot = {}
    for s in ctx.cov["slices"]:
        for k, v in s["status"].items():
            tot[k] = tot.get(k, 0) + v
    for need in ("accept/accept/valid/d", "accept/accept/valid/nd", "reject/reject/missing/d", "reject/reject/nested/d", "reject/reject/nested/nd", "form:valid/accept/d", "form:valid/accept/nd", "form:invalid/reject/d"):
        if not only and not tot.get(need):
            raise MachineryError(f"vacuous run: no case of class {need}")
    # every mesh kind must have put the rule of the facet normal to the test
    for mesh in MESHES:
        if not only and not MESHES[mesh].get("aux") and not ctx.cov.get("normal_minus_cases", {}).get(mesh):
            raise MachineryError(f"vacuous run: no valid integrand with n('-') on the mesh kind {mesh}")
    # every multi-domain measure must have put FormData's map and guard to the test: valid integrands accepted and
    # invalid ones refused through compute_form_data in both modes, a restricted one-sided quantity refused
    per = {}
    for s in ctx.cov["slices"]:
        if s["domains"] > 1:
            for k, v in s["status"].items():
                per.setdefault(s["run"], {})[k] = per.setdefault(s["run"], {}).get(k, 0) + v
    # (classes of the model only: what the tree under test answers must not turn a violation into a vacuous run)
    for name, (doms, _, _) in MEASURES.items():
        need = [("form:valid/", "/d"), ("form:valid/", "/nd"), ("form:invalid/", "/d"), ("form:invalid/", "/nd"), ("reject/", "/missing/d"), ("accept/", "/valid/d")]
        if any(d["it"] != "interior_facet" for d in doms):
            need.append(("reject/", "/onesided/d"))
        for a, b in need:
            if not only and not any(v for k, v in per.get(name, {}).items() if k.startswith(a) and k.endswith(b)):
                raise MachineryError(f"vacuous run: no case of class {a}*{b} under the measure {name}")
    ctx.cov["verdict_classes"] = {k: v for k, v in sorted(tot.items()) if "/" in k}


# ------------------------------------------------------------------------------------------------
# replay and selftest
# ------------------------------------------------------------------------------------------------


def replay(ctx, doc):
    r = doc["replay"]
    sl = Run.from_json(r["world"])
    w = World(sl)
    envs = [TwoSidedEnv(w, e) for e in r["envs"]]
    stats = {}
    F = judge(w, envs, r["rec"], stats, form_every=1)
    print(f"replay C17: {term_text(sl, tup(r['rec']['term']))} [{MODE_TEXT[r['rec']['d']]}] model={r['rec']['verdict']} -> {[fp for fp, _ in F] or 'conforms'}")
    for fp, what in F:
        print("   ", what)
        ctx.violation(fp, what, r)


def selftest(ctx):
    """Mutants of the real propagator and corrupted predictions must be rejected by judge()."""
    import copy

    from ufl.algorithms.apply_restrictions import RestrictionPropagator as RP

    sl = Run("selftest", [Slice("selftest", ["n", "u2", "g", "f1", "c"], [{"R", "dot", "mul", "jumpn"}, {"R", "add"}], atoms=["n", "u2", "g", "f1", "c", *pm("n", "g"), "u2-", "f1-"])])
    (envs,), res = run_tlc(Batch("selftest", [sl]), ctx.seed, 2, 300)
    tlc.require_ok(res, "Restrict[selftest]")
    recs = records_of(res)
    w = World(sl)
    tenvs = [TwoSidedEnv(w, e) for e in envs]

    def fps(rs, patch=None, form_every=0, w=w, tenvs=tenvs):
        saved = {}
        for k, f in (patch or {}).items():
            saved[k] = RP.__dict__[k]
            setattr(RP, k, f)
        try:
            out = set()
            for r in rs:
                out |= {fp for fp, _ in judge(w, tenvs, r, {}, form_every=form_every)}
            return out
        finally:
            for k, f in saved.items():
                setattr(RP, k, f)

    base = fps(recs)
    if base:
        raise MachineryError(f"selftest: the unmodified code does not conform on the selftest slice: {sorted(base)}")
    rejected = {}

    def no_flip(self, o):
        # _opposite without the sign change: n('-') becomes n('+')
        if self.default_restrictions is None:
            return o if self.current_restriction is None else o(self.current_restriction)
        r = self.default_restrictions[self._extract_and_check_domain(o)]
        if self.current_restriction is None:
            raise ValueError(f"Discontinuous type {o._ufl_class_.__name__} must be restricted.")
        return o(r)

    got = fps(recs, {"_opposite": no_flip})
    rejected["mutant: facet normal rule does not flip the sign"] = sorted(f for f in got if f == "C17:value-changed:facet_normal")
    got = fps(recs, {"coefficient": lambda self, o: self._default_restricted(o)})
    rejected["mutant: discontinuous coefficient gets the default side"] = sorted(f for f in got if f == "C17:accepted-missing-restriction:coefficient")

    def twice(self, o):
        from ufl.corealg.map_dag import map_expr_dag

        rp = self._rp[o.side()] if self.current_restriction is None else self
        return map_expr_dag(rp, o.ufl_operands[0])

    got = fps(recs, {"restricted": twice})
    rejected["mutant: nested restriction accepted"] = sorted(f for f in got if f == "C17:accepted-double-restriction")
    got = fps(recs, {"coefficient": lambda self, o: o})
    rejected["mutant: coefficients are never restricted"] = sorted(f for f in got if f.startswith(("C17:structure:unrestricted", "C17:structure:default-not-applied", "C17:accepted-missing")))
    got = fps(recs, {"operator": lambda self, o, *ops: o._ufl_expr_reconstruct_(*ops)(self.current_restriction) if self.current_restriction and o.ufl_shape == () and not o.ufl_free_indices else RP.reuse_if_untouched(self, o, *ops)})
    rejected["mutant: operators are restricted again"] = sorted(f for f in got if f.startswith("C17:structure:"))
    got = fps(recs, {"_require_restriction": lambda self, o: o if self.current_restriction is None and self.default_restrictions is None else o("+") if self.current_restriction else RP.__dict__["_missing_rule"](self, o)})
    rejected["mutant: every required restriction becomes '+'"] = sorted(f for f in got if f.startswith("C17:value-changed"))
    # the guard of facet_normal, on the mesh kinds where the two normals are independent
    kinds = ["manifold", "dgmesh", "p2mesh", "p2manifold"]
    mruns = [Run("selftest-" + k, [Slice("selftest-" + k, ["n", "g"], [{"R", "dot", "mul", "idx", "jumpn"}, {"R", "neg"}], mesh=k, atoms=["n", "g", *pm("n", "g")])], k) for k in kinds]
    # a measure whose primary integral type is not interior_facet (exterior facets of A = interior facets of B)
    fdoms, fterms, _ = MEASURES["ds-dS"]
    frun = Run("selftest-ds-dS", [Slice("selftest-ds-dS", fterms, [{"use", "R", "mul"}, {"R"}], doms=fdoms)], doms=fdoms)
    menvs, mres = run_tlc(Batch("selftest-meshes", [*mruns, frun]), ctx.seed, 2, 300)
    tlc.require_ok(mres, "Restrict[selftest-meshes]")
    mrecs = records_of(mres)

    def guard(cond):
        def facet_normal(self, o):
            from ufl.domain import extract_unique_domain
            from ufl.sobolevspace import H1

            D = extract_unique_domain(o)
            e = D.ufl_coordinate_element()
            if cond(e.embedded_superdegree, e in H1, D.geometric_dimension, D.topological_dimension):
                return self._opposite(o)
            return self._require_restriction(o)

        return facet_normal

    guards = {
        "manifold": ("gd >= td instead of gd == td", lambda deg, h1, gd, td: deg <= 1 and h1 and gd >= td),
        "dgmesh": ("no test for an H1 coordinate element", lambda deg, h1, gd, td: deg <= 1 and gd == td),
        "p2mesh": ("no test for the degree of the coordinate element", lambda deg, h1, gd, td: h1 and gd == td),
        "p2manifold": ("every mesh is taken for affine", lambda deg, h1, gd, td: True),
    }
    for r, e in zip(mruns, menvs):
        mw = World(r)
        mt = [TwoSidedEnv(mw, x) for x in e]
        rs = [x for x in mrecs if x["cfg"] == r.slices[0].name]
        if not rs or any(x["opp"] for x in rs):
            raise MachineryError(f"selftest: no records / opposite normals on {r.mesh}")
        base = fps(rs, w=mw, tenvs=mt)
        if base:
            raise MachineryError(f"selftest: the unmodified code does not conform on {r.mesh}: {sorted(base)}")
        what, cond = guards[r.mesh]
        got = fps(rs, {"facet_normal": guard(cond)}, w=mw, tenvs=mt)
        rejected[f"mutant: facet_normal guard, {what} ({r.mesh})"] = sorted(f for f in got if f == "C17:value-changed:facet_normal:" + r.mesh)
        # the model's own notion of where the normals are opposite must matter: a prediction that claims it is rejected
        c = copy.deepcopy(next(x for x in rs if x["valid"] and x["d"] == "default" and x["term"] == ["R", ["T", 1], "-"]))
        c["leaves"] = [{"nm": "n", "ch": "", "s": "+"}]
        rejected[f"corrupt: predicted n('-') -> n('+') ({r.mesh})"] = sorted(f for f in fps([c], w=mw, tenvs=mt) if f == "C17:structure:leaves-differ")
    # FormData's guard and map of default restrictions, on the multi-domain measure
    import ufl.algorithms.formdata as FD

    fw = World(frun)
    ft = [TwoSidedEnv(fw, x) for x in menvs[-1]]
    frs = [x for x in mrecs if x["cfg"] == "selftest-ds-dS"]
    if not frs or not all(x["os"] and x["prop"] for x in frs):
        raise MachineryError("selftest: no records / no one-sided terminals under the measure ds /\\ dS")
    base = fps(frs, w=fw, tenvs=ft, form_every=1)
    if base:
        raise MachineryError(f"selftest: the unmodified code does not conform under the measure ds /\\ dS: {sorted(base)}")
    real_apply = FD.apply_restrictions

    def primary_only(integral, **kw):
        # the guard looks at the primary integral type only
        return real_apply(integral, **kw) if integral.integral_type().startswith("interior_facet") else integral

    def one_map(integral, default_restrictions=None, **kw):
        # every domain gets the default restriction of the interior-facet domain
        return real_apply(integral, default_restrictions={m: "+" for m in default_restrictions}, **kw)

    for name, mutant, want in (
        ("mutant: FormData propagates only when the primary integral type is interior_facet (ds /\\ dS)", primary_only, ("C17:accepted-missing-restriction", "C17:structure:")),
        ("mutant: FormData gives every domain of the measure the default '+' (ds /\\ dS)", one_map, ("C17:rejects-valid", "C17:structure:restricted-one-sided")),
    ):
        FD.apply_restrictions = mutant
        try:
            got = fps(frs, w=fw, tenvs=ft, form_every=1)
        finally:
            FD.apply_restrictions = real_apply
        rejected[name] = sorted(f for f in got if f.startswith(want))
    # the model's notion of a one-sided domain must matter: a prediction that calls A two-sided is rejected
    c = copy.deepcopy(next(x for x in frs if x["valid"] and x["d"] == "default" and x["term"][0] == "mul" and {l["nm"] for l in x["inleaves"]} == {"f1", "f1_b"}))
    c["os"] = []
    fw2 = World(frun)
    try:
        judge(fw2, [TwoSidedEnv(fw2, x) for x in menvs[-1]], c, {})
        rejected["corrupt: predicted one-sided terminals dropped"] = []
    except MachineryError as exc:
        rejected["corrupt: predicted one-sided terminals dropped"] = [str(exc)[:60]]
    ctx.add_tlc(mres)
    ctx.traces(len(mrecs))
    # corrupted predictions
    k = next(i for i, r in enumerate(recs) if r["valid"] and r["verdict"] == "accept" and r["d"] == "default" and r["term"][0] in ("dot", "add", "mul") and from_tla(r["vals"][0][0]) is not None)
    c = copy.deepcopy(recs[k])
    c["vals"][0][0][0][0] += 1
    rejected["corrupt: predicted value + 1"] = sorted(f for f in fps([c]) if f.startswith("C17:input-meaning-differs"))
    c = copy.deepcopy(recs[k])
    c["verdict"], c["why"], c["valid"], c["missing"] = "reject", "must-be-restricted", False, ["dg"]
    rejected["corrupt: predicted verdict accept -> reject"] = sorted(f for f in fps([c]) if f.startswith("C17:accepted-missing-restriction"))
    c = copy.deepcopy(recs[k])
    c["leaves"][0]["s"] = "-" if c["leaves"][0]["s"] == "+" else "+"
    rejected["corrupt: predicted side of a leaf"] = sorted(f for f in fps([c]) if f == "C17:structure:leaves-differ")
    k2 = next(i for i, r in enumerate(recs) if r["verdict"] == "reject" and r["d"] == "default" and not r["nested"])
    c = copy.deepcopy(recs[k2])
    c["verdict"], c["valid"], c["why"] = "accept", True, ""
    rejected["corrupt: predicted verdict reject -> accept"] = sorted(f for f in fps([c]) if f.startswith("C17:rejects-valid"))
    # the property-level judgement on compute_form_data: must notice a pipeline that stops validating
    got = fps(recs, {"_require_restriction": lambda self, o: o(self.current_restriction) if self.current_restriction else o, "_opposite": lambda self, o: o(self.current_restriction) if self.current_restriction else o}, form_every=1)
    rejected["mutant: nothing is required (through compute_form_data)"] = sorted(f for f in got if f.startswith("C17:accepted-missing-restriction"))
    ok = True
    for name, got in rejected.items():
        print(f"  selftest {name}: {'rejected ' + str(got) if got else 'NOT DETECTED'}")
        ok = ok and bool(got)
    ctx.add_tlc(res)
    ctx.traces(len(recs))
    if not ok:
        raise MachineryError("selftest: a mutant or a corrupted prediction was not detected")
    print("  selftest ok: every mutant of the real propagator and every corrupted prediction was rejected")


def main(argv=None):
    main_wrapper("C17", run, argv)
