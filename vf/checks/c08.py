"""C08 — function pullbacks implement each element's declared push-forward.

TLC (spec/Pullback.tla) enumerates (affine cell map, element) pairs, checks the model-level theorems
(shape algebra, the flattening bijection of mixed/symmetric compositions, the order in which a symmetry
dictionary is written is not observable, covariant/contravariant duality, double Piola = single Piola on each index, K is the Moore-Penrose inverse, detJ^2 =
det(J^T J)) and prints for every pair the predicted physical value shape and the exact physical
value table of the element's push-forward applied to the reference values (distinct primes).

A symmetric element is modelled the way it is declared: by the ordered list of the entries of its symmetry
dictionary (any key order, block rank 1-3, rectangular blocks, composite sub-elements); build_element writes the real
dictionary in exactly that order.

The conformance step builds the real mesh / function space / Coefficient / Argument for every pair,
applies the real `apply_function_pullbacks` (to the coefficient, to the argument, to the restricted
coefficient f('+') and to the form inner(f, v)*dx) and `element.pullback.apply(ReferenceValue(f))`, evaluates the resulting expression
DAG with the denotational evaluator vf/sem.py under an environment that gives ReferenceValue(f) the
same primes and Jacobian / JacobianInverse / JacobianDeterminant the spec's concrete map, and
compares every physical component exactly; result shapes must equal FunctionSpace.value_shape and
the spec's physical shape.  A second reference-value environment and (thorough) seeded random
element trees are predicted by a Python transcription of the spec which is validated against TLC
on every enumerated pair.
"""

from __future__ import annotations

import random
import time
from fractions import Fraction

from .. import tlc
from ..common import MachineryError, main_wrapper
from ..scalar import Cx
from ..sem import Evaluator, Unsupported, comps

INVARIANTS = (
    "MapSane",
    "ElementLegal",
    "AllDefined",
    "ShapeAlgebra",
    "SymmetricBlocks",
    "DeclOrderIrrelevant",
    "Duality",
    "DoubleViaSingle",
    "OuterFactorises",
)

# index of each map in Pullback.tla's Maps (names are read back from TLC's output)
QUICK_SHARDS = [(7, 6), (2, 3, 4)]
THOROUGH_SHARDS = [(7,), (9,), (3,), (1,), (2,), (8,), (4, 5, 6)]
N_RANDOM = 7000

PLAIN = ("identity", "l2")
VEC = ("covariant", "contravariant")
TEN = ("dcov", "dcontra", "covcontra")
LEAF = PLAIN + VEC + TEN


def cfg_text(tier, sel):
    return (
        f"CONSTANTS Tier = {tier}\nMapSel = {{{', '.join(str(i) for i in sel)}}}\nSPECIFICATION Spec\n"
        + "".join(f"INVARIANT {i}\n" for i in INVARIANTS)
    )


def primes(n):
    out = []
    k = 2
    while len(out) < n:
        if all(k % p for p in out if p * p <= k):
            out.append(k)
        k += 1
    return out


PRIMES = primes(700)


def ref_values(n, env=0):
    """env 0: the spec's reference values (the first n primes); env 1: reversed with alternating signs."""
    if env == 0:
        return [Fraction(p) for p in PRIMES[:n]]
    return [Fraction((-1) ** k * PRIMES[n - 1 - k]) for k in range(n)]


def prod(s):
    r = 1
    for x in s:
        r *= x
    return r


# ------------------------------------------------------------------------------------------------
# Python transcription of spec/Pullback.tla (validated against TLC on every enumerated pair)
# ------------------------------------------------------------------------------------------------


class Map:
    def __init__(self, doc):
        self.doc = doc
        self.name, self.kind, self.cell = doc["name"], doc["kind"], doc["cell"]
        self.g, self.t = doc["g"], doc["t"]
        self.J = [[Fraction(*x) for x in row] for row in doc["J"]]
        self.K = [[Fraction(*x) for x in row] for row in doc["K"]]
        self.detJ = Fraction(*doc["detJ"])

    def variant(self, **kw):
        m = Map(self.doc)
        for k, v in kw.items():
            setattr(m, k, v)
        return m


def transpose(A):
    return [list(r) for r in zip(*A)]


def matmul(A, B):
    return [[sum(A[i][k] * B[k][j] for k in range(len(B))) for j in range(len(B[0]))] for i in range(len(A))]


def matvec(A, v):
    return [sum(A[i][k] * v[k] for k in range(len(v))) for i in range(len(A))]


def cov_vec(m, v):
    return matvec(transpose(m.K), v)


def contra_vec(m, v):
    return [x / m.detJ for x in matvec(m.J, v)]


def ten_map(kind, m, R):
    KT, JT = transpose(m.K), transpose(m.J)
    if kind == "dcov":
        return matmul(matmul(KT, R), m.K)
    if kind == "dcontra":
        return [[x / (m.detJ * m.detJ) for x in row] for row in matmul(matmul(m.J, R), JT)]
    return [[x / m.detJ for x in row] for row in matmul(matmul(KT, R), JT)]


def ref_size(e):
    return prod(e["refshape"])


def phys_shape(e, m):
    k = e["kind"]
    if k in PLAIN:
        return list(e["refshape"])
    if k in VEC:
        return list(e["refshape"][:-1]) + [m.g]
    if k in TEN:
        return list(e["refshape"][:-2]) + [m.g, m.g]
    if k == "mixed":
        return [sum(prod(phys_shape(s, m)) for s in e["subs"])]
    return block_shape(e) + phys_shape(e["subs"][0], m)


def block_shape(e):
    """Block shape spanned by the keys of the symmetry dictionary (1-based components)."""
    D = e["symmetry"]
    return [max(d["comp"][a] for d in D) for a in range(len(D[0]["comp"]))]


def grid(bs):
    """Block components (1-based) of a block shape in row-major order."""
    out = [[]]
    for n in bs:
        out = [c + [i] for c in out for i in range(1, n + 1)]
    return out


def sub_at(e, comp):
    """Dictionary lookup: the (1-based) sub-element declared for the block component."""
    hits = [d["sub"] for d in e["symmetry"] if list(d["comp"]) == list(comp)]
    if len(hits) != 1:
        raise MachineryError(f"symmetry dictionary has {len(hits)} entries for {comp}")
    return hits[0]


def legal(e, m):
    k, sh = e["kind"], e["refshape"]
    if k in PLAIN:
        return not e["subs"]
    if k in VEC:
        return len(sh) >= 1 and sh[-1] == m.t
    if k in TEN:
        return len(sh) >= 2 and sh[-1] == m.t and sh[-2] == m.t
    subs = e["subs"]
    if not subs or not all(legal(s, m) for s in subs) or list(sh) != [sum(ref_size(s) for s in subs)]:
        return False
    if k == "mixed":
        return True
    D = e["symmetry"]
    if not D or len(D[0]["comp"]) < 1 or any(len(d["comp"]) != len(D[0]["comp"]) or min(d["comp"]) < 1 for d in D):
        return False
    keys = [tuple(d["comp"]) for d in D]
    return (
        len(set(keys)) == len(keys)
        and set(keys) == {tuple(c) for c in grid(block_shape(e))}
        and all(s["refshape"] == subs[0]["refshape"] and phys_shape(s, m) == phys_shape(subs[0], m) for s in subs)
        and {d["sub"] for d in D} == set(range(1, len(subs) + 1))
    )


def ref_off(e, s):
    return sum(ref_size(q) for q in e["subs"][:s])


def pieces(e):
    """Sub-element numbers (0-based) in physical order."""
    if e["kind"] == "mixed":
        return list(range(len(e["subs"])))
    return [sub_at(e, c) - 1 for c in grid(block_shape(e))]


def row_major(e):
    """Is every symmetry dictionary of the tree written in row-major order of its keys?"""
    if e["kind"] == "symmetric" and [list(d["comp"]) for d in e["symmetry"]] != grid(block_shape(e)):
        return False
    return all(row_major(s) for s in e["subs"])


def as_written(e):
    """The element whose symmetric blocks are numbered in the ORDER OF THE ENTRIES of the dictionary (what reading
    .values() / .items() positionally gives) instead of by key; used to recognise that mistake and to show that the
    enumerated universe can tell it from the declared push-forward."""
    out = dict(e, subs=[as_written(s) for s in e["subs"]])
    if e["kind"] == "symmetric":
        out["symmetry"] = [{"comp": c, "sub": d["sub"]} for c, d in zip(grid(block_shape(e)), e["symmetry"])]
    return out


def push(e, m, r):
    k = e["kind"]
    if k == "identity":
        return list(r)
    if k == "l2":
        return [x / m.detJ for x in r]
    if k in VEC:
        f = cov_vec if k == "covariant" else contra_vec
        out = []
        for p in range(len(r) // m.t):
            out += f(m, r[p * m.t : (p + 1) * m.t])
        return out
    if k in TEN:
        n = m.t * m.t
        out = []
        for p in range(len(r) // n):
            b = r[p * n : (p + 1) * n]
            R = [[b[a * m.t + c] for c in range(m.t)] for a in range(m.t)]
            for row in ten_map(k, m, R):
                out += row
        return out
    out = []
    for s in pieces(e):
        o = ref_off(e, s)
        out += push(e["subs"][s], m, r[o : o + ref_size(e["subs"][s])])
    return out


def locate(e, m, k, ref0=0, phys0=0, chain=()):
    """Leaf owning flat physical component k: (leaf, absolute ref offset, absolute phys offset,
    container kinds from the top)."""
    if e["kind"] in LEAF:
        return e, ref0, phys0, chain
    off = 0
    for s in pieces(e):
        sub = e["subs"][s]
        n = prod(phys_shape(sub, m))
        if k < off + n:
            return locate(sub, m, k - off, ref0 + ref_off(e, s), phys0 + off, chain + (e["kind"],))
        off += n
    raise MachineryError("locate: component outside the element")


def depth(e):
    return 0 if e["kind"] in LEAF else 1 + max(depth(s) for s in e["subs"])


def nontrivial(e):
    return e["kind"] != "identity"


def leaf_kinds(e):
    if e["kind"] in LEAF:
        return {e["kind"]}
    return set().union(*[leaf_kinds(s) for s in e["subs"]]) | {e["kind"]}


# ------------------------------------------------------------------------------------------------
# the real side
# ------------------------------------------------------------------------------------------------


def _leaf_table():
    from ufl import pullback as P
    from ufl import sobolevspace as S

    return {
        "identity": (P.identity_pullback, S.H1, "Lagrange"),
        "l2": (P.l2_piola, S.L2, "Discontinuous Lagrange"),
        "covariant": (P.covariant_piola, S.HCurl, "N1curl"),
        "contravariant": (P.contravariant_piola, S.HDiv, "Raviart-Thomas"),
        "dcov": (P.double_covariant_piola, S.HEin, "Regge"),
        "dcontra": (P.double_contravariant_piola, S.HDivDiv, "HHJ"),
        "covcontra": (P.covariant_contravariant_piola, S.HCurlDiv, "GLS"),
    }


def build_element(e, cell):
    from ..elements import FiniteElement, MixedElement, SymmetricElement

    k = e["kind"]
    if k == "mixed":
        return MixedElement([build_element(s, cell) for s in e["subs"]])
    if k == "symmetric":
        # the dictionary is written in the declared order of its entries (0-based keys and sub-element numbers)
        symmetry = {tuple(i - 1 for i in d["comp"]): d["sub"] - 1 for d in e["symmetry"]}
        return SymmetricElement(symmetry, [build_element(s, cell) for s in e["subs"]])
    pb, sob, fam = _leaf_table()[k]
    return FiniteElement(fam, cell, 1, tuple(e["refshape"]), pb, sob)


class NotReference(Exception):
    """A form argument occurs outside ReferenceValue(.) after the rewriting."""


class ForeignTerminal(Exception):
    pass


class MapEnv:
    """Environment for vf.sem: reference values of the given form arguments and the cell map."""

    def __init__(self, m, mesh, fargs, refshape, values):
        self.m, self.mesh, self.fargs, self.refshape, self.values = m, mesh, fargs, tuple(refshape), values

    def terminal(self, o, comp, derivs, side, ref):
        from ufl.classes import Jacobian, JacobianDeterminant, JacobianInverse

        if derivs or side not in (None, "+"):
            raise ForeignTerminal(f"derivative/restriction of {type(o).__name__}")
        if any(o is f for f in self.fargs):
            if not ref:
                raise NotReference(type(o).__name__)
            k = 0
            for n, i in zip(self.refshape, comp):
                if not 0 <= i < n:
                    raise IndexError(f"reference component {comp} outside {self.refshape}")
                k = k * n + i
            return Cx(self.values[k])
        if isinstance(o, (Jacobian, JacobianInverse, JacobianDeterminant)):
            if o.ufl_domain() != self.mesh:
                raise ForeignTerminal(f"{type(o).__name__} of another domain")
            if isinstance(o, JacobianDeterminant):
                return Cx(self.m.detJ)
            A = self.m.J if isinstance(o, Jacobian) else self.m.K
            i, j = comp
            if not (0 <= i < len(A) and 0 <= j < len(A[0])):
                raise IndexError(f"{type(o).__name__}{comp} outside its shape")
            return Cx(A[i][j])
        raise ForeignTerminal(type(o).__name__)


def observe(expr, env):
    ev = Evaluator(env)
    return [ev.ev(expr, c, {}) for c in comps(expr.ufl_shape)]


_CELLS = {}


def _mesh(m):
    from ufl import Cell, Mesh

    from ..elements import LagrangeElement

    key = (m.cell, m.g)
    if key not in _CELLS:
        cell = Cell(m.cell)
        _CELLS[key] = (cell, Mesh(LagrangeElement(cell, 1, (m.g,))))
    return _CELLS[key]


def diagnose(e, m, r, obs, pred):
    """(pullback kind, what) for a value mismatch: which textbook mistake reproduces the observation."""
    if not row_major(e) and obs == push(as_written(e), m, r):
        return "symmetric", "declaration-order"  # the blocks follow the order of the dictionary's entries, not its keys
    k = next(i for i in range(len(pred)) if obs[i] != pred[i])
    leaf, ref0, phys0, chain = locate(e, m, k)
    n = prod(phys_shape(leaf, m))
    nr = ref_size(leaf)
    o_leaf = obs[phys0 : phys0 + n]
    p_leaf = pred[phys0 : phys0 + n]
    rl = r[ref0 : ref0 + nr]
    if m.g == m.t:
        if push(leaf, m.variant(K=transpose(m.K)), rl) == o_leaf:
            return leaf["kind"], "transposed-K"
        if push(leaf, m.variant(J=transpose(m.J)), rl) == o_leaf:
            return leaf["kind"], "transposed-J"
        if push(leaf, m.variant(J=transpose(m.J), K=transpose(m.K)), rl) == o_leaf:
            return leaf["kind"], "transposed-J-and-K"
    ratios = {o / p for o, p in zip(o_leaf, p_leaf) if p != 0}
    if len(ratios) == 1 and all((p == 0) == (o == 0) for o, p in zip(o_leaf, p_leaf)):
        (q,) = ratios
        if q == -1:
            return leaf["kind"], "detJ-sign"
        for w in (-3, -2, -1, 1, 2, 3):
            if q == m.detJ**w:
                return leaf["kind"], "wrong-detJ-power"
            if q == -(m.detJ**w):
                return leaf["kind"], "wrong-detJ-power-and-sign"
    if chain:
        for o in range(0, len(r) - nr + 1):
            if o != ref0 and push(leaf, m, r[o : o + nr]) == o_leaf:
                return chain[-1], f"{chain[-1]}-offset"
        if sorted(obs) == sorted(pred):
            return chain[-1], "component-order"
    return leaf["kind"], "value"


class Outcome:
    def __init__(self):
        self.problems = []  # (fingerprint, what, variant)
        self.machinery = []
        self.n_eval = 0


def examine(mdoc, pair, second_env=True, variants=("coef", "arg", "direct", "restricted", "form")):
    """Bind one (map, element, prediction) to the real code.  Pure: returns an Outcome."""
    out = Outcome()
    m = Map(mdoc)
    e = pair["elem"]
    pshape = tuple(pair["pshape"])
    pred = [Fraction(*x) for x in pair["phys"]]
    r = ref_values(ref_size(e))

    def problem(kind, what, text, variant):
        out.problems.append((f"C08:{kind}:{what}:{m.kind}", f"{m.name} {show(e)} [{variant}]: {text}", variant))

    try:
        cell, mesh = _mesh(m)
        from ufl import Argument, Coefficient, FunctionSpace, dx, inner
        from ufl.algorithms.apply_function_pullbacks import apply_function_pullbacks
        from ufl.classes import ReferenceValue

        element = build_element(e, cell)
        V = FunctionSpace(mesh, element)
        vs = tuple(V.value_shape)
        f = Coefficient(V)
        v = Argument(V, 0)
    except Exception as ex:  # noqa: BLE001
        problem(e["kind"], f"raises-{type(ex).__name__}", f"building the function space raised {type(ex).__name__}: {ex}", "build")
        return out
    out.n_eval += 1
    if vs != pshape:
        problem(e["kind"], "value-shape", f"FunctionSpace.value_shape = {vs}, push-forward has shape {pshape}", "space")
        return out
    if tuple(element.reference_value_shape) != tuple(e["refshape"]) or V.value_size != len(pred) or f.ufl_shape != pshape:
        problem(e["kind"], "value-shape", f"reference shape {element.reference_value_shape} / value_size {V.value_size} / coefficient shape {f.ufl_shape}", "space")
        return out

    thunks = {
        "coef": (lambda: apply_function_pullbacks(f), (f,)),
        "arg": (lambda: apply_function_pullbacks(v), (v,)),
        "direct": (lambda: element.pullback.apply(ReferenceValue(f)), (f,)),
        "restricted": (lambda: apply_function_pullbacks(f("+")), (f,)),
        "form": (lambda: apply_function_pullbacks(inner(f, v) * dx(mesh)).integrals()[0].integrand(), (f, v)),
    }
    for name in variants:
        thunk, fargs = thunks[name]
        try:
            expr = thunk()
        except Exception as ex:  # noqa: BLE001
            problem(e["kind"], f"raises-{type(ex).__name__}", f"raised {type(ex).__name__}: {ex}", name)
            continue
        envs = [(r, pred)]
        if second_env and name == "coef":
            r2 = ref_values(ref_size(e), 1)
            envs.append((r2, push(e, m, r2)))
        for rv, pv in envs:
            want_shape = () if name == "form" else pshape
            want = [sum(x * x for x in pv)] if name == "form" else pv
            out.n_eval += 1
            if tuple(expr.ufl_shape) != want_shape:
                problem(e["kind"], "result-shape", f"result has shape {expr.ufl_shape}, expected {want_shape}", name)
                break
            try:
                obs = observe(expr, MapEnv(m, mesh, fargs, e["refshape"], rv))
            except NotReference as ex:
                problem(e["kind"], "physical-terminal-left", f"{ex} occurs outside ReferenceValue after the rewriting", name)
                break
            except (IndexError, ForeignTerminal) as ex:
                problem(e["kind"], f"evaluation-{type(ex).__name__}", f"the result cannot be evaluated: {ex}", name)
                break
            except Unsupported as ex:
                out.machinery.append(f"{m.name} {show(e)} [{name}]: evaluator lacks {ex}")
                break
            obs = [None if not (o.exact and o.im == 0) else Fraction(o.re) for o in obs]
            out.n_eval += len(want)
            if obs != want:
                if name == "form":
                    if out.problems:
                        break  # already explained by a more specific finding on the same pair
                    problem(e["kind"], "form-integrand", f"integrand of inner(f, v)*dx denotes {obs[0]}, expected {want[0]}", name)
                else:
                    kind, what = diagnose(e, m, rv, obs, want)
                    i = next(i for i in range(len(want)) if obs[i] != want[i])
                    problem(kind, what, f"component {unflatten(i, pshape)}: real {obs[i]}, push-forward {want[i]}", name)
                break
    return out


def unflatten(k, shape):
    idx = []
    for n in reversed(shape):
        idx.append(k % n)
        k //= n
    return tuple(reversed(idx))


def show(e):
    k = e["kind"]
    if k in LEAF:
        return f"{k}{tuple(e['refshape'])}"
    if k == "mixed":
        return "mixed[" + ", ".join(show(s) for s in e["subs"]) + "]"
    decl = ",".join("(" + ",".join(str(i - 1) for i in d["comp"]) + "):" + str(d["sub"] - 1) for d in e["symmetry"])
    return "sym{" + decl + "}[" + ", ".join(show(s) for s in e["subs"]) + "]"


def check_transcription(mdoc, pair):
    """The Python transcription must agree with TLC on the enumerated pair."""
    m = Map(mdoc)
    e = pair["elem"]
    if not legal(e, m):
        return f"{m.name} {show(e)}: transcription says illegal"
    if phys_shape(e, m) != list(pair["pshape"]):
        return f"{m.name} {show(e)}: transcription shape {phys_shape(e, m)} != TLC {pair['pshape']}"
    if push(e, m, ref_values(ref_size(e))) != [Fraction(*x) for x in pair["phys"]]:
        return f"{m.name} {show(e)}: transcription table differs from TLC"
    return None


def _work(job):
    """Pool worker: [(mdoc, pair, from_tlc)] -> [(index, problems, machinery, n_eval)]."""
    res = []
    for idx, mdoc, pair, from_tlc in job:
        mach = []
        if from_tlc:
            t = check_transcription(mdoc, pair)
            if t:
                mach.append(t)
        o = examine(mdoc, pair)
        res.append((idx, o.problems, mach + o.machinery, o.n_eval))
    return res


# ------------------------------------------------------------------------------------------------
# TLC
# ------------------------------------------------------------------------------------------------


def run_tlc(tier, sel, workers):
    res = tlc.run("Pullback", cfg_text(tier, sel), workers=workers, timeout=1500, dfs=True, heap="3g")
    return res


def parse_tlc(res, sel):
    tlc.require_ok(res, f"Pullback MapSel={sel}")
    docs = tlc.decode_prints(res)
    maps = {d["mapdef"]["name"]: d["mapdef"] for d in docs if "mapdef" in d}
    pairs = [d["pair"] for d in docs if "pair" in d]
    if len(maps) != len(sel):
        raise MachineryError(f"Pullback: {len(maps)} map definitions printed for MapSel={sel}")
    # every (map, element) state must have produced exactly one line: 1 + #maps + 2 * #pairs states
    if res.distinct != 1 + len(maps) + 2 * len(pairs):
        raise MachineryError(f"Pullback: {res.distinct} states but {len(pairs)} printed pairs for {len(maps)} maps")
    seen = set()
    for p in pairs:
        key = (p["map"], repr(p["elem"]))
        if key in seen or p["map"] not in maps:
            raise MachineryError(f"Pullback: duplicated / foreign pair {key}")
        seen.add(key)
    return maps, pairs


# ------------------------------------------------------------------------------------------------
# seeded random element trees (thorough)
# ------------------------------------------------------------------------------------------------

# (block shape, sub-element number of every block component in row-major order)
SYM_PATTERNS = [
    ([2, 2], [1, 2, 2, 3]),
    ([2, 2], [1, 3, 3, 2]),
    ([3, 3], [1, 2, 3, 2, 4, 5, 3, 5, 6]),
    ([3, 3], [1, 6, 5, 6, 2, 4, 5, 4, 3]),
    ([2, 2], [1, 2, 3, 4]),  # no symmetry at all: a plain 2 x 2 tensor of sub-elements
    ([2, 2], [1, 2, 1, 2]),  # a non-symmetric identification
    ([2, 2], [1, 1, 1, 1]),
    ([2, 3], [1, 2, 1, 3, 2, 3]),  # rectangular
    ([3, 2], [1, 2, 3, 1, 2, 3]),
    ([3], [1, 2, 1]),  # a vector of sub-elements
    ([4], [2, 1, 1, 3]),
    ([2, 2, 2], [1, 2, 2, 3, 2, 3, 3, 4]),  # rank 3, fully symmetric
    ([1, 2], [1, 2]),
]


def mk_mixed(subs):
    return {"kind": "mixed", "refshape": [sum(ref_size(s) for s in subs)], "subs": subs, "symmetry": []}


def mk_sym(tab, order, subs):
    """Symmetric element with the numbering tab whose dictionary is written in the given order (a permutation of
    the row-major positions, 0-based)."""
    bs, num = tab
    g = grid(bs)
    return {"kind": "symmetric", "refshape": [sum(ref_size(s) for s in subs)], "subs": subs, "symmetry": [{"comp": g[k], "sub": num[k]} for k in order]}


def random_element(rng, m, leaves, maxdepth):
    def order(n):
        o = list(range(n))
        if rng.random() < 0.75:  # the dictionary is written in an arbitrary order
            rng.shuffle(o)
        return o

    def variant(a):
        """An element with the reference and physical shape of a: same tree, leaves of compatible kinds, symmetry
        dictionaries written in another order."""
        if a["kind"] in LEAF:
            return rng.choice([l for l in leaves if l["refshape"] == a["refshape"] and phys_shape(l, m) == phys_shape(a, m)])
        subs = [variant(s) for s in a["subs"]]
        if a["kind"] == "mixed":
            return mk_mixed(subs)
        D = list(a["symmetry"])
        rng.shuffle(D)
        return dict(a, subs=subs, symmetry=D)

    def sym(d):
        tab = rng.choice(SYM_PATTERNS)
        nsub = max(tab[1])
        if d < maxdepth and rng.random() < 0.3:  # composite sub-elements
            small = [l for l in leaves if ref_size(l) <= 3]
            if rng.random() < 0.6:
                a = mk_mixed([rng.choice(small) for _ in range(rng.choice((1, 2, 2, 3)))])
            else:
                t2 = rng.choice(SYM_PATTERNS)
                a = mk_sym(t2, order(len(t2[1])), [rng.choice([l for l in leaves if not l["refshape"]])] * max(t2[1]))
        else:
            a = rng.choice([l for l in leaves if len(l["refshape"]) <= 2])
        return mk_sym(tab, order(len(tab[1])), [a] + [variant(a) for _ in range(nsub - 1)])

    def mixed(d):
        subs = []
        for _ in range(rng.choice((2, 2, 2, 3, 3, 1) if d > 1 else (2, 2, 3))):
            x = rng.random()
            if d >= maxdepth or x < 0.5:
                subs.append(rng.choice(leaves))
            elif x < 0.8:
                subs.append(mixed(d + 1))
            else:
                subs.append(sym(d + 1))
        return mk_mixed(subs)

    for _ in range(100):
        e = sym(1) if rng.random() < 0.15 else mixed(1)
        if ref_size(e) <= 160 and legal(e, m):
            return e
    raise MachineryError("random element generator: no legal element found")


# ------------------------------------------------------------------------------------------------
# run
# ------------------------------------------------------------------------------------------------


def run(ctx, args):
    if args.selftest:
        return selftest(ctx)
    import ufl

    print(f"  ufl: {ufl.__file__}", flush=True)
    quick = ctx.tier == "quick"
    tier = 1 if quick else 2
    shards = QUICK_SHARDS if quick else THOROUGH_SHARDS
    ctx.rule = (
        "TLC enumerates every (affine cell map, element) of Pullback.tla's universe: maps = generic 2D (det>0, det<0, parallelogram), 3D (det>0; thorough det<0), "
        "triangle immersed in 3D, interval in 2D/3D, interval with det<0; elements = all leaf pullback kinds x legal scalar/vector/tensor/blocked reference shapes, "
        "mixed pairs/triples, symmetric elements declared by a symmetry dictionary = ordered list of (block component, sub-element) entries: 2x2/3x3 (two numberings, "
        "diagonal/off-diagonal sub-element kinds) written in row-major order, EVERY one of the 24 ways of writing a 2x2 dictionary, column-major / reversed / diagonal-first / "
        "upper-triangle-first 3x3 dictionaries, rectangular 2x3, rank-1 and rank-3 blocks, symmetric elements whose sub-elements are mixed / symmetric; depth-2 nestings of mixed and symmetric (one with a non-row-major dictionary); "
        "each pair is replayed on real ufl (Coefficient, Argument, direct pullback.apply, f('+'), inner(f,v)*dx) and every physical component compared exactly; "
        "thorough adds seeded random element trees (depth <= 3, arbitrary symmetry maps of block rank 1-3 written in a random order) predicted by the validated transcription. "
        "distinct non-trivial = distinct (map, element) whose element is not a bare identity leaf"
    )
    ctx.cov["exhaustive"] = True
    ctx.assume("J, K, detJ stay geometric terminals after apply_function_pullbacks and are bound to the spec's map: K = Moore-Penrose inverse of J, detJ = signed determinant (square) / positive pseudo-determinant sqrt(det(J^T J)) (immersed), as geometry.py documents; cell orientation is not applied by pullback.py and not modelled")
    ctx.assume("affine cell maps: the push-forward is a pointwise linear map, checked at one point with two generic reference-value vectors (distinct primes; reversed with alternating signs)")
    ctx.assume("leaf elements are declared through the harness's FiniteElement (ufl ships only the abstract interface); MixedElement takes IdentityPullback when all sub-elements have IdentityPullback, as the repository's test utilities do")
    ctx.assume("only combinations ufl accepts: vector Piola kinds need reference rank >= 1, tensor Piola kinds rank >= 2 with trailing dimensions tdim (a Piola map of a scalar is undefined and pullback.apply fails to unpack indices); symmetric sub-elements have equal reference shape (SymmetricPullback raises otherwise) and equal physical shape; symmetry dictionaries declare every component of the block shape spanned by their keys exactly once (any key order, any block rank >= 1) and are onto the sub-elements")
    ctx.assume("real-valued reference values; single-domain meshes (no MeshSequence)")
    ctx.assume("vf/sem.py evaluates the result DAG from the mathematical definition of each node type; TLC + CQ.tla rationals; the textbook formulas stated in Pullback.tla")

    from concurrent.futures import ProcessPoolExecutor, ThreadPoolExecutor, as_completed

    t0 = time.time()
    nproc = 4 if quick else 6
    pool = ProcessPoolExecutor(max_workers=nproc)
    all_maps = {}
    items = []  # (mdoc, pair, from_tlc)
    futures = []
    leaves = {}

    def submit(new_items):
        base = len(items)
        items.extend(new_items)
        chunk = 40
        for a in range(0, len(new_items), chunk):
            job = [(base + a + i, it[0], it[1], it[2]) for i, it in enumerate(new_items[a : a + chunk])]
            futures.append(pool.submit(_work, job))

    try:
        with ThreadPoolExecutor(max_workers=2) as tp:
            tlc_futs = {tp.submit(run_tlc, tier, sel, 2): sel for sel in shards}
            for fu in as_completed(tlc_futs):
                sel = tlc_futs[fu]
                res = fu.result()
                ctx.add_tlc(res)
                maps, pairs = parse_tlc(res, sel)
                all_maps.update(maps)
                for p in pairs:
                    if p["elem"]["kind"] in LEAF:
                        leaves.setdefault(p["map"], []).append(p["elem"])
                submit([(maps[p["map"]], p, True) for p in pairs])
                print(f"  TLC MapSel={sel}: {res.distinct} states, {len(pairs)} pairs, {res.wall:.1f}s (t={time.time() - t0:.0f}s)", flush=True)
        n_tlc = len(items)
        if not quick:
            rng = random.Random(ctx.seed * 1000003 + 8)
            names = sorted(all_maps)
            rnd = []
            seen = set()
            while len(rnd) < N_RANDOM:
                name = rng.choice(names)
                m = Map(all_maps[name])
                e = random_element(rng, m, leaves[name], 3 if rng.random() < 0.15 else 2)
                key = (name, repr(e))
                if key in seen:
                    continue
                seen.add(key)
                pair = {"map": name, "elem": e, "pshape": phys_shape(e, m), "phys": [[x.numerator, x.denominator] for x in push(e, m, ref_values(ref_size(e)))]}
                rnd.append((all_maps[name], pair, False))
            submit(rnd)
            print(f"  {len(rnd)} seeded random element trees (seed {ctx.seed})", flush=True)
        results = {}
        for fu in as_completed(futures):
            for idx, problems, mach, n_eval in fu.result():
                results[idx] = (problems, mach, n_eval)
    finally:
        pool.shutdown(wait=True, cancel_futures=True)

    machinery = [t for idx in sorted(results) for t in results[idx][1]]
    if machinery:
        raise MachineryError(f"{len(machinery)} binding failures, first: {machinery[:3]}")
    if len(results) != len(items):
        raise MachineryError("lost conformance results")
    per_fp = {}
    kinds_seen = set()
    for idx, (mdoc, pair, from_tlc) in enumerate(items):
        problems, _, n_eval = results[idx]
        ctx.evaluated(n_eval)
        if from_tlc:
            ctx.traces(1)
        else:
            ctx.count("random_pairs")
        e = pair["elem"]
        ctx.count("pairs")
        if not row_major(e):
            ctx.count("pairs_dict_not_row_major")
            if push(as_written(e), Map(mdoc), ref_values(ref_size(e))) != [Fraction(*x) for x in pair["phys"]]:
                ctx.count("pairs_dict_order_observable")  # reading the entries positionally would give another table
        ctx.count(f"pairs_depth{min(depth(e), 3)}")
        ctx.count(f"pairs_map_{mdoc['kind']}")
        kinds_seen |= leaf_kinds(e)
        if nontrivial(e):
            ctx.distinct(pair["map"] + "|" + repr(e))
        for fp, what, variant in problems:
            per_fp[fp] = per_fp.get(fp, 0) + 1
            ctx.count("mismatches")
            if per_fp[fp] <= 3:
                ctx.violation(fp, what, {"map": mdoc, "pair": pair, "variant": variant})
    missing = set(LEAF + ("mixed", "symmetric")) - kinds_seen
    if missing:
        raise MachineryError(f"vacuous: pullback kinds never exercised: {sorted(missing)}")
    if ctx.cov.get("pairs_dict_order_observable", 0) < (100 if quick else 1000):
        raise MachineryError(f"vacuous: only {ctx.cov.get('pairs_dict_order_observable', 0)} pairs whose symmetry dictionary order could be observed")
    need = 300 if quick else 20000
    if len(items) < need:
        raise MachineryError(f"only {len(items)} pairs compared (need {need})")
    for mdoc, pair, _ in (items[0], items[n_tlc // 2], items[n_tlc - 1], items[-1]):
        ctx.sample({"map": mdoc["name"], "element": show(pair["elem"]), "pshape": pair["pshape"], "phys[:4]": [f"{a}/{b}" if b != 1 else str(a) for a, b in pair["phys"][:4]]})
    print(f"  {len(items)} pairs ({n_tlc} from TLC), {sum(per_fp.values())} mismatches, {time.time() - t0:.0f}s", flush=True)


def replay(ctx, doc):
    r = doc["replay"]
    o = examine(r["map"], r["pair"])
    print("replay", r["map"]["name"], show(r["pair"]["elem"]), "->", [p[0] for p in o.problems] or "conforms", o.machinery or "")
    for fp, what, variant in o.problems:
        ctx.violation(fp, what, r)


# ------------------------------------------------------------------------------------------------
# selftest
# ------------------------------------------------------------------------------------------------


def selftest(ctx):
    import copy

    import ufl.pullback as P
    from ufl.core.multiindex import indices
    from ufl.domain import extract_unique_domain
    from ufl.tensors import as_tensor
    from ufl.utils.sequences import product

    res = run_tlc(1, (1, 2, 3), 4)
    maps, pairs = parse_tlc(res, (1, 2, 3))
    # leaves, all symmetric elements, and a spread of the mixed ones
    sel = [p for p in pairs if p["elem"]["kind"] in LEAF]
    rest = [p for p in pairs if p["elem"]["kind"] not in LEAF]
    sel += rest[:: max(1, len(rest) // 240)]
    sel += [p for p in rest if p["elem"]["kind"] == "symmetric" and not row_major(p["elem"]) and p not in sel][::3]
    print(f"  selftest universe: {len(sel)} of {len(pairs)} quick pairs on {sorted(maps)}", flush=True)

    def fps(ps, patch=None):
        saved = []
        for cls, name, fn in patch or []:
            saved.append((cls, name, cls.__dict__[name]))
            setattr(cls, name, fn)
        try:
            out = {}
            for p in ps:
                o = examine(maps[p["map"]], p, second_env=False)
                if o.machinery:
                    raise MachineryError(f"selftest: {o.machinery[:2]}")
                for fp, _, _ in o.problems:
                    out[fp] = out.get(fp, 0) + 1
            return out
        finally:
            for cls, name, fn in saved:
                setattr(cls, name, fn)

    base = fps(sel)
    if base:
        raise MachineryError(f"selftest: the unmodified code does not conform: {base}")
    for p in sel:
        t = check_transcription(maps[p["map"]], p)
        if t:
            raise MachineryError("selftest: " + t)

    def cov_swapped(self, expr, domain=None):
        from ufl.classes import JacobianInverse

        domain = domain or extract_unique_domain(expr)
        K = JacobianInverse(domain)
        *k, i, j = indices(len(expr.ufl_shape) + 1)
        return as_tensor(K[i, j] * expr[(*k, j)], (*k, i))

    def dcontra_power1(self, expr, domain=None):
        from ufl.classes import Jacobian, JacobianDeterminant

        domain = domain or extract_unique_domain(expr)
        J = Jacobian(domain)
        detJ = JacobianDeterminant(J)
        *k, i, j, m, n = indices(len(expr.ufl_shape) + 2)
        return as_tensor((1.0 / detJ) * J[i, m] * expr[(*k, m, n)] * J[j, n], (*k, i, j))

    def l2_abs(self, expr, domain=None):
        from ufl.classes import JacobianDeterminant

        domain = domain or extract_unique_domain(expr)
        return expr / abs(JacobianDeterminant(domain))

    def covcontra_transposed(self, expr, domain=None):
        from ufl.classes import Jacobian, JacobianDeterminant, JacobianInverse

        domain = domain or extract_unique_domain(expr)
        J = Jacobian(domain)
        detJ = JacobianDeterminant(J)
        K = JacobianInverse(domain)
        *k, i, j, m, n = indices(len(expr.ufl_shape) + 2)
        return as_tensor((1.0 / detJ) * K[m, i] * expr[(*k, m, n)] * J[n, j], (*k, i, j))

    def mixed_physical_offsets(self, expr, domain=None):
        import numpy as np

        rflat = [expr[idx] for idx in np.ndindex(expr.ufl_shape)]
        g_components = []
        offset = 0
        for subelem in self._element.sub_elements:
            sl = [rflat[(offset + q) % len(rflat)] for q in range(subelem.reference_value_size)]
            rsub = as_tensor(np.asarray(sl).reshape(subelem.reference_value_shape))
            rmapped = subelem.pullback.apply(rsub)
            g_components.extend(rmapped[idx] for idx in np.ndindex(rmapped.ufl_shape))
            offset += product(rmapped.ufl_shape)  # the mutation: physical instead of reference size (wrapping around)
        dom = extract_unique_domain(expr)
        return as_tensor(np.asarray(g_components).reshape(self.physical_value_shape(self._element, dom)))

    def sym_transposed_blocks(self, expr, domain=None):
        import numpy as np

        rflat = [expr[idx] for idx in np.ndindex(expr.ufl_shape)]
        offsets = [0]
        for subelem in self._element.sub_elements:
            offsets.append(offsets[-1] + subelem.reference_value_size)
        g_components = []
        for component in np.ndindex(self._block_shape):
            i = self._symmetry[component]
            subelem = self._element.sub_elements[i]
            # the mutation: every block reads the slice of sub-element 0
            rsub = as_tensor(np.asarray(rflat[offsets[0] : offsets[1]]).reshape(subelem.reference_value_shape))
            rmapped = subelem.pullback.apply(rsub)
            g_components.extend(rmapped[idx] for idx in np.ndindex(rmapped.ufl_shape))
        dom = extract_unique_domain(expr)
        return as_tensor(np.asarray(g_components).reshape(self.physical_value_shape(self._element, dom)))

    def sym_entry_order(self, expr, domain=None):
        import numpy as np

        rflat = [expr[idx] for idx in np.ndindex(expr.ufl_shape)]
        offsets = [0]
        for subelem in self._element.sub_elements:
            offsets.append(offsets[-1] + subelem.reference_value_size)
        g_components = []
        for i in self._symmetry.values():  # the mutation: the blocks in the order the dictionary was written
            subelem = self._element.sub_elements[i]
            rsub = as_tensor(np.asarray(rflat[offsets[i] : offsets[i + 1]]).reshape(subelem.reference_value_shape))
            rmapped = subelem.pullback.apply(rsub)
            g_components.extend(rmapped[idx] for idx in np.ndindex(rmapped.ufl_shape))
        dom = extract_unique_domain(expr)
        return as_tensor(np.asarray(g_components).reshape(self.physical_value_shape(self._element, dom)))

    def contra_shape(self, element, domain):
        return element.reference_value_shape

    mutants = [
        ("CovariantPiola uses K[i, j]", [(P.CovariantPiola, "apply", cov_swapped)], "C08:covariant:transposed-K:square"),
        ("CovariantPiola uses K[i, j] (negative determinant map)", [(P.CovariantPiola, "apply", cov_swapped)], "C08:covariant:transposed-K:negdet"),
        ("DoubleContravariantPiola divides by detJ once", [(P.DoubleContravariantPiola, "apply", dcontra_power1)], "C08:dcontra:wrong-detJ-power:immersed"),
        ("L2Piola divides by |detJ|", [(P.L2Piola, "apply", l2_abs)], "C08:l2:detJ-sign:negdet"),
        ("CovariantContravariantPiola uses J[n, j]", [(P.CovariantContravariantPiola, "apply", covcontra_transposed)], "C08:covcontra:transposed-J:square"),
        ("MixedPullback advances by the physical size", [(P.MixedPullback, "apply", mixed_physical_offsets)], "C08:mixed:mixed-offset:immersed"),
        ("SymmetricPullback reads sub-element 0 for every block", [(P.SymmetricPullback, "apply", sym_transposed_blocks)], "C08:symmetric:symmetric-offset:square"),
        ("SymmetricPullback takes the blocks in the order of the dictionary's entries", [(P.SymmetricPullback, "apply", sym_entry_order)], "C08:symmetric:declaration-order:negdet"),
        ("ContravariantPiola.physical_value_shape returns the reference shape", [(P.ContravariantPiola, "physical_value_shape", contra_shape)], "C08:contravariant:value-shape:immersed"),
    ]
    failed = []
    for name, patch, want in mutants:
        got = fps(sel, patch)
        ok = want in got
        print(f"  mutant {name}: {'rejected' if ok else 'NOT REJECTED'} ({sum(got.values())} mismatches; wanted {want}; got {sorted(got)[:6]})", flush=True)
        if not ok:
            failed.append(name)
    if fps(sel):
        raise MachineryError("selftest: a mutation leaked")

    # corrupted predictions
    victim = next(p for p in sel if p["elem"]["kind"] == "mixed" and p["map"] == "tri3d" and any(s["kind"] == "contravariant" for s in p["elem"]["subs"]))
    c1 = copy.deepcopy(victim)
    c1["phys"][-1] = [c1["phys"][-1][0] + 1, c1["phys"][-1][1]]
    c2 = copy.deepcopy(victim)
    c2["pshape"] = [c2["pshape"][0] + 1]
    c3 = copy.deepcopy(victim)
    c3["phys"][0], c3["phys"][1] = c3["phys"][1], c3["phys"][0]
    for name, c in (("one predicted component + 1", c1), ("predicted shape + 1", c2), ("two predicted components swapped", c3)):
        got = fps([c])
        print(f"  corrupted prediction ({name}): {'rejected ' + str(sorted(got)) if got else 'NOT REJECTED'}", flush=True)
        if not got:
            failed.append(name)
    if check_transcription(maps[c1["map"]], c1) is None:
        failed.append("transcription check accepts a corrupted TLC table")
    if failed:
        raise MachineryError(f"selftest: not rejected: {failed}")
    print("  selftest: every mutant and every corrupted prediction was rejected", flush=True)


def main(argv=None):
    main_wrapper("C08", run, argv)
