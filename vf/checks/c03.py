"""C03 — Spatial derivatives are lowered to exact derivatives of terminals.

The derivative operators are specified semantically (spec/UFLBuild.tla, scalar domain
spec/jets/CQ.tla): every terminal is seeded with independent first and second derivative data
as a truncated Taylor series, and grad/div/curl/nabla_grad/nabla_div/.dx of ANY expression are read
off the series coefficients — no differentiation rule appears in the specification.  The replay
builds the same program with ufl's operators, runs the real derivative expansion and evaluates the
result (in which derivatives act on terminals only) with the same derivative data.
"""

from __future__ import annotations

import os

from ..builder import LIT, Slice, replay_doc, run_slices
from ..common import main_wrapper

F, G = ("f", ()), ("g", ())
U, V = ("u", (2,)), ("v", (2,))
A = ("A", (2, 2))
P3, F3 = ("p", (3,)), ("f", ())
FIN = {"apply_derivatives"}
D2 = {"grad", "div", "curl", "nabla_grad", "nabla_div", "dx"}


MATH = {"exp", "ln", "sin", "cos", "tan", "sinh", "cosh", "tanh", "asin", "atan"}


def slices(tier):
    q = tier == "quick"
    J2 = dict(mode="spatial", ndir=2)
    J3 = dict(mode="spatial", ndir=3)
    kw = dict(finalops=FIN, only_final=True, nenv=1)
    E = {"mul", "add", "div", "index", "dot", "inner", "abs", "pow", "sqrt", "neg", "outer", "transpose", "list"}
    out = [
        Slice("d1", [F, G, U, A], D2, 2, idx=(10,), jets=J2, levels=[D2, FIN], mikinds=("name", "fixed"), **kw),
        Slice("d-of-expr", [F, G, U], D2 | E, 3, idx=(10,), lits=[LIT["two"]], jets=J2, levels=[E, D2, FIN], mikinds=("name", "fixed"), **kw),
        Slice("d-d", [F, U], D2, 3, idx=(10,), jets=J2, levels=[D2, D2, FIN], mikinds=("name", "fixed"), **kw),
        Slice("expr-of-d", [F, G, U], D2 | E, 3, idx=(10,), lits=[LIT["two"]], jets=J2, levels=[D2, {"mul", "add", "index", "dot", "inner", "div", "abs", "pow"}, FIN], mikinds=("name", "fixed"), **kw),
        # rank-3 results: grad / nabla_grad of a rank-2 field (the order of ALL trailing axes matters), second gradients
        Slice("rank3", [U, A], {"grad", "nabla_grad", "div", "nabla_div", "index"}, 3, idx=(10,), maxrank=3, jets=J2,
              levels=[{"grad", "nabla_grad"}, {"grad", "nabla_grad", "div", "nabla_div", "index"} | FIN, FIN], mikinds=("fixed",), chain=True, **kw),
        # chain rule through exp, ln, sin, ...: z vanishes at the point and o is 1 there, with generic gradients and Hessians
        Slice("math", [("z", ()), ("o", ()), F], MATH | {"mul", "grad", "dx", "div"}, 4, idx=(10,), jets=J2, fixed={"z": 0, "o": 1},
              levels=[MATH | {"mul", "atan2"}, {"grad", "dx"}, FIN | {"div", "grad", "dx"}, FIN], mikinds=("fixed",), **dict(kw, chain="strict")),
        Slice("math2", [("z", ()), ("o", ())], MATH | {"mul", "grad"}, 4, idx=(10,), jets=J2, fixed={"z": 0, "o": 1},
              levels=[MATH | {"mul"}, {"exp", "ln", "sin", "cos", "mul"}, {"grad"}, FIN], mikinds=("fixed",), **dict(kw, chain="strict")),
        # powers whose EXPONENT varies in space: b = 2 and n = 3 at the point (2 ** n = exp(n ln 2), ln 2 an exact atom)
        Slice("pow-var", [("b", ()), ("n", ()), F], {"pow", "mul", "add", "grad", "dx"}, 4, idx=(10,), jets=J2, fixed={"b": 2, "n": 3},
              levels=[{"pow", "mul", "add"}, {"pow", "mul"}, {"grad", "dx"}, FIN], mikinds=("fixed",), **dict(kw, chain="strict")),
        Slice("d3", [F3, P3], {"grad", "div", "curl", "nabla_grad", "dx"}, 2, idx=(10,), maxdim=3, gdim=3, jets=J3, levels=[{"grad", "div", "curl", "nabla_grad", "dx"}, FIN], mikinds=("name", "fixed"), **kw),
    ]
    # geometric quantities under the derivative operators (non-immersed affine cells): x with grad x = I,
    # cellwise constants with zero gradient
    GO = {"x": {"kind": "x"}, "vol": {"kind": "vol"}}
    gkw = dict(finalops=FIN, only_final=True, nenv=2, pipeline=dict(options=[], opts=GO))
    out += [
        Slice("geom", [F, ("x", (2,)), ("vol", ())], D2 | E, 3, idx=(10,), levels=[{"mul", "dot", "index", "div", "inner"}, D2, FIN], mikinds=("fixed",), **gkw),
        Slice("geom-d", [("x", (2,)), ("vol", ())], D2, 3, idx=(10,), levels=[D2, {"grad", "div", "dx"}, FIN], mikinds=("fixed",), **gkw),
    ]
    if not q:
        out += [
            Slice("d-expr-d", [F, G, U], D2 | E, 4, idx=(10,), lits=[LIT["two"]], jets=J2, levels=[D2, {"mul", "add", "index", "dot", "inner", "div"}, D2, FIN], mikinds=("name", "fixed"), simulate=600, depth=5, **kw),
            Slice("d-of-expr2", [F, G, U], D2 | E, 4, idx=(10,), lits=[LIT["two"]], jets=J2, levels=[E, {"mul", "add", "div", "index", "dot", "inner", "pow"}, D2, FIN], mikinds=("fixed",), chain=True, simulate=600, depth=5, **kw),
            Slice("d3-of-expr", [F3, P3], {"grad", "div", "curl", "nabla_grad", "dx", "mul", "cross", "dot", "index"}, 3, idx=(10,), maxdim=3, gdim=3, jets=J3, levels=[{"mul", "cross", "dot", "index"}, {"grad", "div", "curl", "nabla_grad", "dx"}, FIN], mikinds=("name", "fixed"), **kw),
        ]
    return out


def structural(ctx, rec, obj, w):
    """After derivative expansion derivatives act only on terminals."""
    from ufl.classes import CoefficientDerivative, Derivative, Grad, ReferenceGrad, Terminal, VariableDerivative
    from ufl.corealg.traversal import unique_pre_traversal

    for n in unique_pre_traversal(obj):
        if isinstance(n, Derivative):
            o = n.ufl_operands[0]
            while isinstance(o, (Grad, ReferenceGrad)):
                o = o.ufl_operands[0]
            if not isinstance(o, Terminal):
                return ("derivative-on-non-terminal:" + type(n).__name__, f"{type(n).__name__} acts on {type(o).__name__} after apply_derivatives")
            if not isinstance(n, (Grad, ReferenceGrad)):
                return ("compound-derivative-left:" + type(n).__name__, f"{type(n).__name__} survives apply_derivatives")
    return None


def refusal(rec, status, detail, w):
    """A refusal (e.g. derivative of abs of a vector, no geometric dimension) is not a wrong value."""
    return status == "mismatch:raise"


def run(ctx, args):
    ctx.rule = (
        "TLC enumerates programs [expressions, spatial derivative operators (possibly nested / followed by "
        "more algebra), apply_derivatives] with the derivative semantics of the jets scalar domain; each program is "
        "replayed through ufl.grad/div/curl/nabla_grad/nabla_div/.dx and apply_derivatives(apply_algebra_lowering(.)); "
        "the expanded expression is evaluated with the same terminal derivative data and compared exactly; "
        "case = one program; non-trivial = predicted value defined"
    )
    ctx.assume("terminals are smooth fields with independent generic first and second derivative data (symmetric Hessians); at most two nested spatial derivatives (series truncated at s t)")
    ctx.assume("geometric quantities: SpatialCoordinate (grad x = I) and CellVolume (cellwise constant) on non-immersed affine triangles; immersed cells are not judged (ufl returns the identity for grad x there)")
    only = os.environ.get("VERIF_SLICES")
    sls = [sl for sl in slices(ctx.tier) if not only or sl.name in only.split(",")]
    run_slices(ctx, sls, "C03", post=structural, accept=refusal)


def replay(ctx, doc):
    replay_doc(ctx, doc, "C03")


def main(argv=None):
    main_wrapper("C03", run, argv)
