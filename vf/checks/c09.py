"""C09 — Jacobian product cancellation preserves values.

J, K (the inverse, or left pseudo-inverse on manifolds), detJ and the identity are terminals of
UFLBuild with CONSISTENT values (K J = I, detJ = det J of either sign, or the pseudo-determinant);
TLC enumerates index-notation programs with contractions over a reused pool of index names, powers
of detJ with exponents 2, -1, -2, 1/2 and products of them; the action cancelj
(cancel_jacobian_products after remove_component_tensors) must leave shape, free indices and value
unchanged.
"""

from __future__ import annotations

import os

from ..builder import LIT, Slice, replay_doc, run_slices
from ..common import main_wrapper

FIN = {"cancelj"}
GEO2 = dict(gdim=2, tdim=2, names={"J": "J", "K": "K", "detJ": "dj"}, identities={"I": 2}, opts={"J": {"kind": "J"}, "K": {"kind": "K"}, "dj": {"kind": "detJ"}, "I": {"kind": "I"}})
GEO32 = dict(gdim=3, tdim=2, names={"J": "J", "K": "K", "detJ": "dj"}, identities={}, opts={"J": {"kind": "J"}, "K": {"kind": "K"}, "dj": {"kind": "detJ"}})
J2, K2, DJ, I2 = ("J", (2, 2)), ("K", (2, 2)), ("dj", ()), ("I", (2, 2))
J32, K23 = ("J", (3, 2)), ("K", (2, 3))
U, F, A = ("u", (2,)), ("f", ()), ("A", (2, 2))
U3 = ("p", (3,))


def slices(tier):
    q = tier == "quick"
    kw = dict(finalops=FIN, only_final=True, tiny=True, nenv=2, chain=True)
    IX = {"index"}
    out = [
        # sum_k J[a,k] K[k,b] (x more factors), both orders, with free and contracted outer indices
        Slice("jk", [J2, K2, U], {"index", "mul"}, 4, idx=(10, 11, 12), geometry=GEO2, levels=[IX, IX, {"mul"}, FIN], mikinds=("name",), **kw),
        # nested sums: K[j,k] * (J[k,j'] v[j'])  -- index names reused across scopes
        Slice("identity", [I2, U, A], {"index", "mul"}, 4, idx=(10,), geometry=GEO2, levels=[IX, IX, {"mul"}, FIN], mikinds=("name", "fixed"), **kw),
        # reciprocal powers of detJ
        Slice("detj", [DJ], {"pow", "div", "mul"}, 4, lits=[LIT["two"], LIT["mone"], LIT["half"]], geometry=GEO2, levels=[{"pow", "div"}, {"pow", "div"}, {"mul"}, FIN], **dict(kw, chain="strict")),
        # (detJ**2)**(1/2) * detJ**-1 and relatives: exponent merging must respect the sign of detJ
        Slice("detj-piola", [DJ], {"pow", "mul", "div"}, 5, lits=[LIT["two"], LIT["half"], LIT["one"]], geometry=GEO2, levels=[{"pow"}, {"pow"}, {"div"}, {"mul"}, FIN], **dict(kw, chain="strict")),
        # compound algebra over K.J: lowering + component-tensor removal instantiate ONE summation index object with
        # several different partners (det, sym, ... index the same component tensor more than once)
        Slice("compound", [K2, J2, A], {"dot", "det", "sym", "skew", "dev", "cofac", "transpose", "tr", "index", "inner"}, 5, idx=(10,), geometry=GEO2,
              levels=[{"dot"}, {"dot"}, {"det", "sym", "skew", "dev", "cofac", "transpose", "tr", "inner"}, FIN | {"index"}, FIN], mikinds=("fixed",), **dict(kw, chain="strict")),
        Slice("immersed", [J32, K23, U3, U], {"index", "mul"}, 4, idx=(10, 11, 12), maxdim=3, gdim=2, geometry=GEO32, levels=[IX, IX, {"mul"}, FIN], mikinds=("name",), **kw),
    ]
    if not q:
        out += [
            # the Piola pattern: (detJ**2)**(1/2) * (1/detJ), detJ**2 * (1/detJ)**2, with a field factor
            Slice("detj-f", [DJ, F], {"pow", "div", "mul"}, 5, lits=[LIT["two"], LIT["half"], LIT["one"]], geometry=GEO2, levels=[{"pow"}, {"pow", "div"}, {"pow", "mul"}, {"mul"}, FIN], simulate=1500, depth=7, **kw),
            Slice("jk-v", [J2, K2, U], {"index", "mul"}, 6, idx=(10, 11), geometry=GEO2, levels=[IX, IX, {"mul"}, IX, {"mul"}, FIN], mikinds=("name",), simulate=1500, depth=7, **kw),
            Slice("jk-v-wide", [J2, K2, U, A], {"index", "mul", "add"}, 6, idx=(10, 11, 12), geometry=GEO2, levels=[IX, IX, {"mul"}, IX, {"mul", "add"}, FIN], mikinds=("name", "fixed"), simulate=1500, depth=7, **kw),
            Slice("detj-wide", [DJ, F], {"pow", "div", "mul", "sqrt", "abs"}, 5, lits=[LIT["two"], LIT["mone"], LIT["half"]], geometry=GEO2, levels=[{"pow", "div", "abs"}, {"pow", "div", "mul", "sqrt"}, {"mul", "div", "pow"}, {"mul", "div"}, FIN], simulate=1500, depth=7, **kw),
            Slice("immersed-v", [J32, K23, U3, U], {"index", "mul"}, 6, idx=(10, 11, 12), maxdim=3, gdim=2, geometry=GEO32, levels=[IX, IX, {"mul"}, IX, {"mul"}, FIN], mikinds=("name",), simulate=1500, depth=7, **kw),
        ]
    return out


def run(ctx, args):
    ctx.rule = (
        "TLC enumerates index-notation programs over J, K, detJ, Identity and field terminals (contractions over a "
        "reused pool of index names, nested sums, powers of detJ with exponents 2, -1, -2, 1/2) ending in cancelj; "
        "each is replayed and cancel_jacobian_products(remove_component_tensors(.)) must return an object of equal "
        "shape, free indices and value in two environments (det J > 0 and det J < 0; full-rank 3x2 J with its "
        "pseudo-inverse on the manifold slices); case = one program; non-trivial = predicted value defined"
    )
    ctx.assume("J generic integer matrices, K = J^-1 (or (J^T J)^-1 J^T), detJ = det J of both signs (pseudo-determinant on manifolds, chosen rational)")
    only = os.environ.get("VERIF_SLICES")
    sls = [sl for sl in slices(ctx.tier) if not only or sl.name in only.split(",")]
    run_slices(ctx, sls, "C09")


def replay(ctx, doc):
    replay_doc(ctx, doc, "C09")


def main(argv=None):
    main_wrapper("C09", run, argv)
