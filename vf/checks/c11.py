"""C11 — forms with different compiled meaning never share a signature; equal forms always do.

spec/Signature.tla defines form programs (tables of meshes / function spaces / coefficients /
constants, each coefficient / constant with the Python class it is an instance of: ufl's own or a
user subclass + integrals [type, subdomain id, metadata, domain, integrand tree, intersect measures
of a multi-domain integral]), `Canon` = the
program modulo exactly the numberings the signature is specified to ignore, single-site mutations
for every kind of site and renamings that change only ignorable numbering.  TLC explores, for
every program of each bounded universe, every mutation, every renaming and every renaming of every
mutant, checks that renamings leave Canon unchanged and that mutations of a kind declared semantic
change it, and prints every state with the canonical representative of its class.

Binding: every printed state is built as a REAL ufl form through the public API (fresh meshes,
spaces, coefficients, constants, indices, labels, measures, numpy arrays for every build; counts and
ufl_ids come from a different offset for every build) and `form.signature()` is computed.  Within
each neighbourhood (a base program, its mutants, their renamings) the signatures must induce exactly
the partition that Canon induces: two members share a signature iff they share the canonical
representative.  The same is required of `compute_expression_signature` of the integrands whenever
two members have the same measures.  A hand-written library of pairs outside the model's alphabet
(mixed elements, Zero with free indices, ...) and of pairs that are recorded but not judged follows.
"""

from __future__ import annotations

import os

import functools
import json
import multiprocessing
import operator
import random
import time

from .. import tlc
from ..common import MachineryError, main_wrapper

# --------------------------------------------------------------------------------------------
# TLC side
# --------------------------------------------------------------------------------------------

CFG = """CONSTANTS Univ = "{univ}"
Lvl = {lvl}
Ren2 = {ren2}
DumpOn = TRUE
SPECIFICATION Spec
INVARIANT RenameInvisible
INVARIANT SemanticVisible
INVARIANT BaseWellFormed
INVARIANT VerdictStable
INVARIANT Dump
"""

UNIVERSES = ("alg", "index", "cond", "deriv", "bfo", "md", "measure", "elem", "xm")
JAVA = "-DTLA-Library=" + os.path.join(os.path.dirname(os.path.dirname(os.path.dirname(os.path.abspath(__file__)))), "spec") + " -Xmx3g -Xmn256m -XX:ParallelGCThreads=2 -Dtlc2.tool.queue.IStateQueue=StateDeque"


class Job:
    def __init__(self, univ, lvl, ren2, seeds=None, tag=None):
        self.univ, self.lvl, self.ren2, self.seeds = univ, lvl, ren2, seeds
        self.tag = tag or univ
        self.res = None

    def run(self):
        cfg = CFG.format(univ=self.univ, lvl=self.lvl, ren2="TRUE" if self.ren2 else "FALSE")
        kw = dict(workers=4 if self.univ == "all" else 2, heap="3g", timeout=1500, env={"JAVA_TOOL_OPTIONS": JAVA})
        # the spec reads seeds.json in every configuration (JsonDeserialize is evaluated lazily, but
        # the file must exist for the "seeds" universe only)
        kw["extra_files"] = {"seeds.json": json.dumps(self.seeds if self.seeds is not None else [])}
        res = tlc.run("Signature", cfg, **kw)
        if res.outcome == "error" and res.distinct == 0:
            res = tlc.run("Signature", cfg, **kw)  # a JVM that could not start: one retry
        res.cfg_name = f"Signature[{self.tag},Lvl={self.lvl},Ren2={self.ren2}].cfg"
        self.res = res
        return self


def run_jobs(ctx, jobs, par=4):
    from concurrent.futures import ThreadPoolExecutor

    with ThreadPoolExecutor(max_workers=par) as ex:
        list(ex.map(lambda j: j.run(), jobs))
    for j in jobs:
        ctx.add_tlc(j.res)
        if not j.res.ok:
            # an invariant failing here means the MODEL is wrong (a renaming visible in Canon, a
            # semantic mutation invisible): machinery, not a verdict about ufl
            tlc.require_ok(j.res, f"Signature[{j.tag}]")
        if len(j.res.prints) != j.res.distinct:
            raise MachineryError(f"Signature[{j.tag}]: {j.res.distinct} states but {len(j.res.prints)} dump lines")


_RE_B = None


def raw_neighbourhoods(job):
    """Group the raw dump lines of one run by base program number (parsed later, in the workers)."""
    import re

    global _RE_B
    if _RE_B is None:
        _RE_B = re.compile(r'^"\[(\d+),')
    groups = {}
    for s in job.res.prints:
        m = _RE_B.match(s)
        if not m:
            raise MachineryError(f"Signature[{job.tag}]: unexpected dump line {s[:60]!r}")
        groups.setdefault(int(m.group(1)), []).append(s)
    return [groups[b] for b in sorted(groups)]


def parse_group(raw, tag=""):
    """Dump lines [b, lvl, kind, program, rep, stripped rep] of one base program -> members, base first."""
    g = []
    for s in raw:
        b, lvl, kind, prog, rep, srep = json.loads(json.loads(s))
        g.append((lvl, kind, prog, rep, srep))
    g.sort(key=lambda e: (e[0] != 0, e[0], e[1], json.dumps(e[2])))
    if g[0][0] != 0 or (len(g) > 1 and g[1][0] == 0):
        raise MachineryError(f"Signature[{tag}]: a neighbourhood has no unique level-0 state")
    return g


def neighbourhoods(job):
    return [parse_group(r, job.tag) for r in raw_neighbourhoods(job)]


# --------------------------------------------------------------------------------------------
# tables shared with the spec (ids -> real values)
# --------------------------------------------------------------------------------------------

ITYPES = {1: "dx", 2: "ds", 3: "dS", 4: "dP"}
MD_KEYS = {1: "quadrature_degree", 2: "quadrature_rule", 3: "tol", 4: "opts", 5: "quadrature_weights", 6: "quadrature_points", 7: "flag", 8: "extra"}
MD_STRS = {1: "default", 2: "vertex", 3: "custom"}
FAMILIES = {1: "Lagrange", 2: "Discontinuous Lagrange", 3: "Bubble"}
CMP = {1: "lt", 2: "gt", 3: "le", 4: "ge", 5: "eq", 6: "ne"}


@functools.lru_cache(maxsize=None)
def counted_classes():
    """class id of the spec (coefs[.][3], csts[.][4]) -> Python class: ufl's own class and user
    subclasses of it, as a problem solving environment defines them (they share the counter and the
    numbering of the ufl class: Counted._counted_class)."""
    import ufl

    class Function(ufl.Coefficient):
        """A coefficient class of a problem solving environment."""

    class SubFunction(Function):
        """A subclass of the subclass."""

    class Parameter(ufl.Constant):
        """A constant class of a problem solving environment."""

    return {"coef": {0: ufl.Coefficient, 1: Function, 2: SubFunction}, "cst": {0: ufl.Constant, 1: Parameter}}


@functools.lru_cache(maxsize=None)
def floats():
    import numpy as np

    return {1: 0.5, 2: 0.1, 3: float(np.nextafter(0.1, 1.0)), 4: 2.0, 5: 0.1000001}


@functools.lru_cache(maxsize=None)
def arrays():
    """id -> (label, array); pairwise distinct in (dtype, shape, bytes)."""
    import numpy as np

    big = np.arange(2000, dtype=float) / 7.0
    big_mid = big.copy()
    big_mid[1000] += 0.5  # differs where str() prints "..."
    return {
        1: ("pts3", np.array([[0.5, 0.0], [0.5, 0.5], [0.0, 0.5]])),
        2: ("pts3-moved", np.array([[0.5, 0.0], [0.5, 0.25], [0.0, 0.5]])),
        3: ("big", big),
        4: ("big-middle-entry", big_mid),
        5: ("w-9digits-a", np.array([0.123456789, 0.5])),
        6: ("w-9digits-b", np.array([0.123456788, 0.5])),
        7: ("int12", np.array([1, 2])),
        8: ("float12", np.array([1.0, 2.0])),
        9: ("shape22", np.array([[1.0, 2.0], [3.0, 4.0]])),
        10: ("shape4", np.array([1.0, 2.0, 3.0, 4.0])),
    }


# --------------------------------------------------------------------------------------------
# program -> real ufl form (public API only; fresh objects for every build)
# --------------------------------------------------------------------------------------------


class Build:
    """One build of a program.  `salt` selects the offset of every count / ufl_id of this build.

    All counts of one build have the same number of digits (ordering of constants and geometric
    quantities by repr string across a digit boundary is the subject of C12, not of C11).
    """

    def __init__(self, prog, salt):
        self.p = prog
        self.base = 100000 + 1000 * (salt % 800)
        self._mesh, self._space, self._coef, self._cst, self._index, self._label = {}, {}, {}, {}, {}, {}

    # ---- tables ----
    def gdim(self, d):
        return self.p["doms"][d - 1][1]

    def mesh(self, d):
        if d not in self._mesh:
            import ufl
            from vf.elements import LagrangeElement

            cell, gdim, cdeg, uid = self.p["doms"][d - 1]
            c = {1: ufl.triangle, 2: ufl.quadrilateral}[cell]
            self._mesh[d] = ufl.Mesh(LagrangeElement(c, cdeg, (gdim,)), ufl_id=self.base + uid)
        return self._mesh[d]

    def element(self, e):
        import ufl
        from ufl.pullback import contravariant_piola, covariant_piola, identity_pullback
        from ufl.sobolevspace import H1, L2, HCurl, HDiv
        from vf.elements import FiniteElement, SymmetricElement

        fam, deg, shape, mp, sob, sym, d = self.p["elems"][e - 1]
        cell = {1: ufl.triangle, 2: ufl.quadrilateral}[self.p["doms"][d - 1][0]]
        gdim = self.gdim(d)
        S = {1: H1, 2: L2, 3: HDiv, 4: HCurl}[sob]
        M = {1: identity_pullback, 2: contravariant_piola, 3: covariant_piola}[mp]
        name = FAMILIES[fam]
        if shape == 0:
            return FiniteElement(name, cell, deg, (), M, S)
        if shape == 1:
            return FiniteElement(name, cell, deg, (gdim,) if mp == 1 else (cell.topological_dimension,), M, S)
        if sym:
            symm, k = {}, 0
            for i in range(gdim):
                for j in range(i, gdim):
                    symm[(i, j)] = symm[(j, i)] = k
                    k += 1
            symm = {ij: symm[ij] for ij in sorted(symm)}
            return SymmetricElement(symm, [FiniteElement(name, cell, deg, (), M, S) for _ in range(k)])
        return FiniteElement(name, cell, deg, (gdim, gdim), M, S)

    def space(self, e):
        if e not in self._space:
            import ufl

            self._space[e] = ufl.FunctionSpace(self.mesh(self.p["elems"][e - 1][6]), self.element(e))
        return self._space[e]

    def coef(self, c):
        if c not in self._coef:
            k, e, cls = self.p["coefs"][c - 1]
            self._coef[c] = counted_classes()["coef"][cls](self.space(e), count=self.base + k)
        return self._coef[c]

    def cst(self, c):
        if c not in self._cst:
            k, sh, d, cls = self.p["csts"][c - 1]
            g = self.gdim(d)
            self._cst[c] = counted_classes()["cst"][cls](self.mesh(d), shape=((), (g,), (g, g))[sh], count=self.base + k)
        return self._cst[c]

    def index(self, name):
        if name not in self._index:
            import ufl

            self._index[name] = ufl.Index(count=self.base + (-name))
        return self._index[name]

    def label(self, k):
        if k not in self._label:
            from ufl.classes import Label

            self._label[k] = Label(count=self.base + k)
        return self._label[k]

    # ---- integrand ----
    def expr(self, t):
        import ufl

        op, a, s = t
        if op == "int":
            return ufl.as_ufl(int(a[0]))
        if op == "flt":
            return ufl.as_ufl(floats()[a[0]])
        if op == "coef":
            return self.coef(a[0])
        if op == "arg":
            return ufl.Argument(self.space(a[2]), a[0], None if a[1] == 0 else a[1] - 1)
        if op == "cst":
            return self.cst(a[0])
        if op == "geo":
            cls = {1: ufl.CellVolume, 2: ufl.Circumradius, 3: ufl.FacetArea, 10: ufl.SpatialCoordinate, 11: ufl.FacetNormal}[a[0]]
            return cls(self.mesh(a[1]))
        x = [self.expr(c) for c in s]
        if op == "sum":
            return x[0] + x[1]
        if op == "prod":
            return x[0] * x[1]
        if op == "div":
            return x[0] / x[1]
        if op == "pow":
            return x[0] ** x[1]
        if op == "inner":
            return ufl.inner(x[0], x[1])
        if op in ("sin", "cos", "exp"):
            return getattr(ufl, op)(x[0])
        if op == "abs":
            return abs(x[0])
        if op == "idx":
            return x[0][tuple(i if i >= 0 else self.index(i) for i in a)]
        if op == "cond":
            # the condition classes, not ufl.lt(l, r) = (l < r): Python evaluates that as r.__gt__(l), i.e.
            # builds GT(r, l), when type(r) is a proper subclass of type(l) (a plain Coefficient compared
            # with an instance of a user subclass) -- another expression than the one the program names
            # (recorded by the extra pair "lt-with-subclass-operand")
            from ufl import classes

            return ufl.conditional(getattr(classes, CMP[a[0]].upper())(x[0], x[1]), x[2], x[3])
        if op == "res":
            return x[0]("+" if a[0] == 1 else "-")
        if op == "dx":
            return x[0].dx(a[0])
        if op == "grad":
            return ufl.grad(x[0])
        if op == "var":
            from ufl.classes import Variable

            return Variable(x[0], self.label(a[0]))
        if op == "ext":
            from ufl.core.external_operator import ExternalOperator

            V = self.space(a[0])
            n = a[1]
            slots = x[n:]
            kw = {}
            if slots:
                kw["argument_slots"] = (ufl.Argument(V.dual(), 0), *slots)
            return ExternalOperator(*x[:n], function_space=V, derivatives=tuple(a[2 : 2 + n]), **kw)
        if op == "itp":
            from ufl.core.interpolate import Interpolate

            return Interpolate(x[0], self.space(a[0]))
        raise MachineryError(f"builder: unknown operator {op!r}")

    # ---- metadata ----
    def md(self, t):
        op, a, s = t
        if op == "dict":
            return {MD_KEYS[k]: self.md(v) for k, v in zip(a, s)}
        if op == "mint":
            return int(a[0])
        if op == "mflt":
            return floats()[a[0]]
        if op == "mstr":
            return MD_STRS[a[0]]
        if op == "mbool":
            return bool(a[0])
        if op == "mnone":
            return None
        if op == "marr":
            return arrays()[a[0]][1].copy()
        if op == "mlist":
            return [self.md(v) for v in s]
        raise MachineryError(f"builder: unknown metadata node {op!r}")

    def form(self):
        import ufl

        pieces = []
        for itype, sid, md, d, g, xm in self.p["itgs"]:
            sub = "everywhere" if sid == [0] else (sid[0] if len(sid) == 1 else tuple(sid))
            kw = {}
            if xm:
                # a multi-domain integral: the intersect measures in the order in which they are written
                kw["intersect_measures"] = tuple(ufl.Measure(ITYPES[t], domain=self.mesh(x)) for t, x in xm)
            dm = ufl.Measure(ITYPES[itype], domain=self.mesh(d), subdomain_id=sub, metadata=self.md(md), **kw)
            pieces.append(self.expr(g) * dm)
        return functools.reduce(operator.add, pieces)


def signatures(prog, salt):
    """(form signature, tuple of expression signatures of the integrands in the form's order)."""
    from ufl.algorithms.signature import compute_expression_signature

    F = Build(prog, salt).form()
    sig = F.signature()
    ren = {}
    ren.update(F.domain_numbering())
    ren.update(F.terminal_numbering())
    es = tuple(compute_expression_signature(itg.integrand(), ren) for itg in F.integrals())
    return sig, es


# --------------------------------------------------------------------------------------------
# comparison of one neighbourhood
# --------------------------------------------------------------------------------------------

PREFIXES = ("extop-argslot", "extop-operand", "interp-operand")
RENAMINGS = ("rename-", "swap-commutative", "reorder-", "md-key-order", "subdomain-tuple-order", "intersect-measure-order")


def mut_kind(kind):
    """The mutation part of a kind sequence (renamings dropped), as a label."""
    ks = [k for k in kind if not k.startswith(RENAMINGS)]
    return ":".join(ks)


def ren_kind(kind):
    ks = [k for k in kind if k.startswith(RENAMINGS)]
    return ":".join(ks)


def _arrs(t, acc):
    if t[0] == "marr":
        acc.append(t[1][0])
    for c in t[2]:
        _arrs(c, acc)
    return acc


def refine(kind_label, p, q):
    """md-array mutations: name the pair of arrays (the defect classes differ)."""
    if not kind_label.endswith("md-array"):
        return kind_label
    a = [x for itg in p["itgs"] for x in _arrs(itg[2], [])]
    b = [x for itg in q["itgs"] for x in _arrs(itg[2], [])]
    diff = [(x, y) for x, y in zip(a, b) if x != y]
    if len(diff) == 1:
        x, y = sorted(diff[0])
        return f"{kind_label}:{arrays()[x][0]}/{arrays()[y][0]}"
    return kind_label


BFO_LABELS = ("extop-derivatives", "extop-space", "extop-argslot", "interp-space")


def _diff_terms(x, y, out):
    if x[0] != y[0]:
        out.add("other")
        return
    op = x[0]
    if op == "ext":
        n, m = x[1][0], y[1][0]
        if n != m:
            out.add("other")
            return
        if x[1][1 : 1 + n] != y[1][1 : 1 + n]:
            out.add("extop-derivatives")
        if x[1][1 + n :] != y[1][1 + n :]:
            out.add("extop-space")
        if len(x[2]) != len(y[2]):
            out.add("extop-argslot")
        for k, (c, d) in enumerate(zip(x[2], y[2])):
            if k < n:
                _diff_terms(c, d, out)
            elif c != d:
                out.add("extop-argslot")
        return
    if x[1] != y[1]:
        out.add("interp-space" if op == "itp" else "other")
    if len(x[2]) != len(y[2]):
        out.add("other")
        return
    for c, d in zip(x[2], y[2]):
        _diff_terms(c, d, out)


def bfo_only_difference(rep_a, rep_b):
    """If two canonical representatives differ only in base-form-operator data (derivatives,
    function space, argument slots of an ExternalOperator, space of an Interpolate): the primary
    label of that difference, else None."""
    if len(rep_a) != len(rep_b):
        return None
    out = set()
    for ia, ib in zip(rep_a, rep_b):
        if ia[:4] != ib[:4] or ia[5] != ib[5]:
            return None
        _diff_terms(ia[4], ib[4], out)
    if not out or "other" in out:
        return None
    return next(l for l in BFO_LABELS if l in out)


def norm_label(label):
    """extop-argslot:coef-identity, extop-argslot-dropped -> extop-argslot (one defect class)."""
    return "extop-argslot" if label.startswith("extop-argslot") else label


def measures_of(rep):
    return json.dumps([[i[0], i[1], i[2], i[3], i[5]] for i in rep], sort_keys=True)


def check_group(group, salt0, sigfn=signatures, corrupt=None):
    """Build every member of a neighbourhood and compare partitions.

    Returns (stats, mismatches); a mismatch is a dict with fingerprint, what, replay."""
    n = len(group)
    keys, sigs, esigs, meas, errors = [], [], [], [], []
    base = group[0][2]
    skeys = []
    for i, (lvl, kind, prog, rep, srep) in enumerate(group):
        keys.append(json.dumps(rep, sort_keys=True))
        skeys.append(json.dumps(srep, sort_keys=True) if srep else None)
        meas.append(measures_of(rep))
        try:
            s, es = sigfn(prog, salt0 + i)
        except MachineryError:
            raise
        except Exception as ex:  # noqa: BLE001  the real code refused a program the model calls valid
            errors.append((i, f"{type(ex).__name__}: {ex}"))
            s, es = None, None
        sigs.append(s)
        esigs.append(es)
    if corrupt:
        corrupt(keys, sigs)
    stats = {"built": n, "pairs": 0, "xpairs": 0, "expr_pairs": 0, "build_errors": len(errors)}
    bad = []
    # the base program once more, with other counts: equal forms, equal signatures
    if not errors or errors[0][0] != 0:
        s2, es2 = sigfn(base, salt0 + n + 7)
        stats["pairs"] += 1
        if s2 != sigs[0] or es2 != esigs[0]:
            bad.append(_mm("C11:unstable:rebuild", "the same program built twice (fresh objects, other counts) has two signatures", base, base, True, (salt0, salt0 + n + 7), []))
    for i, msg in errors:
        bad.append(_mm("C11:build-error:" + mut_kind(group[i][1]), f"ufl refused a program the model calls well-formed: {msg}", base, group[i][2], None, (salt0, salt0 + i), group[i][1]))
    ok = [i for i in range(n) if sigs[i] is not None]
    reported = set()
    # number of comparisons: every pair of members (form signature), every pair with the same
    # measures (expression signatures)
    m = len(ok)
    stats["pairs"] += max(m - 1, 0) if ok and ok[0] == 0 else 0
    stats["xpairs"] += m * (m - 1) // 2 - (max(m - 1, 0) if ok and ok[0] == 0 else 0)
    by_meas = {}
    for i in ok:
        by_meas.setdefault(meas[i], []).append(i)
    stats["expr_pairs"] += sum(len(v) * (len(v) - 1) // 2 for v in by_meas.values())

    def bijective(idx, left, right):
        return len({(left[i], right[i]) for i in idx}) == len({left[i] for i in idx}) == len({right[i] for i in idx})

    if bijective(ok, sigs, keys) and all(bijective(v, esigs, keys) for v in by_meas.values()):
        return stats, bad  # both partitions coincide everywhere: nothing to report
    # candidate pairs: members sharing a signature (form or expression) or a canonical class
    cand = set()
    for idx, left in [(ok, sigs)] + [(v, esigs) for v in by_meas.values()]:
        for col in (left, keys):
            cls = {}
            for i in idx:
                cls.setdefault(col[i], []).append(i)
            for members in cls.values():
                if len(members) > 1:
                    cand.update((a, b) for x, a in enumerate(members) for b in members[x + 1 :])
    per_fp = {}
    for i, j in sorted(cand):
        same_sig = sigs[i] == sigs[j]
        same_key = keys[i] == keys[j]
        verdicts = [("form", same_sig)]
        if meas[i] == meas[j]:
            # same measures: the integrands alone must tell the programs apart
            verdicts.append(("expression", esigs[i] == esigs[j]))
        for which, same in verdicts:
            if same == same_key:
                continue
            j_ = _judge(group, i, j, which, same_sig, same_key, sigs, keys, skeys)
            if j_ is None:
                continue
            fp, what = j_
            if (fp, i if i else j) in reported:
                continue
            reported.add((fp, i if i else j))
            per_fp[fp] = per_fp.get(fp, 0) + 1
            if per_fp[fp] <= 3:
                bad.append(_mm(fp, what, group[i][2], group[j][2], same_key, (salt0 + i, salt0 + j), [group[i][1], group[j][1]]))
            else:
                bad.append({"fingerprint": fp, "count_only": True})
    return stats, bad


def _judge(group, i, j, which, same_sig, same_key, sigs, keys, skeys):
    """Fingerprint and description of a mismatching pair (i < j), or None when the pair is a mere
    consequence of a mismatch with the base program that is reported on its own."""
    ki, kj = group[i][1], group[j][1]
    base = group[0][2]
    suffix = "" if which == "form" else ":expression-signature"
    if not same_key:
        # two meanings, one signature
        if which == "expression" and same_sig:
            return None  # already reported for the form signature
        bfo = bfo_only_difference(group[i][3], group[j][3])
        if not bfo and skeys[i] is not None and skeys[i] == skeys[j]:
            bfo = "bfo-data"  # equal once ExternalOperator / Interpolate data is removed from both
        if i == 0:
            label = bfo or norm_label(refine(mut_kind(kj) or ":".join(kj), base, group[j][2]))
            what = f"different meaning, same {which} signature: base vs [{':'.join(kj)}]"
        else:
            if (sigs[i] == sigs[0] and keys[i] != keys[0]) or (sigs[j] == sigs[0] and keys[j] != keys[0]):
                return None
            label = bfo or "cross:" + "|".join(sorted({mut_kind(ki), mut_kind(kj)}))
            what = f"different meaning, same {which} signature: [{':'.join(ki)}] vs [{':'.join(kj)}]"
        return f"C11:collision:{label}{suffix}", what
    # one meaning, two signatures
    if which == "expression" and not same_sig:
        return None
    if i == 0:
        label = ren_kind(kj) or ":".join(kj)
    else:
        if (sigs[i] != sigs[0] and keys[i] == keys[0]) or (sigs[j] != sigs[0] and keys[j] == keys[0]):
            return None
        if mut_kind(ki) == mut_kind(kj) and ren_kind(kj) and not ren_kind(ki):
            label = ren_kind(kj)
        else:
            label = "cross:" + "|".join(sorted({":".join(ki), ":".join(kj)}))
    return f"C11:unstable:{label}{suffix}", f"same meaning (modulo ignorable numbering), two {which} signatures: [{':'.join(ki) or 'base'}] vs [{':'.join(kj)}]"


def _mm(fp, what, a, b, expect_equal, salts, kinds):
    return {"fingerprint": fp, "what": what, "replay": {"part": "pair", "a": a, "b": b, "expect_equal": expect_equal, "salts": list(salts), "kinds": kinds}}


# ---- parallel replay -------------------------------------------------------------------------

_POOL = None


def start_pool():
    global _POOL
    if _POOL is None:
        import ufl  # noqa: F401  (imported before the fork)

        floats()
        arrays()
        counted_classes()
        _POOL = multiprocessing.get_context("fork").Pool(8)


def stop_pool():
    global _POOL
    if _POOL is not None:
        _POOL.close()
        _POOL.join()
        _POOL = None


def _work(task):
    tag, groups, salt = task
    tot = {"built": 0, "pairs": 0, "xpairs": 0, "expr_pairs": 0, "build_errors": 0}
    bad, distinct, kinds = [], [], {}
    for g in groups:
        if isinstance(g[0], str):
            g = parse_group(g, tag)
        st, b = check_group(g, salt)
        salt += len(g) + 11
        for k in tot:
            tot[k] += st[k]
        bad.extend(b)
        for lvl, kind, prog, rep, _srep in g[1:]:
            distinct.append(tag + "|" + json.dumps([kind, prog], separators=(",", ":")))
            if lvl in (1, 2):
                k = ":".join(kind)
                kinds[k] = kinds.get(k, 0) + 1
    return tot, bad, distinct, kinds


def replay_groups(ctx, tag, groups, seed):
    rng = random.Random(seed)
    chunks = [groups[i : i + 12] for i in range(0, len(groups), 12)]
    tasks = [(tag, ch, rng.randrange(0, 700)) for ch in chunks]
    if _POOL is None:
        results = [_work(t) for t in tasks]
    else:
        results = _POOL.map(_work, tasks, chunksize=1)
    kinds = {}
    for tot, bad, distinct, ks in results:
        ctx.traces(tot["built"])
        ctx.evaluated(tot["pairs"] + tot["xpairs"] + tot["expr_pairs"])
        ctx.count("pairs_base_vs_neighbour", tot["pairs"])
        ctx.count("pairs_neighbour_vs_neighbour", tot["xpairs"])
        ctx.count("pairs_expression_signature", tot["expr_pairs"])
        ctx.count("programs_built:" + tag, tot["built"])
        for k in distinct:
            ctx.distinct(k)
        for k, v in ks.items():
            kinds[k] = kinds.get(k, 0) + v
        for m in bad:
            report(ctx, m)
    return kinds


_REPORTED = {}


def report(ctx, m):
    fp = m["fingerprint"]
    _REPORTED[fp] = _REPORTED.get(fp, 0) + 1
    ctx.count("failing_pairs:" + fp)
    if _REPORTED[fp] > 2 or m.get("count_only"):
        return  # one defect class fails on many programs: two replay files per fingerprint
    ctx.violation(fp, m["what"] + " -- " + describe(m["replay"]), m["replay"])


# ---- pretty printing ---------------------------------------------------------------------------


def fmt_term(t, p):
    op, a, s = t
    x = [fmt_term(c, p) for c in s]
    if op == "int":
        return str(a[0])
    if op == "flt":
        return repr(floats()[a[0]])
    if op == "coef":
        return f"w{a[0]}"
    if op == "arg":
        return f"v{a[0]}" + (f"^{a[1] - 1}" if a[1] else "") + f"@V{a[2]}"
    if op == "cst":
        return f"c{a[0]}"
    if op == "geo":
        return {1: "CellVolume", 2: "Circumradius", 3: "FacetArea", 10: "x", 11: "n"}[a[0]] + f"(m{a[1]})"
    if op in ("sum", "prod", "div", "pow"):
        return "(" + x[0] + {"sum": " + ", "prod": " * ", "div": " / ", "pow": " ** "}[op] + x[1] + ")"
    if op == "idx":
        return x[0] + "[" + ",".join(str(i) if i >= 0 else "ijklmnopqrstuvwxyzabcdefgh"[(-i - 1) % 26] for i in a) + "]"
    if op == "cond":
        return f"conditional({CMP[a[0]]}({x[0]}, {x[1]}), {x[2]}, {x[3]})"
    if op == "res":
        return x[0] + "('" + "+-"[a[0] - 1] + "')"
    if op == "dx":
        return f"{x[0]}.dx({a[0]})"
    if op == "var":
        return f"variable#{a[0]}({x[0]})"
    if op == "ext":
        n = a[1]
        return f"ExternalOperator({', '.join(x[:n])}; V{a[0]}, derivatives={tuple(a[2:2 + n])}" + (f", slots=(v*, {', '.join(x[n:])})" if x[n:] else "") + ")"
    if op == "itp":
        return f"Interpolate({x[0]}, V{a[0]})"
    return f"{op}({', '.join(x)})"


def fmt_md(t):
    op, a, s = t
    if op == "dict":
        return "{" + ", ".join(f"{MD_KEYS[k]!r}: {fmt_md(v)}" for k, v in zip(a, s)) + "}"
    if op == "mlist":
        return "[" + ", ".join(fmt_md(v) for v in s) + "]"
    if op == "marr":
        return f"array<{arrays()[a[0]][0]}>"
    return repr({"mint": lambda: a[0], "mflt": lambda: floats()[a[0]], "mstr": lambda: MD_STRS[a[0]], "mbool": lambda: bool(a[0]), "mnone": lambda: None}[op]())


def fmt_prog(p):
    out = []
    for itype, sid, md, d, g, xm in p["itgs"]:
        sub = "" if sid == [0] else (str(sid[0]) if len(sid) == 1 else str(tuple(sid)))
        ix = f", intersect_measures=({', '.join(f'{ITYPES[t]}(m{x})' for t, x in xm)},)" if xm else ""
        out.append(f"{fmt_term(g, p)}*{ITYPES[itype]}({sub}{', ' if sub else ''}domain=m{d}, metadata={fmt_md(md)}{ix})")
    return " + ".join(out)


def table_diff(a, b):
    d = []
    for name in ("doms", "elems", "coefs", "csts"):
        for i, (x, y) in enumerate(zip(a[name], b[name])):
            if x != y:
                d.append(f"{name}[{i + 1}]: {x} -> {y}")
    return "; ".join(d)


def describe(r):
    if r.get("part") != "pair":
        return r.get("label", "")
    td = table_diff(r["a"], r["b"])
    return f"A = {fmt_prog(r['a'])}   B = {fmt_prog(r['b'])}" + (f"   tables: {td}" if td else "")


# --------------------------------------------------------------------------------------------
# pairs outside the model's alphabet, and pairs that are recorded but not judged
# --------------------------------------------------------------------------------------------


def _env(salt):
    import ufl
    from vf.elements import LagrangeElement

    base = 100000 + 1000 * (salt % 800)
    cell = ufl.triangle
    m = ufl.Mesh(LagrangeElement(cell, 1, (2,)), ufl_id=base + 1)
    S = ufl.FunctionSpace(m, LagrangeElement(cell, 1))
    W = ufl.FunctionSpace(m, LagrangeElement(cell, 1, (2,)))
    T = ufl.FunctionSpace(m, LagrangeElement(cell, 1, (2, 2)))
    return dict(ufl=ufl, base=base, cell=cell, m=m, S=S, W=W, T=T, f=ufl.Coefficient(S, count=base + 1), g=ufl.Coefficient(S, count=base + 2), u=ufl.Coefficient(W, count=base + 3), A=ufl.Coefficient(T, count=base + 4), v=ufl.TestFunction(S), i=ufl.Index(count=base + 1), j=ufl.Index(count=base + 2))


def _x_zero_free_index(e, variant):
    # conditional(f < 2, 0*u[i], u[i]) * u[i]: the true branch is a Zero carrying the free index i
    u, f, i, ufl = e["u"], e["f"], e["i"], e["ufl"]
    return ufl.conditional(ufl.lt(f, 2), 0 * u[i], u[i]) * u[i] * ufl.dx


def _x_mixed(e, variant):
    from vf.elements import LagrangeElement, MixedElement

    ufl, cell = e["ufl"], e["cell"]
    subs = [LagrangeElement(cell, 1), LagrangeElement(cell, 2)]
    if variant == "b":
        subs.reverse()
    w = ufl.Coefficient(ufl.FunctionSpace(e["m"], MixedElement(subs)), count=e["base"] + 9)
    return w[0] * w[1] * ufl.dx


def _x_mixed_nested(e, variant):
    from vf.elements import LagrangeElement, MixedElement

    ufl, cell = e["ufl"], e["cell"]
    P1, P2 = LagrangeElement(cell, 1), LagrangeElement(cell, 2)
    el = MixedElement([P1, MixedElement([P1, P2])]) if variant == "a" else MixedElement([MixedElement([P1, P1]), P2])
    w = ufl.Coefficient(ufl.FunctionSpace(e["m"], el), count=e["base"] + 9)
    return w[0] * w[2] * ufl.dx


def _x_gdim_cell(e, variant):
    from vf.elements import LagrangeElement

    ufl = e["ufl"]
    cell = ufl.triangle if variant == "a" else ufl.tetrahedron
    m = ufl.Mesh(LagrangeElement(cell, 1, (3,)), ufl_id=e["base"] + 5)
    f = ufl.Coefficient(ufl.FunctionSpace(m, LagrangeElement(cell, 1)), count=e["base"] + 1)
    return f * ufl.dx


def _x_md(values):
    def build(e, variant):
        ufl = e["ufl"]
        return e["f"] * e["v"] * ufl.Measure("dx", domain=e["m"], metadata={"q": values[variant]()})

    return build


def _x_same_key_order(e, variant):
    ufl = e["ufl"]
    a = e["f"] * ufl.Measure("dx", domain=e["m"], metadata={"quadrature_degree": 1})
    b = e["g"] * ufl.Measure("dx", domain=e["m"], metadata={"quadrature_degree": 2})
    return a + b if variant == "a" else b + a


class _Data:
    def __init__(self, i):
        self.i = i

    def ufl_id(self):
        return self.i


def _x_subdomain_data(e, variant):
    ufl = e["ufl"]
    sd = {"a": _Data(1), "b": _Data(2)}[variant]
    return e["f"] * ufl.Measure("dx", domain=e["m"], subdomain_id=1, subdomain_data=sd)


def _x_subdomain_data_none(e, variant):
    ufl = e["ufl"]
    sd = {"a": None, "b": _Data(2)}[variant]
    return e["f"] * ufl.Measure("dx", domain=e["m"], subdomain_id=1, subdomain_data=sd)


def _x_space_label(e, variant):
    from vf.elements import LagrangeElement

    ufl = e["ufl"]
    V = ufl.FunctionSpace(e["m"], LagrangeElement(e["cell"], 1), label={"a": "left", "b": "right"}[variant])
    return ufl.Coefficient(V, count=e["base"] + 9) * ufl.dx


def _x_index_tie(e, variant):
    ufl, A, u, i, j = e["ufl"], e["A"], e["u"], e["i"], e["j"]
    return A[i, j] * ((u[i] * u[j]) if variant == "a" else (u[j] * u[i])) * ufl.dx


def _x_index_order_reversed(e, variant):
    # A[i,j]*B[j,i] with the counts of i and j exchanged: not an order preserving renaming
    ufl, A, i, j = e["ufl"], e["A"], e["i"], e["j"]
    B = ufl.Coefficient(e["T"], count=e["base"] + 5)
    if variant == "b":
        i, j = j, i
    return A[i, j] * B[j, i] * ufl.dx


def _x_constant_digits(e, variant):
    # two constants whose counts straddle a digit boundary: ordered by repr string (C12)
    ufl = e["ufl"]
    k = {"a": (8, 9), "b": (9, 10)}[variant]
    c1, c2 = ufl.Constant(e["m"], count=k[0]), ufl.Constant(e["m"], count=k[1])
    return c1 * c2 * (c2 + 2) * ufl.dx(domain=e["m"])


def _x_mesh_id_permuted(e, variant):
    from vf.elements import LagrangeElement

    ufl, cell = e["ufl"], e["cell"]
    ids = {"a": (1, 2), "b": (2, 1)}[variant]
    m1 = ufl.Mesh(LagrangeElement(cell, 1, (2,)), ufl_id=e["base"] + 10 + ids[0])
    m2 = ufl.Mesh(LagrangeElement(cell, 2, (2,)), ufl_id=e["base"] + 10 + ids[1])
    return ufl.CellVolume(m1) * ufl.dx(domain=m1) + ufl.CellVolume(m2) * ufl.dx(domain=m2)


def _x_lt_subclass_operand(e, variant):
    # ufl.lt(f, g) is `f < g`; Python calls g.__gt__(f) first when type(g) is a proper subclass of
    # type(f): with g an instance of a user subclass of Coefficient the expression is GT(g, f), not
    # LT(f, g) -- the same condition, another expression (and signature) than with a plain g
    ufl = e["ufl"]
    g = counted_classes()["coef"][0 if variant == "a" else 1](e["S"], count=e["base"] + 2)
    return ufl.conditional(ufl.lt(e["f"], g), e["f"], 0.5) * ufl.dx


def _x_interp_operand(e, variant):
    from vf.elements import LagrangeElement

    ufl = e["ufl"]
    V2 = ufl.FunctionSpace(e["m"], LagrangeElement(e["cell"], 2))
    from ufl.core.interpolate import Interpolate

    return Interpolate(e["f"] if variant == "a" else e["g"] * e["f"], V2) * e["v"] * ufl.dx


def extras():
    import numpy as np

    # (name, builder, relation, fingerprint tail).  relation: "equal" (a built twice), "differ"
    # (variants a and b), "unjudged" (a vs b recorded only)
    return [
        ("zero-with-free-index", _x_zero_free_index, "equal", "zero-free-index"),
        ("mixed-element-sub-element-order", _x_mixed, "differ", "mixed-element-order"),
        ("mixed-element-nesting", _x_mixed_nested, "differ", "mixed-element-nesting"),
        ("triangle-vs-tetrahedron-in-3d", _x_gdim_cell, "differ", "cell-dimension"),
        ("interpolate-operand", _x_interp_operand, "differ", "interp-operand"),
        ("metadata-dtype-int-vs-float-array", _x_md({"a": lambda: np.array([1, 2]), "b": lambda: np.array([1.0, 2.0])}), "differ", "md-array-dtype"),
        ("metadata-array-vs-list", _x_md({"a": lambda: np.array([1, 2]), "b": lambda: [1, 2]}), "differ", "md-array-vs-list"),
        ("metadata-int-vs-float", _x_md({"a": lambda: 2, "b": lambda: 2.0}), "differ", "md-int-vs-float"),
        ("metadata-nested-dict-key-order", _x_md({"a": lambda: {"x": 1, "y": {"p": 1, "q": 2}}, "b": lambda: {"y": {"q": 2, "p": 1}, "x": 1}}), "same", "md-nested-key-order"),
        ("metadata-equal-big-array-copies", _x_md({"a": lambda: np.arange(3000) / 3.0, "b": lambda: np.arange(3000) / 3.0}), "same", "md-array-copy"),
        ("metadata-int-vs-str", _x_md({"a": lambda: 2, "b": lambda: "2"}), "unjudged", "md-int-vs-str"),
        ("metadata-bool-vs-str", _x_md({"a": lambda: True, "b": lambda: "True"}), "unjudged", "md-bool-vs-str"),
        ("metadata-none-vs-str", _x_md({"a": lambda: None, "b": lambda: "None"}), "unjudged", "md-none-vs-str"),
        ("metadata-list-vs-tuple", _x_md({"a": lambda: [1, 2], "b": lambda: (1, 2)}), "unjudged", "md-list-vs-tuple"),
        ("metadata-int32-vs-int64-array", _x_md({"a": lambda: np.array([1, 2], dtype=np.int32), "b": lambda: np.array([1, 2], dtype=np.int64)}), "unjudged", "md-array-itemsize"),
        ("metadata-array-vs-its-str", _x_md({"a": lambda: np.array([1, 2]), "b": lambda: "[1 2]"}), "unjudged", "md-array-vs-str"),
        ("integrals-of-one-key-in-other-order", _x_same_key_order, "unjudged", "same-key-integral-order"),
        ("subdomain-data-identity", _x_subdomain_data, "unjudged", "subdomain-data"),
        ("subdomain-data-none-vs-object", _x_subdomain_data_none, "unjudged", "subdomain-data-none"),
        ("function-space-label", _x_space_label, "unjudged", "function-space-label"),
        ("product-order-decided-by-free-index-names-only", _x_index_tie, "unjudged", "commutative-order-index-tie"),
        ("index-counts-in-reversed-order(C12)", _x_index_order_reversed, "unjudged", "index-count-order-reversed"),
        ("constant-counts-across-digit-boundary(C12)", _x_constant_digits, "unjudged", "constant-count-digit-boundary"),
        ("mesh-ids-permuted(C12)", _x_mesh_id_permuted, "unjudged", "mesh-id-permutation"),
        ("lt-with-subclass-operand", _x_lt_subclass_operand, "unjudged", "lt-reflected-for-subclass-operand"),
    ]


def run_extra(name, build, relation, salt):
    """-> (sig a, sig a rebuilt, sig b)"""
    sa = build(_env(salt), "a").signature()
    sa2 = build(_env(salt + 13), "a").signature()
    sb = build(_env(salt + 29), "b").signature() if relation != "equal" else None
    return sa, sa2, sb


def part_extras(ctx):
    for name, build, relation, tail in extras():
        sa, sa2, sb = run_extra(name, build, relation, ctx.seed % 500)
        ctx.traces(2 if sb is None else 3)
        ctx.evaluated(1 if sb is None else 2)
        ctx.distinct("extra|" + name)
        doc = {"part": "extra", "name": name, "label": name}
        if relation in ("equal", "differ", "same") and sa != sa2:
            ctx.violation(f"C11:unstable:{tail}", f"{name}: the same form built twice (fresh objects, other counts) has two signatures", doc)
            continue
        if relation == "differ" and sa == sb:
            ctx.violation(f"C11:collision:{tail}", f"{name}: different forms share a signature", doc)
        elif relation == "same" and sa != sb:
            ctx.violation(f"C11:unstable:{tail}", f"{name}: equal forms have different signatures", doc)
        elif relation == "unjudged":
            ctx.count(f"unjudged:{tail}:" + ("same-signature" if sa == sb else "different-signature") + ("" if sa == sa2 else ":unstable-on-rebuild"))
    ctx.sample({"extra pair (recorded, not judged)": "metadata {'q': 2} vs {'q': '2'}", "why": "canonicalize_metadata applies str() to both"})


# --------------------------------------------------------------------------------------------
# sampled larger programs (seeds): composed from the universes' integrands by the harness
# --------------------------------------------------------------------------------------------

DOMS0 = [[1, 2, 1, 4], [1, 2, 1, 7]]
ELEMS0 = [[1, 1, 0, 1, 1, 0, 1], [1, 2, 0, 1, 1, 0, 1], [1, 1, 1, 1, 1, 0, 1], [1, 1, 2, 1, 1, 0, 1], [1, 1, 0, 1, 1, 0, 2], [1, 2, 1, 1, 1, 0, 1]]
COEFS0 = [[3, 1, 0], [5, 1, 1], [6, 2, 0], [8, 3, 1], [9, 3, 2], [11, 4, 0], [12, 4, 0], [14, 5, 0]]
CSTS0 = [[2, 0, 1, 0], [4, 0, 1, 1], [6, 1, 1, 0]]


def _N(op, a=(), s=()):
    return {"op": op, "a": list(a), "s": list(s)}


def random_programs(seed, n):
    """Seeded well-formed programs with 1-3 integrals and integrands of depth <= 4 (TLC re-checks
    WellFormed and drops nothing silently: the number of base states is compared)."""
    rng = random.Random(seed)
    F = lambda c: _N("coef", [c])  # noqa: E731
    idx = lambda t, ix: _N("idx", ix, [t])  # noqa: E731
    B = lambda op, x, y: _N(op, [], [x, y])  # noqa: E731

    def scalar_leaf():
        return rng.choice(
            [
                lambda: F(rng.choice([1, 2, 3])),
                lambda: F(8),
                lambda: idx(F(rng.choice([4, 5])), [rng.choice([0, 1])]),
                lambda: idx(F(rng.choice([6, 7])), [rng.choice([0, 1]), rng.choice([0, 1])]),
                lambda: _N("cst", [rng.choice([1, 2])]),
                lambda: idx(_N("cst", [3]), [rng.choice([0, 1])]),
                lambda: _N("geo", [rng.choice([1, 2, 3]), rng.choice([1, 2])]),
                lambda: idx(_N("geo", [10, 1]), [rng.choice([0, 1])]),
                lambda: _N("int", [rng.choice([2, 3, 7])]),
                lambda: _N("flt", [rng.choice([1, 2, 3, 4, 5])]),
            ]
        )()

    names = [0]

    def fresh():
        names[0] -= 1
        return names[0]

    def closed():
        i, j = fresh(), fresh()
        return rng.choice(
            [
                lambda: B("prod", idx(F(4), [i]), idx(F(5), [i])),
                lambda: idx(F(rng.choice([6, 7])), [i, i]),
                lambda: B("prod", idx(F(6), [i, j]), idx(F(7), rng.choice([[i, j], [j, i]]))),
                lambda: B("prod", B("prod", idx(F(6), [i, j]), idx(F(4), [i])), idx(F(5), [j])),
                lambda: B("prod", idx(_N("grad", [], [F(4)]), [i, j]), idx(F(6), [i, j])),
                lambda: B("inner", F(4), F(5)),
                lambda: B("inner", _N("grad", [], [F(1)]), _N("grad", [], [F(3)])),
                lambda: _N("dx", [rng.choice([0, 1])], [F(rng.choice([1, 2, 3]))]),
            ]
        )()

    def is_lit(t):
        return t["op"] in ("int", "flt")

    def term(depth):
        if depth == 0:
            return scalar_leaf() if rng.random() < 0.7 else closed()
        r = rng.random()
        if r < 0.55:
            op = rng.choice(["sum", "prod", "prod", "div", "pow"])
            for _ in range(20):
                x, y = term(depth - 1), term(rng.randrange(depth))
                if is_lit(x) and is_lit(y):
                    continue
                if op in ("div", "pow") and x == y:
                    continue
                return B(op, x, y)
            return closed()
        if r < 0.75:
            for _ in range(20):
                x = term(depth - 1)
                if not is_lit(x):
                    # abs(abs(x)) and abs(inner(a, b)) are simplified by the constructor (NodeOK in the spec)
                    return _N(rng.choice(["sin", "cos", "exp"] if x["op"] in ("abs", "inner") else ["sin", "cos", "exp", "abs"]), [], [x])
            return closed()
        if r < 0.85:
            for _ in range(20):
                l, rr, t, f = term(0), term(0), term(depth - 1), term(depth - 1)
                if l != rr and t != f:
                    return _N("cond", [rng.choice([1, 2, 3, 4, 5, 6])], [l, rr, t, f])
            return closed()
        if r < 0.93:
            return _N("ext", [rng.choice([1, 2]), 1, rng.choice([0, 1])], [term(depth - 1)])
        return term(depth - 1)

    def md():
        return rng.choice(
            [
                lambda: _N("dict"),
                lambda: _N("dict", [1], [_N("mint", [rng.choice([1, 2, 3])])]),
                lambda: _N("dict", [1, 2], [_N("mint", [2]), _N("mstr", [rng.choice([1, 2])])]),
                lambda: _N("dict", [2, 6, 5], [_N("mstr", [3]), _N("marr", [rng.choice([1, 2])]), _N("marr", [rng.choice([5, 6, 8])])]),
                lambda: _N("dict", [4], [_N("dict", [1, 3], [_N("mint", [1]), _N("mflt", [rng.choice([1, 2, 3])])])]),
            ]
        )()

    out, seen = [], set()
    while len(out) < n:
        names[0] = 0
        itgs = []
        for _ in range(rng.choice([1, 1, 2, 2, 3])):
            g = term(rng.choice([1, 2, 2, 3]))
            if rng.random() < 0.5:
                g = B("prod", g, _N("arg", [0, 0, 1]))
            dom = rng.choice([1, 1, 2])
            xm = [[rng.choice([1, 2, 3]), 3 - dom]] if rng.random() < 0.25 else []  # a multi-domain integral
            itgs.append({"itype": rng.choice([1, 1, 2, 4]), "sid": rng.choice([[0], [1], [2], [1, 2]]), "md": md(), "dom": dom, "g": g, "xm": xm})
        p = {"doms": DOMS0, "elems": ELEMS0, "coefs": COEFS0, "csts": CSTS0, "itgs": itgs}
        k = json.dumps(p, sort_keys=True)
        if k not in seen:
            seen.add(k)
            out.append(p)
    return out


# --------------------------------------------------------------------------------------------
# the check
# --------------------------------------------------------------------------------------------

# every kind of site the property names must have been exercised (vacuity guard)
REQUIRED_KINDS = (
    "literal-int", "literal-float", "literal-float-ulp", "literal-int-to-float", "fixed-index-value", "index-pattern",
    "index-pattern-trace", "operator-swap", "operator-swap-unary", "operand-order", "cond-operator", "cond-operand-order",
    "cond-branch-order", "restriction-side", "derivative-direction", "coef-identity", "coef-other-space", "coef-space",
    "const-identity", "const-shape", "const-domain", "arg-number", "arg-part", "arg-space", "geo-kind", "geo-domain",
    "element-degree", "element-family", "element-shape", "element-pullback", "element-sobolev", "element-symmetry",
    "space-domain", "domain-cell", "domain-gdim", "domain-coordinate-degree", "integral-type", "subdomain-id",
    "subdomain-id-kind", "integral-domain", "integral-dropped", "integral-duplicated", "md-int", "md-float", "md-float-ulp",
    "md-str", "md-bool", "md-array", "md-key-rename", "md-key-drop", "md-key-add", "md-list-length", "md-list-order",
    "md-none-to-int", "extop-derivatives", "extop-space", "extop-argslot-dropped", "extop-argslot:coef-identity",
    "extop-argslot:arg-number", "extop-operand:coef-identity", "interp-space", "interp-operand:coef-identity",
    "xmeasure-type", "xmeasure-domain", "xmeasure-dropped", "xmeasure-added",
    "rename-free-indices", "rename-labels", "rename-coefficient-counts", "rename-constant-counts", "rename-mesh-ids",
    "rename-coefficient-classes-uniform", "rename-coefficient-classes-shift", "rename-constant-classes",
    "swap-commutative-operands", "reorder-integrals", "md-key-order", "subdomain-tuple-order", "intersect-measure-order",
)  # fmt: skip


def run(ctx, args):
    if args.selftest:
        return selftest(ctx)
    quick = ctx.tier == "quick"
    ctx.rule = (
        "TLC enumerates, for every well-formed program of nine bounded universes (scalar algebra, index notation, conditionals, "
        "derivatives/restrictions/variables, base form operators, metadata, measures with 1-2 integrals, elements/domains, multi-domain "
        "integrals with intersect measures over three meshes; coefficients and constants are instances of ufl's classes and of user "
        "subclasses of them, mixed within one form)"
        + ("" if quick else " and for a seeded sample of larger composed programs (1-3 integrals, depth <= 4)")
        + ", every single-site mutation (one state per site and new value), every renaming of ignorable numbering, and every renaming of "
        "every mutant; every state is built as a real ufl form through the public API with fresh objects and other counts, and within "
        "each neighbourhood form signatures (and expression signatures where the measures coincide) must partition the members exactly "
        "as Canon does.  distinct non-trivial = distinct (universe, kind, mutated/renamed program), the base programs themselves excluded"
    )
    ctx.cov["exhaustive"] = True
    ctx.assume("Canon (spec/Signature.tla header) is the meaning: it ignores only counts/ufl_ids up to order, free-index names, the order of integrals with different keys, tuple-subdomain-id order, sortable sum/product operand order, metadata key order, the Python class (ufl's or a user subclass) of a coefficient / constant, the order in which intersect measures are given")
    ctx.assume("conditions are built with the classes LT, GT, ... (ufl.lt(l, r) = l < r is evaluated by Python as GT(r, l) when type(r) is a proper subclass of type(l): recorded, not judged)")
    ctx.assume("multi-domain integrals: the signature is computed on the form as written (no check that the integral types on the other meshes are geometrically consistent); products of geometric quantities of two different meshes are not generated (their operand order follows the raw mesh ids: C12)")
    ctx.assume("all counts / ufl_ids of one build have the same number of digits (repr-string ordering across 9->10 is C12's subject); renamings are order preserving")
    ctx.assume("element data is what vf.elements.FiniteElement puts into repr (family, cell, degree, reference shape, pullback, Sobolev space, sub-elements); embedded sub-degree is not varied")
    ctx.assume("programs avoid constructor simplifications (no literal 0/1, no literal-literal operands, no a/a, no conditional with equal branches, no derivative of constants, no abs of abs / of inner) so that Canon-different programs have different meaning")
    ctx.assume("restricted integrands only in interior-facet integrals; other integrands in cell / exterior-facet / vertex integrals")
    start_pool()
    t0 = time.time()
    try:
        if quick:
            # one JVM: the union of the eight universes at level 1 (renamings of mutants: thorough tier
            # and the two small universes below)
            jobs = [Job("all", 1, False), Job("index", 1, True, tag="index+renamed-mutants"), Job("cond", 1, True, tag="cond+renamed-mutants")]
        else:
            jobs = [Job(u, 2, True) for u in UNIVERSES]
            seeds = random_programs(ctx.seed, 32)
            jobs += [Job("seeds", 2, True, seeds=seeds[i : i + 8], tag=f"seeds{i // 8}") for i in range(0, len(seeds), 8)]
            order = ["alg", "measure", "seeds"]
            jobs.sort(key=lambda j: order.index(j.univ) if j.univ in order else 9)
        run_jobs(ctx, jobs)
        print(f"  TLC: {len(jobs)} runs, {sum(j.res.distinct for j in jobs)} states, model invariants hold, {time.time() - t0:.1f}s", flush=True)
        kinds = {}
        for j in jobs:
            groups = raw_neighbourhoods(j)
            if j.seeds is not None and len(groups) != len(j.seeds):
                raise MachineryError(f"Signature[{j.tag}]: {len(j.seeds)} seed programs but {len(groups)} base states (a seed is not well-formed)")
            ks = replay_groups(ctx, j.tag, groups, ctx.seed + len(groups))
            for k, v in ks.items():
                kinds[k] = kinds.get(k, 0) + v
            mid = parse_group(groups[len(groups) // 2], j.tag)
            if len(mid) > 1:
                ctx.sample({"universe": j.tag, "base": fmt_prog(mid[0][2]), "neighbour": fmt_prog(mid[len(mid) // 2][2]), "kind": mid[len(mid) // 2][1], "same canonical class": json.dumps(mid[0][3]) == json.dumps(mid[len(mid) // 2][3])})
            j.res.stdout, j.res.prints = "", []
        missing = [k for k in REQUIRED_KINDS if not kinds.get(k)]
        if missing:
            raise MachineryError(f"kinds of sites never exercised: {missing}")
        ctx.cov["kinds"] = {k: kinds[k] for k in sorted(kinds)}
        print(f"  replayed {ctx.cov['traces_validated_against_impl']} programs, {ctx.cov['evaluations']} pair comparisons, {len(kinds)} kinds, {time.time() - t0:.1f}s", flush=True)
    finally:
        stop_pool()
    part_extras(ctx)


# --------------------------------------------------------------------------------------------
# replay of a recorded violation
# --------------------------------------------------------------------------------------------


def replay(ctx, doc):
    r = doc["replay"]
    if r.get("part") == "extra":
        ex = {e[0]: e for e in extras()}[r["name"]]
        sa, sa2, sb = run_extra(ex[0], ex[1], ex[2], 0)
        print("extra pair:", ex[0], "relation:", ex[2])
        print("  a        :", sa[:24])
        print("  a rebuilt:", sa2[:24])
        print("  b        :", None if sb is None else sb[:24])
        still = (sa != sa2) or (ex[2] == "differ" and sa == sb) or (ex[2] == "same" and sa != sb)
        if still:
            ctx.violation(doc.get("fingerprint", "C11:replay"), doc.get("what", "replayed case still fails"), r)
        return
    sa, ea = signatures(r["a"], r["salts"][0])
    sb, eb = signatures(r["b"], r["salts"][1])
    print("A:", fmt_prog(r["a"]))
    print("B:", fmt_prog(r["b"]))
    td = table_diff(r["a"], r["b"])
    if td:
        print("tables:", td)
    print("kinds:", r.get("kinds"))
    print("expected equal:", r["expect_equal"])
    print("form signature A:", sa[:24], " B:", sb[:24], " equal:", sa == sb)
    print("expression signatures equal:", ea == eb)
    expr_only = doc.get("fingerprint", "").endswith(":expression-signature")
    same = (ea == eb) if expr_only else (sa == sb)
    if r["expect_equal"] is not None and same != r["expect_equal"]:
        ctx.violation(doc.get("fingerprint", "C11:replay"), doc.get("what", "replayed case still fails"), r)


# --------------------------------------------------------------------------------------------
# selftest
# --------------------------------------------------------------------------------------------


def selftest(ctx):
    """Corrupted predictions and in-process mutants of the real signature code must be rejected."""
    jobs = [Job("deriv", 1, False), Job("md", 1, False), Job("measure", 1, False), Job("cond", 1, False), Job("xm", 1, False)]
    run_jobs(ctx, jobs)
    groups = {j.univ: neighbourhoods(j) for j in jobs}
    allg = [g for u in groups for g in groups[u]]

    def fps(gs, **kw):
        out = {}
        for g in gs:
            for m in check_group(g, 17, **kw)[1]:
                out[m["fingerprint"]] = out.get(m["fingerprint"], 0) + 1
        return out

    clean = fps(allg)
    rejected = {}
    # 1. corrupted predictions
    def flag_equal(keys, sigs):  # a semantic mutant is declared equal to the base
        if len(keys) > 1:
            i = next((i for i in range(1, len(keys)) if keys[i] != keys[0]), None)
            if i is not None:
                keys[i] = keys[0]

    def flag_differ(keys, sigs):  # a renamed program is declared different
        i = next((i for i in range(1, len(keys)) if keys[i] == keys[0]), None)
        if i is not None:
            keys[i] = keys[i] + "x"

    got = fps(allg, corrupt=flag_equal)
    rejected["expected-flag-equal"] = {k: v for k, v in got.items() if k.startswith("C11:unstable") and v > clean.get(k, 0)}
    got = fps(allg, corrupt=flag_differ)
    rejected["expected-flag-differ"] = {k: v for k, v in got.items() if k.startswith("C11:collision") and v > clean.get(k, 0)}
    # 2. mutants of the real code
    import ufl.algorithms.signature as sigmod
    from ufl.argument import Argument
    from ufl.classes import Coefficient, IntValue

    def mutant(name, patch, unpatch, gs, want):
        patch()
        try:
            got = fps(gs)
        finally:
            unpatch()
        new = {k: v for k, v in got.items() if v > clean.get(k, 0)}
        rejected[name] = {k: v for k, v in new.items() if any(k.startswith(w) for w in want)}

    orig_arg = Argument._ufl_signature_data_
    mutant(
        "argument-signature-drops-part",
        lambda: setattr(Argument, "_ufl_signature_data_", lambda self, r: ("Argument", self._number, self._ufl_function_space._ufl_signature_data_(r))),
        lambda: setattr(Argument, "_ufl_signature_data_", orig_arg),
        groups["deriv"],
        ["C11:collision:arg-part"],
    )
    orig_coef = Coefficient._ufl_signature_data_
    mutant(
        "coefficient-signature-drops-function-space",
        lambda: setattr(Coefficient, "_ufl_signature_data_", lambda self, r: ("Coefficient", r[self])),
        lambda: setattr(Coefficient, "_ufl_signature_data_", orig_coef),
        groups["deriv"],
        ["C11:collision:element-degree", "C11:collision:coef-space"],
    )
    mutant(
        "coefficient-signature-uses-raw-count",
        lambda: setattr(Coefficient, "_ufl_signature_data_", lambda self, r: ("Coefficient", self._count, self._ufl_function_space._ufl_signature_data_(r))),
        lambda: setattr(Coefficient, "_ufl_signature_data_", orig_coef),
        groups["deriv"],
        ["C11:unstable:rebuild", "C11:unstable:rename-coefficient-counts"],
    )
    orig_canon = sigmod.canonicalize_metadata
    mutant(
        "metadata-canonicaliser-str-of-array",
        lambda: setattr(sigmod, "canonicalize_metadata", lambda m: tuple(sorted((k, str(v)) for k, v in (m or {}).items()))),
        lambda: setattr(sigmod, "canonicalize_metadata", orig_canon),
        groups["md"],
        ["C11:collision:md-array", "C11:collision:cross:md-array"],
    )
    mutant(
        "metadata-ignored",
        lambda: setattr(sigmod, "canonicalize_metadata", lambda m: ()),
        lambda: setattr(sigmod, "canonicalize_metadata", orig_canon),
        groups["md"],
        ["C11:collision:md-int", "C11:collision:md-key-rename"],
    )
    from ufl.integral import Integral

    orig_sid = Integral.subdomain_id
    orig_cfs = sigmod.compute_form_signature

    def cfs_without_sid(form, renumbering):
        Integral.subdomain_id = lambda self: 0
        try:
            return orig_cfs(form, renumbering)
        finally:
            Integral.subdomain_id = orig_sid

    import ufl.form as formmod  # noqa: F401

    mutant(
        "subdomain-id-dropped-from-integral-hashdata",
        lambda: setattr(sigmod, "compute_form_signature", cfs_without_sid),
        lambda: setattr(sigmod, "compute_form_signature", orig_cfs),
        groups["measure"],
        ["C11:collision:subdomain-id"],
    )
    orig_int = IntValue._ufl_signature_data_
    mutant(
        "int-literal-signature-constant",
        lambda: setattr(IntValue, "_ufl_signature_data_", lambda self, r: "IntValue"),
        lambda: setattr(IntValue, "_ufl_signature_data_", orig_int),
        groups["cond"],
        ["C11:collision:literal-int"],
    )
    from collections import defaultdict

    from ufl.form import Form
    from ufl.utils.sorting import sorted_by_count

    orig_tn = Form.terminal_numbering

    def tn_by_python_class(self):
        from ufl.algorithms.analysis import extract_type
        from ufl.utils.counted import Counted

        by = defaultdict(set)
        for e in extract_type(self, Counted):
            by[type(e)].add(e)
        return {e: i for es in by.values() for i, e in enumerate(sorted_by_count(es))}

    mutant(
        "terminal-numbering-per-python-class",
        lambda: setattr(Form, "terminal_numbering", tn_by_python_class),
        lambda: setattr(Form, "terminal_numbering", orig_tn),
        groups["cond"],
        ["C11:collision:coef-identity", "C11:unstable:rename-coefficient-classes"],
    )
    orig_extra = Integral.extra_domain_integral_type_map

    class _AnyMesh:
        """Stands for every other mesh in the hash data: which mesh an intersect measure refers to is lost."""

        def _ufl_signature_data_(self, renumbering):
            return "Mesh"

    def cfs_without_extra_meshes(form, renumbering):
        Integral.extra_domain_integral_type_map = lambda self: {_AnyMesh(): t for t in orig_extra(self).values()}
        try:
            return orig_cfs(form, renumbering)
        finally:
            Integral.extra_domain_integral_type_map = orig_extra

    mutant(
        "intersect-measure-mesh-dropped-from-integral-hashdata",
        lambda: setattr(sigmod, "compute_form_signature", cfs_without_extra_meshes),
        lambda: setattr(sigmod, "compute_form_signature", orig_cfs),
        groups["xm"],
        ["C11:collision:xmeasure-domain"],
    )
    ctx.traces(sum(len(g) for g in allg))
    ctx.evaluated(len(rejected))
    ctx.rule = "selftest: corrupted canonical classes and in-process mutants of the signature code must be rejected"
    ctx.sample({"selftest": rejected, "clean": clean})
    for k, v in rejected.items():
        print(f"  selftest {k}: {'rejected ' + json.dumps(v) if v else 'ACCEPTED'}")
        ctx.distinct("selftest|" + k)
    missed = [k for k, v in rejected.items() if not v]
    if missed:
        raise MachineryError(f"selftest: corruptions not rejected: {missed}")


def main(argv=None):
    main_wrapper("C11", run, argv)
