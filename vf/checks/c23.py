"""C23 — Complex and real mode node handling is sound.

Model: spec/CplxTypes.tla EXTENDS the UFL language machine (UFLBuild) with the two mode passes of
compute_form_data as final, verdict-carrying actions:

  cmp_check       -> ufl.algorithms.comparison_checker.do_comparison_check      (complex mode)
  remove_complex  -> ufl.algorithms.remove_complex_nodes.remove_complex_nodes   (real mode)

TLC checks on every reachable program that the type lattice AS CODED is sound with respect to the
exact complex denotation (typed real => real valued in every environment; accepted => every ordered
operand real valued; wrapping in Real(.) and removing conj/real change no value).

Binding: every dumped program is built through ufl's public API and handed to the real pass.
What is compared, per program:

  (i)   accept / raise == predicted verdict.  Disagreements are JUDGED ON THE REAL OBJECT, because
        ufl's constructors simplify while building (conditional(c, a, a) -> a, imag(abs(f)) -> 0,
        0*f -> 0, ...) so that the integrand the pass sees may be simpler than the program:
        * complex mode accepted although the model rejects: a violation iff an ordered operand of the
          real result is not real valued in the complex environment;
        * real mode accepted although the model rejects: a violation iff the real integrand contains
          an Imag node / a ComplexValue;
        * the code rejects although the model accepts: never a violation of the property
          (incompleteness); counted as a divergence of the transcription (the run fails as a
          machinery error when more than 1 % of the programs diverge).
  (ii)  when accepted: shape, free indices and value of the REAL result (evaluated by vf/sem.py)
        == prediction; cmp_check in every environment (theorem WrapNeutral), remove_complex in the
        real-data environment.  Independently of the model, the value of the result is compared
        with the value of the real integrand itself (cmp_check: wherever the integrand is defined;
        remove_complex: real-data environment, when every sub-expression is real valued there).
  (iii) independently of the model, after an accepted comparison check every GT/LT/GE/LE/MinValue/
        MaxValue node of the result has operands of the form Real(e) or a real literal, and e is real
        valued in every environment (in particular the complex one).
"""

from __future__ import annotations

import ctypes  # noqa: F401 - see _preload
import gc
import os
import random
import signal
import time
import warnings
from concurrent.futures import ThreadPoolExecutor
from fractions import Fraction

from .. import replay as rpl
from .. import tlc
from ..builder import LIT, REFUSALS, Slice, hash_name, slice_json
from ..common import MachineryError, main_wrapper
from ..envs import Pool, TermEnv, comps
from ..scalar import Cx, Undefined, close, from_tla
from ..sem import Evaluator, Unsupported

PID = "C23"
MODE = {"cmp_check", "remove_complex"}

# terminal kinds by name: how CheckComparisons.terminal types them
KIND = {
    "f": "coefficient", "g": "coefficient", "u": "coefficient", "c": "constant",   # complex typed
    "v": "test", "w": "trial", "h": "CellVolume", "r": "Circumradius", "x": "SpatialCoordinate",  # real typed
}
REAL_NAMES = {"v", "w", "h", "r", "x"}
F, G, C = ("f", ()), ("g", ()), ("c", ())
V, W, H, R = ("v", ()), ("w", ()), ("h", ()), ("r", ())
U, X = ("u", (2,)), ("x", (2,))

# Gaussian integers with an integer modulus: |z| and |z w| stay in the rational fragment
PYTH = [(3, 4), (4, 3), (6, 8), (8, 6), (5, 12), (12, 5), (8, 15), (15, 8)]

JAVA = "-DTLA-Library=" + os.path.join(os.path.dirname(os.path.dirname(os.path.dirname(os.path.abspath(__file__)))), "spec") + " -Xmx3g -Xmn256m -XX:ParallelGCThreads=2"
TLC_WORKERS = 2      # per TLC process; at most two processes at a time (<= 4 workers in total)
HANG_LIMIT = 0.4     # seconds after which float(exponent) is declared non-terminating
PASS_LIMIT = 10.0


def _preload():
    """tlc.run starts the model checker from worker threads with a preexec_fn that imports ctypes.  A child forked
    while the main thread is inside an import (the replay imports parts of ufl lazily) inherits that module's
    import lock in the locked state and, importing ctypes from scratch, waits for it for ever (observed: the
    check hung on a loaded machine).  With everything imported before the first worker thread starts, the import
    statements executed after a fork are look-ups in sys.modules and take no lock."""
    import signal as _signal  # noqa: F401

    import ufl  # noqa: F401
    import ufl.algorithms  # noqa: F401
    import ufl.algorithms.comparison_checker  # noqa: F401
    import ufl.algorithms.remove_complex_nodes  # noqa: F401
    import ufl.classes  # noqa: F401

    from .. import elements  # noqa: F401


# ------------------------------------------------------------------------------------------------
# guarded execution of the real passes
# ------------------------------------------------------------------------------------------------


class _Alarm(BaseException):
    """Raised by the interval timer.  BaseException: ufl's `except Exception` must not swallow it."""


class Rejected(Exception):
    """The pass refused the integrand in the documented way."""


class Hung(Exception):
    """The pass did not terminate within the limit."""


_CLOCK = [0.0, 0.0, 0.0]   # thread CPU time when the guarded call began, thread CPU time it must have had, wall-clock deadline


def _on_alarm(signum, frame):
    # "does not terminate" is a statement about the pass, not about the machine: the wall-clock limit only
    # counts when this thread has had at least half of it as CPU time (the machine is shared, and the threads
    # that read the output of the concurrent TLC runs hold the interpreter lock for long stretches)
    short = _CLOCK[1] - (time.thread_time() - _CLOCK[0])
    if short > 0 and time.monotonic() < _CLOCK[2]:
        signal.setitimer(signal.ITIMER_REAL, max(short, 0.02), 0.02)
        return
    signal.setitimer(signal.ITIMER_REAL, 0)
    raise _Alarm()


def guarded(fn, limit):
    """fn() under a wall-clock limit.  The timer repeats: when it fires at the recursion limit the
    handler itself cannot be entered (RecursionError, swallowed by the code under test).  Because it
    repeats, a second firing can be pending when the first one has been handled: the timer is disarmed
    in a loop that absorbs it, and SIGALRM is ignored before control leaves this function."""
    old = signal.signal(signal.SIGALRM, _on_alarm)
    hung, result, error = False, None, None
    saved = list(_CLOCK)
    _CLOCK[:] = [time.thread_time(), limit / 2, time.monotonic() + 30 * limit]
    collect = gc.isenabled()
    gc.disable()          # a full collection of the heap of a large slice is not part of the pass
    try:
        try:
            signal.setitimer(signal.ITIMER_REAL, limit, 0.02)
            result = fn()
        except _Alarm:
            hung = True
        except BaseException as exc:  # noqa: BLE001 - re-raised below, once the timer is off
            error = exc
    except _Alarm:  # the pending second firing, delivered inside one of the handlers above
        hung = True
    while True:
        try:
            signal.setitimer(signal.ITIMER_REAL, 0)
            signal.signal(signal.SIGALRM, signal.SIG_IGN)
            break
        except _Alarm:
            continue
    signal.signal(signal.SIGALRM, old)
    _CLOCK[:] = saved
    if collect:
        gc.enable()
    if error is not None:
        raise error
    if hung:
        raise Hung(f"no result within {limit}s")
    return result


_SECOND_LOOKS = {"confirmed": 0, "refuted": 0}


def patient(fn):
    """fn() under PASS_LIMIT; "does not terminate" is only concluded after a second, three times longer look (the
    machine is shared: on a loaded machine the limit has been observed to run out on three-node integrands).  A
    second look that returns costs nothing but its time; after two that did not, a pass that really hangs is
    reported without one."""
    try:
        return guarded(fn, PASS_LIMIT)
    except Hung:
        if _SECOND_LOOKS["confirmed"] >= 2:
            raise
    try:
        r = guarded(fn, 3 * PASS_LIMIT)
    except Hung:
        _SECOND_LOOKS["confirmed"] += 1
        raise
    except BaseException:
        _SECOND_LOOKS["refuted"] += 1
        raise
    _SECOND_LOOKS["refuted"] += 1
    return r


_FLOAT_HANGS = {}
_PASS_HANGS = {}


def float_hangs(expo):
    """Does float(expo) -- the first statement of CheckComparisons.power -- terminate?"""
    r = _FLOAT_HANGS.get(expo)
    if r is None:
        def f():
            try:
                float(expo)
            except Exception:  # noqa: BLE001 - any answer is an answer
                pass
            return False

        try:
            r = guarded(f, HANG_LIMIT)
        except Hung:
            r = True
        _FLOAT_HANGS[expo] = r
    return r


def hanging_exponents(e):
    from ufl.classes import Power, ScalarValue, Zero
    from ufl.corealg.traversal import unique_pre_traversal

    out = []
    for n in unique_pre_traversal(e):
        if isinstance(n, Power) and not isinstance(n.ufl_operands[1], (ScalarValue, Zero)) and float_hangs(n.ufl_operands[1]):
            out.append(n.ufl_operands[1])
    return out


def pass_cmp_check(e):
    from ufl.algorithms.comparison_checker import ComplexComparisonError, do_comparison_check

    def f():
        try:
            return do_comparison_check(e)
        except ComplexComparisonError as exc:
            raise Rejected(f"ComplexComparisonError: {exc}") from None

    hang = hanging_exponents(e)
    if hang:
        # CheckComparisons.power evaluates float(exponent): observe the pass itself once per distinct
        # exponent (under a short limit), then rely on that observation
        known = [_PASS_HANGS.get(x) for x in hang]
        if None in known:
            try:
                r = guarded(f, 1.0)
            except Hung:
                for x in hang:
                    _PASS_HANGS.setdefault(x, True)
            except Rejected:
                for x in hang:
                    _PASS_HANGS.setdefault(x, False)
                raise
            else:
                for x in hang:
                    _PASS_HANGS.setdefault(x, False)
                return r
            known = [_PASS_HANGS.get(x) for x in hang]
        if True in known:
            x = hang[known.index(True)]
            h = Hung(f"do_comparison_check does not return: float({str(x)[:60]}) in CheckComparisons.power recurses without end")
            h.exponent = type(x).__name__
            raise h
    return patient(f)


REAL_MODE_MESSAGES = ("Unexpected imag in real expression.", "Unexpected complex value in real expression.")


def pass_remove_complex(e):
    from ufl.algorithms.remove_complex_nodes import remove_complex_nodes

    def f():
        try:
            return remove_complex_nodes(e)
        except ValueError as exc:
            if str(exc) in REAL_MODE_MESSAGES:
                raise Rejected(f"ValueError: {exc}") from None
            raise

    return patient(f)


rpl.PASSES["cmp_check"] = pass_cmp_check
rpl.PASSES["remove_complex"] = pass_remove_complex


# ------------------------------------------------------------------------------------------------
# environments and the world of real objects
# ------------------------------------------------------------------------------------------------


def make_pool(sl, seed):
    """Environment 1: real data.  Environment 2: generic non-real values (integer modulus) for the
    terminals the checker types complex, real values for those it types real."""
    pool = Pool(sl.terminals, nenv=2, seed=seed + hash_name(sl.name), tiny=True)
    rng = random.Random(seed * 31 + hash_name(sl.name))
    used = set()
    for name, shape in sl.terminals:
        if name in REAL_NAMES:
            continue
        for c in comps(shape):
            while True:
                a, b = rng.choice(PYTH)
                z = (rng.choice([1, -1]) * a, rng.choice([1, -1]) * b)
                if z not in used:
                    used.add(z)
                    break
            pool.values[1][name][c] = Cx(z[0], z[1])
    # a real terminal never has the value of a literal of the slice: of the conditions lt(v, 2) and lt(2, v) one
    # holds in every environment, so that each branch of a conditional is the selected one in some program
    litvals = {Cx.of(v) for _, v in sl.lits}
    for env in pool.values:
        for name, shape in sl.terminals:
            if name in REAL_NAMES:
                for c in comps(shape):
                    while env[name][c] in litvals:
                        env[name][c] = Cx(env[name][c].re + 10)
    return pool


class CWorld(rpl.World):
    """rpl.World with terminals of the kinds the checker distinguishes."""

    def __init__(self, pool, lits, zeros, idxpool, gdim=2):
        super().__init__(pool, lits, zeros, idxpool, gdim=gdim)
        ufl = self.ufl
        from ..elements import LagrangeElement

        cell = ufl.triangle
        terms = []
        for (name, shape), coef in zip(pool.terminals, self.terms):
            kind = KIND[name]
            space = ufl.FunctionSpace(self.mesh, LagrangeElement(cell, 2, tuple(shape)))
            if kind == "coefficient":
                t = coef
            elif kind == "constant":
                t = ufl.Constant(self.mesh)
            elif kind == "test":
                t = ufl.TestFunction(space)
            elif kind == "trial":
                t = ufl.TrialFunction(space)
            elif kind == "SpatialCoordinate":
                t = ufl.SpatialCoordinate(self.mesh)
            else:
                t = getattr(ufl, kind)(self.mesh)
            if tuple(t.ufl_shape) != tuple(shape):
                raise MachineryError(f"terminal {name}: shape {t.ufl_shape} != {shape}")
            terms.append(t)
        self.terms = terms
        self.init = self.terms + self.lits + self.zeros
        self.envs = [TermEnv({t: pool.values[e][name] for t, (name, _) in zip(self.terms, pool.terminals)}) for e in range(pool.nenv)]
        self.cache = {}


# ------------------------------------------------------------------------------------------------
# slices
# ------------------------------------------------------------------------------------------------

ORD = {"lt", "gt", "le", "ge"}
CMP = ORD | {"eq", "ne"}
MM = {"max", "min", "sign"}
UN = {"abs", "real", "imag", "conj", "sqrt"}
BIN = {"mul", "add", "div", "pow"}
LOGIC = {"and", "or", "not"}


# conditionals below a compared operand, by the coded type of (condition, true value, false value); "!": the
# conditional has a non-real value in the complex environment
COND_NEED = ("rrr", "rrc!", "rcr!")


def csl(name, terminals, levels, lits=("two", "i"), powlit=True, need=(), **kw):
    """need: classes of conditionals below a compared operand (CplxTypes: CondKind) the slice is built for;
    the run fails as a machinery error when TLC generates no program of such a class (vacuity)."""
    levels = [set(l) for l in levels]
    kw.setdefault("idx", ())
    kw.setdefault("mikinds", ("fixed",))
    sl = Slice(name, terminals, set(), len(levels), lits=[LIT[k] for k in lits], finalops=MODE, levels=levels, only_final=True, nenv=2, **kw)
    sl.powlit = powlit
    sl.need = tuple(need)
    return sl


def slices(tier):
    """Cost model: UFLBuild's Next costs ~10 ms per state on which constructors are enabled, the
    pass level is cheap; so slices are narrow in the early levels and wide in the last ones."""
    q = tier == "quick"
    VEC1 = {"inner", "outer", "dot", "index", "abs", "conj", "real", "imag", "add"}
    out = [
        # [operator][max/min/sign][pass]: the type of every one-operator expression, observed through
        # the verdict on a min/max against every initial node
        csl("types1", [F, H] if q else [F, H, V], [UN | BIN | {"neg"}, MM, MODE], lits=("two", "i", "half")),
        # [max/min/sign][type-changing wrapper][pass]: a comparison BELOW abs/real/imag/... — the wrapper's handler types
        # the result but the operands must still be visited (a handler without operand arguments would be a cutoff)
        csl("under-wrap", [F, H], [MM, UN | {"neg", "mul"}, MODE], lits=("two", "i")),
        # [comparison][conditional][pass]
        csl("cond1", [F, V] if q else [F, G, V], [CMP, {"cond"}, MODE], lits=("zero", "i")),
        # [comparison][conditional][min/max OF the conditional][pass]: a conditional as a compared operand.  It
        # has no handler: expr() types it by the condition AND both values; every combination of a real / complex
        # true and false value is generated, under conditions lt(a, b) and lt(b, a) so that either branch is the
        # one selected in the complex environment
        csl("cond-op", [F, V], [{"lt"}, {"cond"}, {"max", "min"}, MODE], lits=("two",) if q else ("two", "i"), need=COND_NEED if q else COND_NEED + ("rcc!",)),
        # powers with a non-literal exponent (CheckComparisons.power evaluates float(exponent))
        csl("pow-exp", [F, V, H], [{"pow"}, {"max"}, MODE], lits=("two",), powlit=False),
        # vectors: inner/outer/dot/index/abs of a complex and a real vector
        csl("vec1", [U, X], [VEC1, {"index", "inner", "dot", "pow", "abs", "max", "sign"}, MODE], lits=("two",)),
        # repeated indices: IndexSum nodes
        csl("isum1", [U, X], [{"index"}, {"index", "abs"}, {"mul", "inner", "dot", "max"}, MODE], lits=("two",), idx=(10,), mikinds=("fixed", "name")),
    ]
    if not q:
        DEEP = [UN | BIN | {"index", "neg"}, UN | BIN | CMP | {"inner", "dot", "index"}, UN | BIN | CMP | MM, CMP | MM | LOGIC | {"cond", "mul", "add"},
                MM | LOGIC | {"cond"} | BIN, {"cond", "max", "min", "mul", "add", "abs", "real"}, MODE]
        out += [
            csl("types2", [F, H], [UN | BIN, UN | BIN, {"max"}, MODE], lits=("two", "i")),
            csl("cond2", [F, H], [ORD | {"eq"}, LOGIC | {"lt", "eq"}, {"cond"}, MODE], lits=("zero",)),
            csl("vec2", [U, X], [VEC1, {"index", "inner", "dot", "pow", "abs", "imag"}, {"max", "sign", "lt", "min"}, MODE], lits=("two",)),
            # a conditional as an operand of an ordering comparison (which needs a second conditional to become an integrand)
            csl("cond-ord", [F, V], [{"lt"}, {"cond"}, {"gt"}, {"cond"}, MODE], lits=("two",), need=COND_NEED),
            # conditionals between vectors, compared through a component: indexed() copies the type of the conditional
            csl("cond-vec", [U, X], [{"index"}, {"lt"}, {"cond"}, {"index"}, {"max"}, MODE], lits=("two",), need=("rrc!", "rcr!")),
            # a conditional reaches the comparison through type-preserving operators
            csl("cond-thru", [F, V], [{"lt"}, {"cond"}, {"mul", "neg", "conj"}, {"max"}, MODE], lits=("two",), need=COND_NEED),
            # values of the conditional that are typed by a handler of their own (sqrt: complex, abs: real)
            csl("cond-un", [F, V], [{"sqrt", "abs"}, {"lt"}, {"cond"}, {"min"}, MODE], lits=(), need=COND_NEED),
            csl("variable", [F, H], [{"variable", "abs"}, {"variable", "max", "lt", "mul"}, {"max", "cond", "sign"}, MODE], lits=("two",)),
            csl("const-arg", [C, W, R], [UN | BIN, MM, MODE], lits=("mone", "i")),
            # deep random programs over the whole alphabet
            csl("deep", [F, H, U, X], DEEP, lits=("two", "i", "zero"), simulate=500, depth=8),
        ]
    return out


# ------------------------------------------------------------------------------------------------
# TLC
# ------------------------------------------------------------------------------------------------

INVARIANTS = ("WellFormed", "TypeSound", "CheckSound", "WrapNeutral", "RemoveNeutral", "VerdictStored")


def mc_texts(sl, pool, real_names=REAL_NAMES, dump=True, cond_rule="all"):
    name = "MC_C23_" + sl.name.replace("-", "_")
    mc = rpl.mc_module(name, pool, sl.lits, sl.zeros, sl.idx, sl.ops | sl.finalops, sl.maxnodes, sl.maxrank, sl.maxdim, sl.finalops, sl.levels, ())
    names = sorted(n for n, _ in sl.terminals if n in real_names)
    mc = mc.replace("EXTENDS UFLBuild", "EXTENDS CplxTypes")
    mc = mc.replace("====\n", "MC_RealTermNames == {" + ", ".join(f'"{n}"' for n in names) + "}\n====\n")
    cfg = rpl.mc_cfg(pool, sl.maxnodes, sl.maxrank, sl.maxdim, final_only=True, mikinds=sl.mikinds, dump=False, invariants=INVARIANTS)
    cfg = cfg.replace("SPECIFICATION Spec\n", "SPECIFICATION SpecC\n")
    cfg = cfg.replace("CONSTANTS\n", f"CONSTANTS\nRealTermNames <- MC_RealTermNames\nPowLitOnly = {'TRUE' if sl.powlit else 'FALSE'}\nCondRule = \"{cond_rule}\"\n", 1)
    if dump:
        cfg += "INVARIANT DumpInvC\n"
    return name, mc, cfg


def tlc_phase(seed, sl, timeout=900, real_names=REAL_NAMES, cond_rule="all"):
    pool = make_pool(sl, seed)
    name, mc, cfg = mc_texts(sl, pool, real_names, cond_rule=cond_rule)
    kw = {}
    if sl.simulate:
        kw = dict(simulate=f"num={max(1, sl.simulate // TLC_WORKERS)}", depth=sl.depth or (sl.maxnodes + 1), seed=seed + 1 + hash_name(sl.name))
    res = tlc.run(name, cfg, mc_text=mc, mc_name=name, workers=TLC_WORKERS, timeout=timeout, env={"JAVA_TOOL_OPTIONS": JAVA}, **kw)
    return pool, res


# ------------------------------------------------------------------------------------------------
# the comparison
# ------------------------------------------------------------------------------------------------


def is_real_value(v):
    if v.im == 0:
        return True
    return abs(float(v.im)) <= 1e-9 * max(1.0, abs(float(v.re)))


def scalar_values(w, e):
    """Value of the scalar expression e in every environment (None: undefined)."""
    out = []
    for env in w.envs:
        try:
            out.append(Evaluator(env).scalar(e))
        except (Undefined, ZeroDivisionError, OverflowError):
            out.append(None)
    return out


def ordered_nodes(e):
    from ufl.classes import GE, GT, LE, LT, MaxValue, MinValue
    from ufl.corealg.traversal import unique_pre_traversal

    return [n for n in unique_pre_traversal(e) if isinstance(n, (GE, GT, LE, LT, MaxValue, MinValue))]


def handler_name(n):
    return type(n)._ufl_handler_name_


def soundness(w, result):
    """(iii): list of (kind, op handler, operand class, text) for every defect of an accepted result."""
    from ufl.classes import Real, RealValue, Zero

    bad = []
    for n in ordered_nodes(result):
        for op in n.ufl_operands:
            if isinstance(op, Real):
                inner = op.ufl_operands[0]
            elif isinstance(op, (RealValue, Zero)):
                continue
            else:
                bad.append(("unwrapped", handler_name(n), type(op).__name__, f"operand {str(op)[:60]} of {str(n)[:80]} is neither Real(.) nor a real literal"))
                continue
            for e, v in enumerate(scalar_values(w, inner)):
                if v is not None and not is_real_value(v):
                    bad.append(("complex", handler_name(n), type(inner).__name__, f"operand {str(inner)[:60]} of {str(n)[:80]} has the value {v} in environment {e + 1}"))
                    break
    return bad


def real_closed(w, obj, e):
    """Every sub-expression of obj is defined and real valued in environment e."""
    from ufl.classes import Expr, Label, MultiIndex
    from ufl.corealg.traversal import unique_post_traversal

    ev = Evaluator(w.envs[e])
    for n in unique_post_traversal(obj):
        if isinstance(n, (MultiIndex, Label)) or not isinstance(n, Expr):
            continue
        try:
            for v in ev.table(n).values():
                if not is_real_value(v):
                    return False
        except (Undefined, ZeroDivisionError, OverflowError):
            return False
    return True


def contains(obj, classes):
    from ufl.corealg.traversal import unique_pre_traversal

    return [n for n in unique_pre_traversal(obj) if isinstance(n, classes)]


def first_changed(w, operand, p, e):
    """Name of the handler whose rewrite changes a value in environment e (fingerprint detail)."""
    from ufl.classes import Conj, Real

    try:
        if p == "cmp_check":
            for n in ordered_nodes(operand):
                wrapped = n._ufl_expr_reconstruct_(*[Real(o) for o in n.ufl_operands])
                a, b = scalar_values(w, n)[e], scalar_values(w, wrapped)[e]
                if a is not None and (b is None or not close(a, b)):
                    return handler_name(n)
        else:
            ev = Evaluator(w.envs[e])
            for n in contains(operand, (Conj, Real)):
                if ev.table(n) != ev.table(n.ufl_operands[0]):
                    return handler_name(n)
    except Exception:  # noqa: BLE001 - only a label
        pass
    return "expr"


class Judge:
    def __init__(self, ctx, sl, pool, w):
        self.ctx, self.sl, self.pool, self.w = ctx, sl, pool, w
        self.stats = {}
        self.gen = {}        # what TLC generated, by class (independent of what the code does): vacuity guards
        self.diverged = []

    def bump(self, k):
        self.stats[k] = self.stats.get(k, 0) + 1

    def viol(self, fp, what, rec, **extra):
        self.bump("violation:" + fp)
        self.ctx.violation(fp, f"[{self.sl.name}] {rpl.prog_text(rec['prog'], self.w)} -> {what}", {"slice": jslice(self.sl), "pool": self.pool.to_json(), "rec": rec, **extra})

    def __call__(self, rec):
        ctx, w = self.ctx, self.w
        prog = rec["prog"]
        p = prog[-1]["op"]
        pred = rec["verdict"]
        for kd in rec.get("condops", ()):
            self.gen[kd] = self.gen.get(kd, 0) + 1
        ctx.traces(1)
        objs, err = rpl.build(w, prog)
        allobjs = w.init + objs
        if err is not None and err[0] < len(prog) - 1:
            k, exc = err
            if any(r in str(exc) for r in REFUSALS):
                self.bump("prefix-refused-by-design")
            else:
                self.bump("prefix-refused")
                ctx.count("prefix_refused:" + prog[k]["op"] + ":" + type(exc).__name__)
            return
        operand = allobjs[prog[-1]["args"][0] - 1]
        nontrivial = rec["ncmp"] > 0 if p == "cmp_check" else rec["ncplx"] > 0
        if err is not None:
            exc = err[1]
            if isinstance(exc, Hung):
                if getattr(exc, "exponent", None):
                    self.viol("C23:cmp_check-does-not-terminate:power-nonliteral-exponent", str(exc), rec)
                else:
                    self.viol(f"C23:{p}-does-not-terminate", str(exc), rec)
                return
            if not isinstance(exc, Rejected):
                self.viol(f"C23:unexpected-error:{p}:{type(exc).__name__}", f"{p} raised {type(exc).__name__}: {exc}", rec)
                return
            real = "reject"
        else:
            real = "ok"
            result = objs[-1]
        ctx.evaluated(1)
        self.bump(f"{p}:model-{pred}:code-{real}")
        if nontrivial and real == pred:
            ctx.distinct(self.sl.name + repr(prog))
        if real == pred:
            for kd in rec.get("condops", ()):
                self.bump(f"{p}:{pred}:conditional-compared:{kd}")
            if rec.get("wit"):
                self.bump(f"{p}:{pred}:witnessed")
        if real == "reject":
            if pred == "reject":
                if rec.get("inc"):
                    # both reject an integrand whose compared operands are always real: incompleteness
                    ctx.count("rejected-real-comparison:" + self.reason(operand))
            else:
                # the code refuses what the transcription accepts: not a violation of the property
                self.diverged.append((rec, str(err[1])))
                ctx.count(f"divergence:{p}:code-rejects:" + (self.reason(operand) if p == "cmp_check" else "real-mode"))
            return
        # ---- accepted by the real pass
        if not hasattr(result, "ufl_shape"):
            self.viol(f"C23:non-ufl-result:{p}", f"{p} returned {type(result).__name__}", rec)
            return
        try:
            sh, fi, tabs = rpl.observe(w, result)
            ish, ifi, itabs = rpl.observe(w, operand)
        except Unsupported as exc:
            raise MachineryError(f"evaluator does not cover {exc} in {rpl.prog_text(prog, w)}") from exc
        bad = soundness(w, result) if p == "cmp_check" else []
        for kind, op, cls, text in bad[:1]:
            if kind == "complex":
                self.viol(f"C23:accepted-complex-comparison:{op}:{cls}", text, rec)
            else:
                self.viol(f"C23:comparison-operand-not-wrapped:{op}:{cls}", text, rec)
        if p == "remove_complex":
            from ufl.classes import ComplexValue, Conj, Imag, Real

            if contains(operand, Imag):
                bad.append("imag")
                self.viol("C23:accepted-imag-in-real-mode", f"accepted {str(operand)[:80]}", rec)
            if contains(operand, ComplexValue):
                bad.append("complexvalue")
                self.viol("C23:accepted-complex-literal-in-real-mode", f"accepted {str(operand)[:80]}", rec)
            left = contains(result, (Conj, Real, Imag, ComplexValue))
            if left and not bad:
                # e.g. Inner(u, Conj(x)) -> Inner.__new__ re-sorts the rebuilt node into Conj(Inner(x, u)).  The
                # property speaks about the VALUE for real data (compared below), not about the absence of
                # such nodes: an observation, not a violation.
                ctx.count(f"observation:complex_node_left_after_removal:{type(left[0]).__name__}")
        if pred == "reject":
            if not bad:
                # the constructors simplified the offending node away before the pass saw it
                self.bump(f"{p}:accepted-after-construction-simplification")
                ctx.count(f"accepted_after_construction_simplification:{p}")
            # no prediction to compare with; the direct comparison below still applies
        # ---- shape / free indices
        if list(sh) != list(ish) or (pred == "ok" and list(sh) != list(rec["sh"])):
            self.viol(f"C23:shape-changed:{p}", f"shape {sh}, integrand {ish}, predicted {rec['sh']}", rec)
            return
        if fi is None or fi != ifi or (pred == "ok" and [list(x) for x in fi] != [list(x) for x in rec["fi"]]):
            self.viol(f"C23:free-indices-changed:{p}", f"free indices {fi}, integrand {ifi}, predicted {rec['fi']}", rec)
            return
        # ---- value against the prediction
        nfi = len(fi)
        ndef = 0
        if pred == "ok":
            for e, ptab in enumerate(rec["val"]):
                for t, v in ptab:
                    pv = from_tla(v)
                    if pv is None:
                        ctx.count("undefined_skipped")
                        continue
                    ndef += 1
                    ctx.evaluated(1)
                    rv = tabs[e][(tuple(t[:nfi]), tuple(t[nfi:]))]
                    if rv is None or not close(pv, rv):
                        self.viol(f"C23:value-changed:{p}:{first_changed(w, operand, p, e)}", f"environment {e + 1} component {t}: predicted {pv}, result of the real pass {rv}", rec)
                        return
        # ---- value against the real integrand (independent of the model)
        envs = range(len(w.envs)) if p == "cmp_check" else ([0] if real_closed(w, operand, 0) else [])
        for e in envs:
            for key, iv in itabs[e].items():
                if iv is None:
                    continue
                ctx.evaluated(1)
                rv = tabs[e][key]
                if rv is None or not close(iv, rv):
                    self.viol(f"C23:value-changed:{p}:{first_changed(w, operand, p, e)}", f"environment {e + 1} component {key}: integrand {iv}, result of the real pass {rv}", rec)
                    return
        if pred == "ok" and ndef and len(ctx.cov["samples"]) < 5 and nontrivial and len(prog) >= 3:
            ctx.sample({"slice": self.sl.name, "program": rpl.prog_text(prog, w), "pass": p, "verdict": pred, "integrand": str(operand)[:120], "result": str(result)[:140], "value_env2": rec["val"][-1][:2]})

    def reason(self, operand):
        """Why the real checker rejects: handler and class of the first complex-typed ordered operand."""
        from ufl.algorithms.comparison_checker import CheckComparisons, ComplexComparisonError
        from ufl.corealg.map_dag import map_expr_dag

        cc = CheckComparisons()
        for n in reversed(ordered_nodes(operand)):
            try:
                for o in n.ufl_operands:
                    guarded(lambda o=o: map_expr_dag(cc, o), 1.0)
            except (Exception, ComplexComparisonError):  # noqa: BLE001 - a nested comparison is rejected first / hang
                continue
            for o in n.ufl_operands:
                if cc.nodetype.get(o) == "complex":
                    return f"{handler_name(n)}:{type(o).__name__}"
        return "?"


def jslice(sl):
    d = slice_json(sl)
    d["levels"] = [sorted(l) for l in sl.levels]
    d["mikinds"] = list(sl.mikinds)
    d["powlit"] = sl.powlit
    return d


def replay_phase(ctx, sl, pool, res, tamper=None):
    ctx.add_tlc(res)
    if res.outcome != "ok":
        tail = "\n".join(res.stdout.splitlines()[-30:])
        raise MachineryError(f"TLC on slice {sl.name}: {res.outcome} {res.violated}\n{tail}")
    recs = tlc.decode_prints(res)
    if not recs:
        raise MachineryError(f"slice {sl.name}: TLC produced no programs")
    w = CWorld(pool, sl.lits, sl.zeros, sl.idx, gdim=sl.gdim)
    j = Judge(ctx, sl, pool, w)
    seen = set()
    for rec in recs:
        key = repr(rec["prog"])
        if key in seen:
            continue
        seen.add(key)
        if tamper:
            tamper(rec)
        j(rec)
    missing = [kd for kd in getattr(sl, "need", ()) if not j.gen.get(kd)]
    if missing:
        raise MachineryError(f"vacuous: slice {sl.name} generated no program with a conditional of class {missing} below a compared operand (generated: {dict(sorted(j.gen.items()))})")
    ctx.cov.setdefault("slices", []).append({"slice": sl.name, "programs": len(seen), "tlc_states": res.distinct, "status": dict(sorted(j.stats.items()))})
    return j, len(seen)


def run(ctx, args):
    warnings.simplefilter("ignore")
    if args.selftest:
        return selftest(ctx)
    ctx.rule = (
        "TLC enumerates programs of CplxTypes level by level (exhaustively for the short slices, seeded -simulate for the deep "
        "ones): operators over complex-typed (coefficient, constant) and real-typed (argument, cell volume, coordinates) "
        "terminals and the literals 2, 1/2, -1, 0, 1j, then comparisons / min / max / sign, conditionals (also as operands of "
        "min / max / ordering comparisons, with every combination of real / complex true and false values, each under "
        "conditions that select either branch in the complex environment), and finally "
        "do_comparison_check or remove_complex_nodes; a case = one program ending in a pass, replayed through the public API; "
        "non-trivial = the integrand contains an ordering comparison / min / max / sign (complex mode) or a conj / real / "
        "imag / complex literal (real mode) and model and code agree on the verdict"
    )
    ctx.assume("type lattice judged as documented in CheckComparisons: coefficients and constants may be complex; arguments (basis functions) and geometric quantities are real; the complex environment gives real values to the latter")
    ctx.assume("UFLBuild's exact denotation (spec/CQ.tla, vf/sem.py) is the meaning of an expression; values outside the rational fragment (irrational roots, overflow) are undefined and not compared")
    ctx.assume("the wrapped value is modelled locally (each compared node rebuilt on Real(operand)); that the whole integrand then keeps its value is checked on the real result by evaluation, not by TLC")
    ctx.assume("programs whose UFL DAG differs from the program by construction-time folding (literal arithmetic, zero operands, scalar*tensor component tensors) are excluded; remaining simplifications are judged on the real object")
    ctx.assume("math functions other than sqrt (ln, acos, ... of negative reals are complex valued but typed real) are outside the property's quantifier and not generated")
    _preload()
    only = os.environ.get("VERIF_SLICES")
    sls = [sl for sl in slices(ctx.tier) if not only or sl.name in only.split(",")]
    total = 0
    agg = {}
    divergences = 0
    with ThreadPoolExecutor(2) as ex:
        futs = [ex.submit(tlc_phase, ctx.seed, sl) for sl in sls]
        for sl, fut in zip(sls, futs):
            pool, res = fut.result()
            t0 = time.time()
            j, n = replay_phase(ctx, sl, pool, res)
            total += n
            divergences += len(j.diverged)
            for k, v in j.stats.items():
                agg[k] = agg.get(k, 0) + v
            print(f"  [{sl.name}] tlc {res.mode} states={res.distinct} {res.wall:.1f}s; programs={n} replay {time.time() - t0:.1f}s; {dict(sorted(j.stats.items()))}", flush=True)
    if _SECOND_LOOKS["refuted"]:
        ctx.count("pass_returned_at_second_look_only", _SECOND_LOOKS["refuted"])
    ctx.cov["programs"] = total
    ctx.cov["verdict_table"] = dict(sorted(agg.items()))
    if not only:
        for p in MODE:
            for v in ("ok", "reject"):
                if not agg.get(f"{p}:model-{v}:code-{v}"):
                    raise MachineryError(f"vacuous: no program on which model and code agree on {p} -> {v}")
        if divergences * 100 > total:
            raise MachineryError(f"the transcription of the checker diverges from the code on {divergences} of {total} programs")
        need = 3000 if ctx.tier == "quick" else 50000
        if total < need:
            raise MachineryError(f"only {total} programs replayed (< {need})")


# ------------------------------------------------------------------------------------------------
# replay of one recorded case, self-test
# ------------------------------------------------------------------------------------------------


def _restore(r):
    s = r["slice"]
    sl = Slice(s["name"], [(n, tuple(sh)) for n, sh in s["terminals"]], set(), s["maxnodes"], lits=[(n, _num(v)) for n, v in s["lits"]], idx=s["idx"], maxrank=s["maxrank"], maxdim=s["maxdim"], finalops=MODE, levels=[set(l) for l in s["levels"]], only_final=True, nenv=2, mikinds=s["mikinds"])
    sl.powlit = s["powlit"]
    pool = Pool(sl.terminals, nenv=2, seed=0, tiny=True)
    for e, env in enumerate(r["pool"]["values"]):
        for n, ents in env.items():
            pool.values[e][n] = {tuple(c): Cx(_fr(v[0]), _fr(v[1])) for c, v in ents}
    return sl, pool


def _fr(x):
    return Fraction(x[0], x[1]) if isinstance(x, list) else x


def _num(s):
    try:
        return Fraction(s)
    except Exception:  # noqa: BLE001
        return complex(s)


def replay(ctx, doc):
    warnings.simplefilter("ignore")
    r = doc["replay"]
    sl, pool = _restore(r)
    w = CWorld(pool, sl.lits, sl.zeros, sl.idx, gdim=sl.gdim)
    j = Judge(ctx, sl, pool, w)
    j(r["rec"])
    print(f"replay C23: {rpl.prog_text(r['rec']['prog'], w)} (model: {r['rec']['pass']} -> {r['rec']['verdict']}) -> {dict(j.stats)}")


class Sink:
    """Collects verdicts instead of reporting them (selftest)."""

    def __init__(self):
        self.viol, self.cov, self.counts = [], {"samples": []}, {}
        self.tier, self.seed = "quick", 0

    def violation(self, fp, what, replay, detail=None):
        self.viol.append((fp, what))

    def count(self, k, n=1):
        self.counts[k] = self.counts.get(k, 0) + n

    def add_tlc(self, res):
        pass

    def evaluated(self, n=1):
        pass

    def traces(self, n=1):
        pass

    def distinct(self, k):
        pass

    def sample(self, o, limit=5):
        pass


def selftest(ctx):
    import ufl.algorithms.comparison_checker as cc

    sl = csl("selftest", [F, H], [{"abs", "mul", "conj", "real", "imag"}, {"max", "min", "sign"}, MODE], lits=("two",))
    pool, res = tlc_phase(ctx.seed, sl)
    # 0. unchanged: no violation
    s = Sink()
    j, n = replay_phase(s, sl, pool, res)
    if s.viol:
        raise MachineryError(f"selftest baseline reports {s.viol[:2]}")
    print(f"selftest: baseline {n} programs, no violation, table {dict(sorted(j.stats.items()))}")
    # 1. a checker that types coefficients real must be caught by the binding
    orig = cc.CheckComparisons.terminal

    def terminal(self, term, *ops):
        from ufl.classes import Coefficient

        if isinstance(term, Coefficient):
            self.nodetype[term] = "real"
            return term
        return orig(self, term, *ops)

    cc.CheckComparisons.terminal = terminal
    try:
        s = Sink()
        replay_phase(s, sl, pool, res)
    finally:
        cc.CheckComparisons.terminal = orig
    hits = sorted({fp for fp, _ in s.viol if fp.startswith("C23:accepted-complex-comparison")})
    if not hits:
        raise MachineryError("selftest: a checker typing coefficients real was not detected")
    print(f"selftest: mutated checker (coefficients typed real) detected: {len(s.viol)} violations, e.g. {hits[:3]}")
    # 2. the same mutation of the MODEL must be refuted by TLC
    _, mres = tlc_phase(ctx.seed, sl, real_names=REAL_NAMES | {"f"})
    if mres.outcome != "invariant" or mres.violated not in ("TypeSound", "CheckSound", "WrapNeutral"):
        raise MachineryError(f"selftest: TLC did not refute a lattice typing the coefficient real ({mres.outcome} {mres.violated})")
    print(f"selftest: mutated model (coefficient typed real) refuted by TLC: invariant {mres.violated}")
    # 3. corrupted predicted verdicts
    flipped = [0, 0]

    def flip(rec):
        if rec["verdict"] == "reject" and rec["pass"] == "cmp_check" and not flipped[0]:
            rec["verdict"] = "ok"
            flipped[0] += 1
        elif rec["verdict"] == "reject" and rec["pass"] == "remove_complex" and not flipped[1]:
            rec["verdict"] = "ok"
            flipped[1] += 1

    s = Sink()
    j, _ = replay_phase(s, sl, pool, res, tamper=flip)
    if len(j.diverged) != sum(flipped) or sum(flipped) != 2:
        raise MachineryError(f"selftest: corrupted verdicts not detected ({len(j.diverged)} of {sum(flipped)})")
    print(f"selftest: {sum(flipped)} corrupted predicted verdicts detected as divergences")
    # 4. corrupted predicted value
    done = [0]

    def bend(rec):
        if rec["verdict"] == "ok" and not done[0]:
            for tab in rec["val"]:
                for ent in tab:
                    if ent[1][0][1] != 0:
                        ent[1][0][0] += ent[1][0][1]  # re := re + 1
                        done[0] = 1
                        return

    s = Sink()
    replay_phase(s, sl, pool, res, tamper=bend)
    if not done[0] or not any(fp.startswith("C23:value-changed") for fp, _ in s.viol):
        raise MachineryError("selftest: corrupted predicted value not detected")
    print("selftest: corrupted predicted value detected:", s.viol[0][0])
    # 5. a real-mode pass that lets imaginary parts through
    import ufl.algorithms.remove_complex_nodes as rc

    oimag = rc.ComplexNodeRemoval.imag
    rc.ComplexNodeRemoval.imag = lambda self, o, a: a
    sl2 = csl("selftest2", [F, H], [{"imag", "mul"}, {"mul", "abs"}, MODE], lits=("two",))
    pool2, res2 = tlc_phase(ctx.seed, sl2)
    try:
        s = Sink()
        replay_phase(s, sl2, pool2, res2)
    finally:
        rc.ComplexNodeRemoval.imag = oimag
    if not any(fp == "C23:accepted-imag-in-real-mode" for fp, _ in s.viol):
        raise MachineryError("selftest: a real-mode pass accepting imag was not detected")
    print("selftest: mutated real-mode pass (imag accepted) detected")
    # 6. a checker that wraps the compared operands in something that is not the identity on reals
    import ufl.algebra

    cc.Real = lambda a: 2 * ufl.algebra.Real(a)
    try:
        s = Sink()
        replay_phase(s, sl, pool, res)
    finally:
        cc.Real = ufl.algebra.Real
    fps = {fp.split(":")[1] for fp, _ in s.viol}
    if not {"comparison-operand-not-wrapped", "value-changed"} <= fps:
        raise MachineryError(f"selftest: a value-changing wrapper was not detected ({sorted(fps)})")
    print("selftest: mutated wrapper (2*Real(.)) detected:", sorted({fp for fp, _ in s.viol})[:4])
    # 7. a checker with a handler for conditionals that types them by the true value only
    def conditional(self, o, c, t, f):
        o = self.reuse_if_untouched(o, c, t, f)
        self.nodetype[o] = "complex" if self.nodetype[t] == "complex" else "real"
        return o

    sl3 = [x for x in slices("quick") if x.name == "cond-op"][0]
    pool3, res3 = tlc_phase(ctx.seed, sl3)
    s = Sink()
    j, n = replay_phase(s, sl3, pool3, res3)
    if s.viol:
        raise MachineryError(f"selftest cond-op baseline reports {s.viol[:2]}")
    from ufl.corealg.multifunction import MultiFunction

    cc.CheckComparisons.conditional = conditional
    MultiFunction._handlers_cache.pop(cc.CheckComparisons, None)   # the handler table is computed once per class
    try:
        s = Sink()
        replay_phase(s, sl3, pool3, res3)
    finally:
        del cc.CheckComparisons.conditional
        MultiFunction._handlers_cache.pop(cc.CheckComparisons, None)
    hits = sorted({fp for fp, _ in s.viol})
    if not hits or not all(fp.startswith("C23:accepted-complex-comparison:") and fp.endswith(":Conditional") for fp in hits):
        raise MachineryError(f"selftest: a conditional typed by its true value only was not detected as such ({hits[:4]})")
    print(f"selftest: mutated checker (conditional typed by its true value) detected on {n} programs: {len(s.viol)} violations, {hits}")
    # 8. the same mutation of the MODEL must be refuted by TLC
    _, mres = tlc_phase(ctx.seed, sl3, cond_rule="true")
    if mres.outcome != "invariant" or mres.violated not in ("TypeSound", "CheckSound", "WrapNeutral"):
        raise MachineryError(f"selftest: TLC did not refute a lattice typing conditionals by their true value ({mres.outcome} {mres.violated})")
    print(f"selftest: mutated model (conditional typed by its true value) refuted by TLC: invariant {mres.violated}")
    print("selftest OK")


def main(argv=None):
    main_wrapper(PID, run, argv)
