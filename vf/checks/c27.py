"""C27 — Algorithms never mutate their inputs.

Model: every action of spec/UFLBuild.tla (expressions: constructors and passes) and of
spec/FormOps.tla (forms: operators, algorithms, observations) appends to the history and leaves every
existing entry unchanged (action property AppendOnly, checked by TLC).  Binding:
 (A) every UFLBuild program is replayed with an input guard: repr, hash, shape and free indices of
     every input object are taken before the public call and compared after it;
 (B) every FormOps history is replayed on real forms; after EVERY step every object created so far
     must still have the repr, hash, signature, arguments, coefficients and integral metadata it had
     when it was created (metadata dicts are the user's own dict objects, compared by deep copy).
"""

from __future__ import annotations

import copy
import os

from .. import replay as replay_mod
from .. import tlc
from ..builder import LIT, Slice, replay_doc, run_slices
from ..common import MachineryError, main_wrapper

F, G = ("f", ()), ("g", ())
U, V = ("u", (2,)), ("v", (2,))
A, B = ("A", (2, 2)), ("B", (2, 2))
PASSES = {"lower", "expand_indices", "remove_ct", "renumber", "remove_complex", "point_eval"}


def slices(tier):
    q = tier == "quick"
    ALL = {"add", "sub", "neg", "mul", "div", "pow", "abs", "index", "as_tensor", "list", "dot", "inner", "outer", "transpose", "tr", "det", "inv", "dev", "skew", "sym", "perp", "conj", "real", "imag", "lt", "cond", "max", "sign", "variable", "sqrt"}
    kw = dict(tiny=True)
    SS = {"abs", "conj", "real", "outer", "inner", "dot", "mul"}
    out = [
        Slice("ops2", [F, U], ALL, 2, idx=(10,), lits=[LIT["one"], LIT["zero"]], mikinds=("name", "fixed"), **kw),
        Slice("passes", [F, U, A], ALL, 3, idx=(10,), lits=[LIT["two"]], finalops=PASSES, only_final=True, levels=[{"index", "abs", "dot", "outer", "variable", "list", "lt"}, {"mul", "add", "inner", "cond", "as_tensor"}, PASSES], mikinds=("name", "fixed"), **kw),
        # operators whose constructors may return one of their operands or an existing node
        Slice("self-simplifying", [F, U, V], SS | {"imag", "neg", "transpose", "tr"}, 2, lits=[LIT["one"], LIT["zero"]], idx=(10,), mikinds=("fixed",), **kw),
        Slice("deep", [F, G, U, V, A], ALL, 7, idx=(10, 11), lits=[LIT["one"], LIT["two"], LIT["zero"]], zeros=[(2,)], finalops=PASSES, simulate=8 if q else 200, depth=8, **kw),
    ]
    if not q:
        out += [
            Slice("self-simplifying3", [F, U], SS, 3, lits=[LIT["one"]], idx=(10,), levels=[SS, SS, SS], mikinds=("fixed",), **kw),
            Slice("ops3", [F, U], ALL - {"det", "inv", "dev", "skew", "sym", "perp", "transpose", "tr"}, 3, idx=(10,), lits=[LIT["one"], LIT["zero"]], mikinds=("name", "fixed"), simulate=1500, depth=6, **kw),
            Slice("passes-wide", [F, U, V, A], ALL, 3, idx=(10, 11), lits=[LIT["two"], LIT["zero"]], finalops=PASSES, only_final=True, levels=[ALL - {"pow", "div", "sqrt"}, ALL - {"pow", "div", "sqrt", "det", "inv"}, PASSES], simulate=1500, depth=6, **kw),
        ]
    return out


# ---------------------------------------------------------------------------------------------
# (B) forms
# ---------------------------------------------------------------------------------------------

FORM_OPS_QUICK = ["derivative", "adjoint", "action", "lhs", "rhs", "functional", "replace", "neg", "scale", "unit_scale", "expand_derivatives", "lower", "renumber", "scaling", "restrictions", "remeasure", "signature", "hash", "repr", "form_data", "form_data_opts", "estimate_degree", "add", "sub", "eq", "equals"]


class FormWorld:
    def __init__(self):
        import ufl

        from ..elements import LagrangeElement, MixedElement

        self.ufl = ufl
        cell = ufl.triangle
        self.mesh = ufl.Mesh(LagrangeElement(cell, 1, (2,)))
        S = ufl.FunctionSpace(self.mesh, LagrangeElement(cell, 2))
        W = ufl.FunctionSpace(self.mesh, LagrangeElement(cell, 1, (2,)))
        self.S, self.W = S, W
        u, v = ufl.TrialFunction(S), ufl.TestFunction(S)
        f, g, w, c = (ufl.Coefficient(S) for _ in range(4))
        b = ufl.Coefficient(W)
        k = ufl.Constant(self.mesh)
        dx, ds, dS = ufl.dx, ufl.ds, ufl.dS
        self.md = [{"quadrature_degree": 2}, {"quadrature_degree": 3, "rule": {"scheme": "default"}}]
        self.md0 = copy.deepcopy(self.md)
        n = ufl.FacetNormal(self.mesh)
        h = ufl.CellDiameter(self.mesh)
        self.coefs = [f, g, w, c]
        self.init = [
            ("a", 2, ufl.inner(ufl.grad(u), ufl.grad(v)) * dx + c * u * v * dx(1, metadata=self.md[0]) + k * u * v * ds),
            ("L", 1, f * v * dx(metadata=self.md[1]) + g * v * ds(2) + ufl.dot(b, ufl.grad(v)) * dx),
            ("M", 0, f * g * dx + abs(f) * ds),
            ("F", 1, ufl.inner(ufl.grad(w), ufl.grad(v)) * dx + w**2 * v * dx(metadata=self.md[0]) - f * v * dx),
            ("eq", 2, u * v * dx + ufl.inner(ufl.grad(u), ufl.grad(v)) * dx - f * v * dx),
            ("dg", 2, ufl.jump(u) * ufl.jump(v) / ufl.avg(h) * dS + ufl.inner(ufl.avg(ufl.grad(u)), n("+")) * ufl.jump(v) * dS + u * v * dx),
            # a weighted sum of form-like objects that are not Forms (FormSum of cofunctions)
            ("fs", 1, 2 * ufl.Cofunction(S.dual()) + 3 * ufl.Cofunction(S.dual())),
        ]
        # two forms that differ ONLY in an argument slot of a nested external operator dN/du(u; ., v*): comparing them
        # must say "different" and must leave both as they are
        N = ufl.ExternalOperator(w, function_space=S)
        (vstar,) = N.argument_slots()

        def dN(direction):
            return ufl.ExternalOperator(w, function_space=S, derivatives=(1,), argument_slots=(vstar, direction))

        self.init += [
            ("ext-arg", 2, (ufl.sin(dN(u)) + w) * v * dx),
            ("ext-coef", 1, (ufl.sin(dN(g)) + w) * v * dx),
        ]
        # list-valued metadata entries (canonicalised recursively by the signature)
        self.md[1]["points"] = [[0.25, 0.5], [0.5, 0.25]]
        self.md[1]["weights"] = [0.25, 0.25]
        self.md0 = copy.deepcopy(self.md)

    def snapshot(self, x):
        ufl = self.ufl
        from ufl.form import Form

        if isinstance(x, Form):
            itgs = []
            for itg in x.integrals():
                itgs.append((itg.integral_type(), repr(itg.subdomain_id()), copy.deepcopy(itg.metadata()), repr(itg.integrand()), id(itg.integrand())))
            return ("form", repr(x), hash(x), x.signature(), tuple(repr(a) for a in x.arguments()), tuple(repr(c) for c in x.coefficients()), tuple(repr(c) for c in x.constants()), itgs)
        from ufl.form import BaseForm

        if isinstance(x, BaseForm):
            # the parts a FormSum / Action / ... is made of are lists held by the object: a later operation that
            # re-uses such a list (s + c3 appending to s's own components) changes them without changing repr or hash
            comps = tuple(repr(c) for c in getattr(x, "components", lambda: ())())
            opers = tuple(repr(o) for o in getattr(x, "ufl_operands", ()))
            try:
                coefs = tuple(repr(c) for c in x.coefficients())
            except Exception as exc:  # noqa: BLE001
                coefs = ("raises " + type(exc).__name__,)
            return ("baseform", repr(x), hash(x), tuple(repr(a) for a in x.arguments()), tuple(repr(w) for w in getattr(x, "weights", lambda: ())()), comps, opers, coefs)
        return ("other", repr(x))

    def apply(self, op, args):
        ufl = self.ufl
        x = args[0]
        y = args[1] if len(args) > 1 else None
        from ufl.algorithms import compute_form_data, estimate_total_polynomial_degree, expand_derivatives
        from ufl.algorithms.apply_algebra_lowering import apply_algebra_lowering
        from ufl.algorithms.apply_integral_scaling import apply_integral_scaling
        from ufl.algorithms.apply_restrictions import apply_restrictions
        from ufl.algorithms.renumbering import renumber_indices

        if op == "derivative":
            cs = x.coefficients()
            if not cs:
                raise ValueError("no coefficient to differentiate with respect to")
            return ufl.derivative(x, cs[-1])
        if op == "adjoint":
            return ufl.adjoint(x)
        if op == "action":
            return ufl.action(x, ufl.Coefficient(self.S))
        if op == "lhs":
            return ufl.lhs(x)
        if op == "rhs":
            return ufl.rhs(x)
        if op == "functional":
            return ufl.functional(x)
        if op == "replace":
            cs = x.coefficients()
            if not cs:
                raise ValueError("nothing to replace")
            return ufl.replace(x, {cs[0]: ufl.Coefficient(cs[0].ufl_function_space())})
        if op == "neg":
            return -x
        if op == "scale":
            return 2 * x
        if op == "unit_scale":
            return 1.0 * x
        if op == "expand_derivatives":
            return expand_derivatives(x)
        if op == "lower":
            return apply_algebra_lowering(x)
        if op == "renumber":
            return renumber_indices(x)
        if op == "scaling":
            return apply_integral_scaling(apply_algebra_lowering(x))
        if op == "restrictions":
            return apply_restrictions(apply_algebra_lowering(x))
        if op == "remeasure":
            # reconfigured measures that are handed the user's own metadata dicts together with degree= / scheme=
            itg = x.integrals()[0]
            m = ufl.Measure(itg.integral_type())
            return x + itg.integrand() * m(metadata=self.md[0], degree=1) + itg.integrand() * m(7, metadata=self.md[1], scheme="vertex")
        if op == "signature":
            return x.signature()
        if op == "hash":
            return hash(x)
        if op == "repr":
            return repr(x)
        if op == "form_data":
            return compute_form_data(x)
        if op == "form_data_opts":
            return compute_form_data(
                x,
                do_apply_function_pullbacks=True,
                do_apply_integral_scaling=True,
                do_apply_geometry_lowering=True,
                preserve_geometry_types=(ufl.classes.Jacobian,),
                do_apply_restrictions=True,
                do_estimate_degrees=True,
                do_append_everywhere_integrals=True,
            )
        if op == "estimate_degree":
            return estimate_total_polynomial_degree(x)
        if op == "add":
            return x + y
        if op == "sub":
            return x - y
        if op == "eq":
            return x == y
        if op == "equals":
            return x.equals(y)
        raise MachineryError("unknown form op " + op)


def form_histories(ctx, maxsteps, ops, workers=4):
    fw = FormWorld()
    init = "<<" + ", ".join(f'[name |-> "{n}", ar |-> {ar}, lin |-> TRUE]' for n, ar, _ in fw.init) + ">>"
    mc = f"""---- MODULE MC_FormOps ----
EXTENDS FormOps
MC_Init == {init}
MC_Ops == {{{", ".join('"' + o + '"' for o in ops)}}}
====
"""
    cfg = f"""CONSTANTS
InitForms <- MC_Init
Ops <- MC_Ops
MaxSteps = {maxsteps}
SPECIFICATION Spec
INVARIANT TypeOK
INVARIANT DumpInv
PROPERTY AppendOnly
"""
    res = tlc.run("MC_FormOps", cfg, mc_text=mc, mc_name="MC_FormOps", workers=workers, timeout=900)
    ctx.add_tlc(res)
    tlc.require_ok(res, "FormOps")
    return tlc.decode_prints(res)


def replay_history(ctx, hist, sample=False):
    """Returns number of steps executed."""
    from ufl.form import BaseForm, Form

    fw = FormWorld()
    pool = [f for _, _, f in fw.init]
    snaps = [fw.snapshot(f) for f in pool]
    steps = 0
    for k, st in enumerate(hist):
        args = [pool[i - 1] for i in st["args"]]
        if any(a is None for a in args):
            pool.append(None)
            snaps.append(None)
            continue
        try:
            r = fw.apply(st["op"], args)
        except MachineryError:
            raise
        except (Exception, _arity_mismatch()) as exc:  # noqa: BLE001 - a refusal creates nothing; inputs must still be intact
            r = None
            ctx.count("form_ops_refused:" + st["op"])
        steps += 1
        ctx.evaluated(len(pool))
        # every object created so far must be what it was (the user's metadata dicts included)
        for j, (obj, sn) in enumerate(zip(pool, snaps)):
            if obj is None:
                continue
            now = fw.snapshot(obj)
            if now != sn:
                what = _diff(sn, now)
                ctx.violation(
                    f"C27:form-mutated:{st['op']}:{what}",
                    f"{st['op']}({', '.join('#' + str(i) for i in st['args'])}) changed object #{j + 1} ({what}) in history {[h['op'] for h in hist[: k + 1]]}",
                    {"kind": "form-history", "hist": hist[: k + 1], "object": j + 1, "what": what},
                )
                snaps[j] = now
        if fw.md != fw.md0:
            ctx.violation(f"C27:user-metadata-dict-mutated:{st['op']}", f"{st['op']} changed a metadata dict passed to a measure: {fw.md0} -> {fw.md}", {"kind": "form-history", "hist": hist[: k + 1], "what": "user-metadata"})
            fw.md0 = copy.deepcopy(fw.md)
        if isinstance(r, BaseForm):
            try:
                if isinstance(r, Form) and len(r.arguments()) != st["ar"] and not r.empty():
                    ctx.count(f"arity_differs_from_model:{st['op']}")
                sn = fw.snapshot(r)
            except Exception:  # noqa: BLE001 - the result is not a well-formed form: nothing to track
                ctx.count("form_results_not_analysable:" + st["op"])
                r, sn = None, None
            pool.append(r)
            snaps.append(sn)
        else:
            pool.append(None)
            snaps.append(None)
    return steps


def _arity_mismatch():
    from ufl.algorithms.check_arities import ArityMismatch

    return ArityMismatch


def _diff(a, b):
    names = ["kind", "repr", "hash", "signature", "arguments", "coefficients", "constants", "integrals"]
    if a[0] == "baseform":
        names = ["kind", "repr", "hash", "arguments", "weights", "components", "operands", "coefficients"]
    for n, x, y in zip(names, a, b):
        if x != y:
            return n
    return "?"


def run(ctx, args):
    ctx.rule = (
        "(A) every UFLBuild program of the slices replayed with an input guard (repr/hash/shape/indices of every "
        "input before and after the public call); (B) every FormOps history (all operator sequences of length "
        "MaxSteps over 6 initial forms and 24 operations, data flow included) replayed on real forms with a full "
        "re-snapshot of every object after every step; case = program / history; non-trivial = at least one "
        "operation applied to a non-terminal input"
    )
    ctx.assume("observed attributes: repr, hash, signature, arguments, coefficients, constants, per-integral (type, subdomain id, metadata deep copy, integrand repr and identity), and the user's metadata dict objects")
    only = os.environ.get("VERIF_SLICES")
    sls = [sl for sl in slices(ctx.tier) if not only or sl.name in only.split(",")]
    if only != "forms":
        run_slices(ctx, sls, "C27", guard_inputs=True, on_mismatch=_only_mutation)
    if not only or only == "forms":
        q = ctx.tier == "quick"
        import random

        rng = random.Random(ctx.seed)
        hists = form_histories(ctx, 1, FORM_OPS_QUICK) + form_histories(ctx, 2, FORM_OPS_QUICK)
        if q:
            h1 = [h for h in hists if len(h) == 1]
            h2 = [h for h in hists if len(h) == 2]
            hists = h1 + rng.sample(h2, min(len(h2), 3000))
        else:
            h3 = form_histories(ctx, 3, [o for o in FORM_OPS_QUICK if o not in ("hash", "repr", "neg", "sub", "equals")])
            hists = hists + rng.sample(h3, min(len(h3), 40000))
        _parallel_histories(ctx, hists)
        ctx.sample({"form_history": hists[len(hists) // 2]})
        ctx.count("form_histories", len(hists))


class _Collector:
    """Stand-in for Ctx inside worker processes: records what the parent has to report."""

    def __init__(self):
        self.viol = []
        self.counts = {}
        self.evals = 0

    def violation(self, fp, what, replay):
        self.viol.append((fp, what, replay))

    def count(self, k, n=1):
        self.counts[k] = self.counts.get(k, 0) + n

    def evaluated(self, n=1):
        self.evals += n


def _work(hs):
    c = _Collector()
    done = []
    for h in hs:
        n = replay_history(c, h)
        done.append(n)
    return c.viol, c.counts, c.evals, done


def _parallel_histories(ctx, hists):
    import multiprocessing

    chunks = [hists[i : i + 100] for i in range(0, len(hists), 100)]
    with multiprocessing.get_context("fork").Pool(min(12, os.cpu_count() or 4)) as pool:
        for (viol, counts, evals, done), chunk in zip(pool.imap(_work, chunks), chunks):
            for fp, what, rp in viol:
                ctx.violation(fp, what, rp)
            for k, v in counts.items():
                ctx.count(k, v)
            ctx.evaluated(evals)
            for h, n in zip(chunk, done):
                ctx.traces(1)
                if n:
                    ctx.distinct("forms" + repr(h))


_OTHER = {}


def _only_mutation(rec, status, detail, w):
    """C27 judges mutation only; value/shape disagreements belong to C05/C06/C10 (ignored here)."""
    if status not in ("mismatch:input-mutated", "mismatch:cyclic-object", "mismatch:hang"):
        _OTHER[status] = _OTHER.get(status, 0) + 1
        if _OTHER[status] <= 3:
            print(f"  (not judged by C27) {status}: {replay_mod.prog_text(rec['prog'], w)} -> {detail}")
        return True
    return False


def replay(ctx, doc):
    r = doc["replay"]
    if r.get("kind") == "form-history":
        replay_history(ctx, r["hist"])
        return
    replay_doc(ctx, doc, "C27")


def main(argv=None):
    main_wrapper("C27", run, argv)
