"""C20 — type dispatch stays valid when new expression types are registered later.

Model: spec/Dispatch.tla (registry, the two per-class handler-table caches, algorithm objects holding
the table they copied; actions Register / Instantiate / Apply; Refresh = FALSE is the code as written,
Refresh = TRUE the intended behaviour; the specification of both is Nearest = handler of the nearest
ancestor that has one).

The check
 1. runs TLC exhaustively on the intended machine (invariants must hold: a spec failure is a machinery
    error) and on the machine as coded, one algorithm family at a time (MultiFunction and Transformer are
    expected to yield an IndexError counterexample, DAGTraverser none); each counterexample is replayed
    into the real code to show that the model explains the defect (informational once the code is
    repaired);
 2. lets TLC generate behaviours (complete enumerations of short interleavings and seeded random deep
    ones) together with the handler the specification demands for every Apply, and replays every
    behaviour into the real ufl inside a forked child process (registration mutates process-global
    state): Register = a new class created with @ufl_type deriving from a real UFL class,
    Instantiate = an object of a MultiFunction / Transformer / DAGTraverser subclass (harness-defined
    with a given handler set, or a real ufl algorithm class), Apply = x(o) / map_expr_dag(x, o) /
    x.visit(o).  Every observed handler is compared with the predicted one.
"""

from __future__ import annotations

import gc
import hashlib
import json
import os
import random
import sys
import time
import traceback
import warnings
from concurrent.futures import ThreadPoolExecutor

from .. import tlc
from ..common import MachineryError, main_wrapper

# ------------------------------------------------------------------------------------------------
# The abstraction of the registry: six real classes, closed under "ancestor" (so that for every type a
# behaviour can create, ALL registered ancestors are in the model), followed by the late types.
# (handler name, parent position (1-based, 0 = none), abstract, attribute of ufl.classes)
# ------------------------------------------------------------------------------------------------
BASE = [
    ("expr", 0, True, "Expr"),
    ("operator", 1, True, "Operator"),
    ("terminal", 1, True, "Terminal"),
    ("math_function", 2, True, "MathFunction"),
    ("sin", 4, False, "Sin"),
    ("label", 3, False, "Label"),
]
BASE_NAMES = [b[0] for b in BASE]
NEW = ["new1", "new2", "new3"]  # camel2underscore("New1") ...

# Harness-defined algorithm classes: kind, the handler names the class has (own + inherited from the ufl
# base class), and which of them are merely inherited (Transformer.terminal = reuse).
HARNESS_A = {
    "M1": {"kind": "MF", "defs": ["expr", "math_function", "new2"], "inherited": []},
    "T1": {"kind": "TR", "defs": ["terminal", "operator", "new1"], "inherited": ["terminal"]},
    "D1": {"kind": "DT", "defs": ["operator", "sin"], "inherited": []},
}
HARNESS_B = {
    "M2": {"kind": "MF", "defs": ["terminal", "sin", "new1", "new3"], "inherited": []},
    "T2": {"kind": "TR", "defs": ["terminal", "expr", "math_function", "new2"], "inherited": []},
    "D2": {"kind": "DT", "defs": ["expr", "terminal", "math_function"], "inherited": []},
}
# Real ufl algorithm classes (their handler sets are read off the classes, see _real_algs()).
REAL = {
    "LCA": {"kind": "MF", "real": "ufl.algorithms.apply_algebra_lowering:LowerCompoundAlgebra", "args": []},
    "SDE": {"kind": "MF", "real": "ufl.algorithms.estimate_degrees:SumDegreeEstimator", "args": [1, {}]},
    "REUSE": {"kind": "TR", "real": "ufl.algorithms.transformer:ReuseTransformer", "args": []},
    "COPY": {"kind": "TR", "real": "ufl.algorithms.transformer:CopyTransformer", "args": []},
    "PREC": {"kind": "DT", "real": "ufl.formatting.ufl2unicode:PrecedenceRules", "args": []},
}

FAMILY = {"MF": "multifunction", "TR": "transformer", "DT": "dagtraverser"}


# ------------------------------------------------------------------------------------------------
# TLC side
# ------------------------------------------------------------------------------------------------
def _mc_text(algs, nreg):
    def s(x):
        return '"' + x + '"'

    base = ",\n  ".join(
        f"[name |-> {s(n)}, parent |-> {p}, abstract |-> {'TRUE' if a else 'FALSE'}]" for n, p, a, _ in BASE
    )
    names = sorted(algs)
    kind = " @@ ".join(f"{s(a)} :> {s(algs[a]['kind'])}" for a in names)
    defs = " @@ ".join(f"{s(a)} :> {{{', '.join(s(d) for d in sorted(algs[a]['defs']))}}}" for a in names)
    return (
        "---- MODULE MC_Dispatch ----\nEXTENDS Dispatch\n"
        f"MC_Base == <<\n  {base} >>\n"
        f"MC_NewNames == <<{', '.join(s(n) for n in NEW[:nreg])}>>\n"
        f"MC_Algs == {{{', '.join(s(a) for a in names)}}}\n"
        f"MC_Kind == ({kind})\n"
        f"MC_Defs == ({defs})\n"
        "====\n"
    )


def _cfg(refresh, maxinst, mode, maxhist=0):
    """mode: 'full' (all invariants, states up to history), 'state' (state invariants only, states up
    to history and last observation), 'apply' (only the two invariants on the last Apply), 'emit'."""
    out = [
        "CONSTANTS Base <- MC_Base",
        "NewNames <- MC_NewNames",
        "Algs <- MC_Algs",
        "Kind <- MC_Kind",
        "Defs <- MC_Defs",
        f"MaxInst = {maxinst}",
        f"Refresh = {'TRUE' if refresh else 'FALSE'}",
        f"MaxHist = {maxhist}",
        "SPECIFICATION Spec",
    ]
    if mode == "emit":
        out += ["CONSTRAINT HistBound", "INVARIANT Emit"]
    elif mode == "emit1":  # behaviours that use a single algorithm class
        out += ["CONSTRAINT HistBound", "CONSTRAINT OneClass", "INVARIANT Emit"]
    elif mode == "apply":
        out += ["VIEW View", "INVARIANT ApplyInRange", "INVARIANT NearestHandler"]
    elif mode == "state":
        out += ["VIEW ViewNoObs", "INVARIANT TypeOK", "INVARIANT EntriesSound", "INVARIANT OrderIndependent"]
    else:
        out += [
            "VIEW View",
            "INVARIANT TypeOK",
            "INVARIANT EntriesSound",
            "INVARIANT ApplyInRange",
            "INVARIANT NearestHandler",
            "INVARIANT OrderIndependent",
        ]
    return "\n".join(out) + "\n"


class _Job:
    """One TLC invocation."""

    def __init__(self, label, algs, nreg, maxinst, refresh, mode, *, maxhist=0, simulate=None, seed=None, workers=4, coverage=False, timeout=1500):
        self.label = label
        self.algs = algs
        self.nreg = nreg
        self.maxinst = maxinst
        self.refresh = refresh
        self.mode = mode
        self.maxhist = maxhist
        self.simulate = simulate
        self.seed = seed
        self.workers = workers
        self.coverage = coverage
        self.timeout = timeout
        self.res = None

    def run(self):
        kw = {}
        if self.simulate:
            kw = dict(simulate=f"num={self.simulate}", depth=self.maxhist + 1, seed=self.seed)
        self.res = tlc.run(
            "Dispatch",
            _cfg(self.refresh, self.maxinst, self.mode, self.maxhist),
            mc_text=_mc_text(self.algs, self.nreg),
            mc_name="MC_Dispatch",
            workers=self.workers,
            coverage=self.coverage,
            timeout=self.timeout,
            **kw,
        )
        return self


def _actions(res):
    """Per-action transition counts of a -coverage run (also lines that carry a sub-location)."""
    import re

    out = {}
    for m in re.finditer(r"^<(\w+) line [^>]*>: (\d+):(\d+)", res.stdout, re.M):
        out[m.group(1)] = max(out.get(m.group(1), 0), int(m.group(3)))
    return out


def _behaviours(job):
    """Decode the histories a job printed (deterministic order)."""
    res = job.res
    if res.outcome != "ok":
        tlc.require_ok(res, job.label)
    try:
        hs = tlc.decode_prints(res)
    except Exception as e:  # noqa: BLE001
        raise MachineryError(f"{job.label}: cannot decode emitted histories: {e}")
    if job.simulate:
        # one worker + fixed seed: reproducible.  TLC picks an action at random and evaluates Emit on
        # every candidate successor of that action, so a walk whose last action is an Apply yields
        # several behaviours that differ in the last event only (and the other walks none): keep at
        # most two per walk.
        per = {}
        keep = []
        for h in hs:
            k = json.dumps(h[:-1], sort_keys=True)
            per[k] = per.get(k, 0) + 1
            if per[k] <= 2:
                keep.append(h)
        if len(per) * 3 < job.simulate:
            raise MachineryError(f"{job.label}: only {len(per)} of {job.simulate} random walks ended in an Apply")
        hs = keep
    else:
        hs = sorted(hs, key=lambda h: json.dumps(h, sort_keys=True))
    if not hs:
        raise MachineryError(f"{job.label}: TLC emitted no behaviour")
    return hs


# ------------------------------------------------------------------------------------------------
# Real-code side.  Everything below _execute runs inside a forked child.
# ------------------------------------------------------------------------------------------------
def _import(path):
    import importlib

    mod, _, name = path.partition(":")
    return getattr(importlib.import_module(mod), name)


def _real_algs():
    """Handler sets of the real algorithm classes, read off the classes (no instantiation)."""
    import ufl.classes as C

    out = {}
    for a, spec in REAL.items():
        cls = _import(spec["real"])
        if spec["kind"] == "DT":
            reg = cls.__dict__["process"].dispatcher.registry
            defs = [n for n, _, _, attr in BASE if getattr(C, attr) in reg]
        else:
            defs = [n for n in BASE_NAMES + NEW if hasattr(cls, n)]
        out[a] = dict(spec, defs=defs, inherited=[])
    return out


def _check_binding():
    """The abstraction BASE must describe the real registry (else every prediction is void)."""
    import ufl  # noqa: F401
    import ufl.classes as C
    from ufl.core.expr import Expr
    from ufl.utils.formatting import camel2underscore

    if len(set(Expr._ufl_all_classes_)) != len(Expr._ufl_all_classes_) or len(Expr._ufl_all_classes_) != Expr._ufl_num_typecodes_:
        raise MachineryError("registry is not a duplicate-free list indexed by typecode")
    for pos, (name, parent, abstract, attr) in enumerate(BASE, 1):
        cls = getattr(C, attr)
        if cls._ufl_handler_name_ != name or bool(cls._ufl_is_abstract_) != abstract:
            raise MachineryError(f"BASE entry {name} does not describe ufl.classes.{attr}")
        if Expr._ufl_all_classes_[cls._ufl_typecode_] is not cls:
            raise MachineryError(f"{attr} is not at its typecode")
        anc = [c for c in cls.mro()[1:] if isinstance(c, type(Expr)) and issubclass(c, Expr)]
        # ancestor-closed: the chain of registered ancestors of the class is exactly the model's chain
        chain = []
        p = parent
        while p:
            chain.append(getattr(C, BASE[p - 1][3]))
            p = BASE[p - 1][1]
        if anc != chain:
            raise MachineryError(f"registered ancestors of {attr} are {anc}, model says {chain}")
    for i, n in enumerate(NEW, 1):
        if camel2underscore(f"New{i}") != n:
            raise MachineryError("handler names of the late types")


_UTILS = []


def _test_utils():
    """test/utils.py of the ufl tree under test (loaded once, before any fork)."""
    if not _UTILS:
        import importlib.util

        import ufl

        path = os.path.join(os.path.dirname(os.path.dirname(ufl.__file__)), "test", "utils.py")
        sp = importlib.util.spec_from_file_location("c20_ufl_test_utils", path)
        mod = importlib.util.module_from_spec(sp)
        sp.loader.exec_module(mod)
        _UTILS.append(mod)
    return _UTILS[0]


class _Env:
    """The real-code interpretation of one behaviour (lives in a forked child)."""

    def __init__(self, algs):
        import ufl
        import ufl.classes as C
        from ufl.core.expr import Expr

        warnings.simplefilter("ignore")
        self.ufl = ufl
        self.types = [None] + [getattr(C, b[3]) for b in BASE]
        self.n0 = len(Expr._ufl_all_classes_)
        self.Expr = Expr
        # a P2 coefficient as the operand of operator objects (element class: the repository's own
        # test helper, ufl ships no concrete element)
        U = _test_utils()
        mesh = ufl.Mesh(U.LagrangeElement(ufl.triangle, 1, (2,)))
        self.operand = ufl.Coefficient(ufl.FunctionSpace(mesh, U.LagrangeElement(ufl.triangle, 2)))
        self.algs = algs
        self.classes = {a: self._alg_class(a, spec) for a, spec in sorted(algs.items())}
        self.objs = {a: [] for a in algs}

    # ---- Register ----------------------------------------------------------------------------
    def register(self, t, p):
        from ufl.classes import MathFunction, Operator, Terminal
        from ufl.core.ufl_type import ufl_type

        if t != len(self.types):
            raise MachineryError("registration order")
        parent = self.types[p]
        name = f"New{t - len(BASE)}"
        ns = {"__slots__": (), "__doc__": f"Late type {name}."}
        if parent is Operator:

            def __init__(self, arg):
                Operator.__init__(self, (arg,))

            def __str__(self):
                return f"{type(self).__name__}({self.ufl_operands[0]})"

            ns.update(__init__=__init__, __str__=__str__)
            kw = dict(num_ops=1, is_scalar=True)
        elif parent is Terminal:

            def __init__(self):
                Terminal.__init__(self)

            def ufl_domains(self):
                return ()

            ns.update(__init__=__init__, ufl_domains=ufl_domains)
            kw = dict(is_scalar=True)
        elif parent is MathFunction:

            def __init__(self, arg):
                MathFunction.__init__(self, name.lower(), arg)

            ns.update(__init__=__init__)
            kw = dict(is_scalar=True)
        else:
            kw = dict(is_scalar=bool(parent._ufl_is_scalar_))
        if parent._ufl_is_terminal_:

            def __repr__(self):
                return f"{type(self).__name__}({getattr(self, '_count', '')})"

            ns.update(__repr__=__repr__, __str__=__repr__)
        cls = ufl_type(**kw)(type(parent)(name, (parent,), ns))
        if cls._ufl_handler_name_ != NEW[t - len(BASE) - 1]:
            raise MachineryError("handler name of a late type")
        if cls._ufl_typecode_ != self.n0 + (t - len(BASE) - 1) or self.Expr._ufl_all_classes_[cls._ufl_typecode_] is not cls:
            raise MachineryError("typecode of a late type")
        self.types.append(cls)

    def node(self, t):
        cls = self.types[t]
        return cls() if cls._ufl_is_terminal_ else cls(self.operand)

    # ---- algorithm classes -------------------------------------------------------------------
    def _alg_class(self, a, spec):
        from functools import singledispatchmethod

        from ufl.algorithms.transformer import Transformer
        from ufl.corealg.dag_traverser import DAGTraverser
        from ufl.corealg.multifunction import MultiFunction

        if "real" in spec:
            cls = _import(spec["real"])
            # precondition of a behaviour: the class has not been used in this process (the only
            # place where the harness looks at a private attribute; tolerated to be absent)
            if cls in getattr(MultiFunction, "_handlers_cache", {}) or cls in getattr(Transformer, "_handlers_cache", {}):
                raise MachineryError(f"{cls.__name__} was already used in this process")
            return cls

        def handler(name):
            def h(self, o):  # two parameters: a cutoff handler / a pre-order handler
                return name

            h.__name__ = name
            return h

        own = [d for d in spec["defs"] if d not in spec["inherited"]]
        if spec["kind"] in ("MF", "TR"):
            # "coefficient": the operand of operator objects (outside the model's universe)
            ns = {d: handler(d) for d in own + ["coefficient"]}
            return type(a, (MultiFunction if spec["kind"] == "MF" else Transformer,), ns)

        class Alg(DAGTraverser):
            @singledispatchmethod
            def process(self, o, **kwargs):
                return super().process(o, **kwargs)

        for d in own:

            def rule(self, o, _d=d, **kwargs):
                return _d

            Alg.process.register(self.types[BASE_NAMES.index(d) + 1])(rule)
        Alg.__name__ = a
        return Alg

    # ---- Instantiate -------------------------------------------------------------------------
    def instantiate(self, a, k):
        if k != len(self.objs[a]) + 1:
            raise MachineryError("instance numbering")
        self.objs[a].append(self.classes[a](*self.algs[a].get("args", [])))

    # ---- Apply -------------------------------------------------------------------------------
    @staticmethod
    def _outcome(f):
        try:
            return ("ok", f())
        except Exception as e:  # noqa: BLE001
            return ("raise", type(e).__name__, str(e))

    @staticmethod
    def _same(x, y):
        if x[0] != y[0]:
            return False
        if x[0] == "raise":
            return x[1:] == y[1:]
        a, b = x[1], y[1]
        try:
            return a is b or (type(a) is type(b) and bool(a == b))
        except Exception:  # noqa: BLE001
            return False

    def apply(self, a, k, t, via, want):
        from ufl.corealg.map_dag import map_expr_dag

        x = self.objs[a][k - 1]
        o = self.node(t)
        kind = self.algs[a]["kind"]
        real = "real" in self.algs[a]
        opres = None
        if via == "call" and kind == "MF":
            if real:
                # results for the operands (all of early types), the way map_expr_dag supplies them
                opres = [map_expr_dag(x, u) for u in o.ufl_operands]
                got = self._outcome(lambda: x(o, *self._args(x, want, opres)))
            else:
                got = self._outcome(lambda: x(o))
        elif via == "dag":
            got = self._outcome(lambda: map_expr_dag(x, o))
        elif via == "visit":
            got = self._outcome(lambda: x.visit(o))
        elif via == "call":
            got = self._outcome(lambda: x(o))
        else:
            raise MachineryError("via")
        if got[0] == "raise" and got[1] == "IndexError":
            return "IndexError"
        if not real:
            if got[0] == "ok":
                if isinstance(got[1], str):
                    return "ok:" + got[1]
                if got[1] is o and "terminal" in self.algs[a]["inherited"]:
                    return "ok:terminal"  # Transformer.terminal = reuse
                return "raise:result:" + repr(got[1])[:80]
            # the documented fallback: MultiFunction.undefined / Transformer.undefined / DAGTraverser.process
            cn = type(o).__name__
            if got[1:] == ("ValueError", f"No handler defined for {cn}.") or (kind == "DT" and got[1] == "AssertionError" and got[2].startswith("Rule not set for")):
                return "ok:ufl_type"
            return f"raise:{got[1]}:{got[2][:80]}"
        # real class: the result must be what the handler of the nearest ancestor gives
        exp = self._outcome(lambda: self._direct(x, o, kind, want, opres))
        if self._same(got, exp):
            return "ok:" + want
        return f"differs:{self._show(got)}!={self._show(exp)}"

    @staticmethod
    def _show(r):
        return (r[0] + ":" + (repr(r[1]) if r[0] == "ok" else f"{r[1]}:{r[2]}"))[:90]

    @staticmethod
    def _args(x, want, opres):
        """Arguments after `o` that the specified handler takes (cutoff handlers take none)."""
        from ufl.corealg.multifunction import get_num_args

        return [] if get_num_args(getattr(x, want)) == 2 else opres

    def _direct(self, x, o, kind, want, opres):
        """Call the handler the specification names, bypassing the dispatch tables."""
        from ufl.algorithms.transformer import is_post_handler
        from ufl.corealg.map_dag import map_expr_dag
        from ufl.corealg.multifunction import get_num_args

        if kind == "DT":
            import ufl.classes as C

            reg = type(x).__dict__["process"].dispatcher.registry
            key = object if want == "ufl_type" else (getattr(C, BASE[BASE_NAMES.index(want)][3]))
            return reg[key](x, o)
        h = getattr(x, want)
        if kind == "TR":
            return h(o, *map(x.visit, o.ufl_operands)) if is_post_handler(h) else h(o)
        if get_num_args(h) == 2:
            return h(o)
        if opres is None:
            opres = [map_expr_dag(x, u) for u in o.ufl_operands]
        return h(o, *opres)


def _execute(doc):
    env = _Env(doc["algs"])
    out = []
    for ev in doc["events"]:
        if ev["op"] == "register":
            env.register(ev["t"], ev["i"])
        elif ev["op"] == "instantiate":
            env.instantiate(ev["alg"], ev["i"])
        elif ev["op"] == "apply":
            out.append(env.apply(ev["alg"], ev["i"], ev["t"], ev["via"], ev["want"]))
        else:
            raise MachineryError("event")
    return out


_FROZEN = []


def _prepare_fork():
    """Load everything a child needs and freeze the heap: a child that runs the cyclic collector (or
    merely imports) touches every page of the parent's heap, which makes a fork cost ~100 ms."""
    if not _FROZEN:
        _test_utils()
        for spec in REAL.values():
            _import(spec["real"])
        import ufl.algorithms.transformer  # noqa: F401
        import ufl.corealg.dag_traverser  # noqa: F401
        import ufl.corealg.map_dag  # noqa: F401

        gc.collect()
        gc.freeze()
        _FROZEN.append(True)


def _isolated(doc):
    """Run one behaviour in a forked child; returns {'results': [...]} or {'error': ...}."""
    _prepare_fork()
    r, w = os.pipe()
    pid = os.fork()
    if pid == 0:
        try:
            gc.disable()
            os.close(r)
            try:
                out = {"results": _execute(doc)}
            except BaseException as e:  # noqa: BLE001
                out = {"error": f"{type(e).__name__}: {e}", "tb": traceback.format_exc()[-1500:]}
            with os.fdopen(w, "w") as f:
                json.dump(out, f)
        finally:
            os._exit(0)
    os.close(w)
    with os.fdopen(r) as f:
        data = f.read()
    os.waitpid(pid, 0)
    if not data:
        return {"error": "child process died without a result"}
    return json.loads(data)


_CONFIGS = {}  # name -> algs; filled before the pool forks


def _pool_task(item):
    cfg, events = item
    return _isolated({"algs": _CONFIGS[cfg], "events": events})


# ------------------------------------------------------------------------------------------------
# Comparison
# ------------------------------------------------------------------------------------------------
def _used_before(events, n):
    """Was the class of the n-th event (an Apply) instantiated before the applied type was registered?"""
    ev = events[n]
    reg_at = -1  # early types: registered before everything
    for j, e in enumerate(events[:n]):
        if e["op"] == "register" and e["t"] == ev["t"]:
            reg_at = j
    first = next((j for j, e in enumerate(events[:n]) if e["op"] == "instantiate" and e["alg"] == ev["alg"]), None)
    return first is not None and first < reg_at


def _judge(algs, events, results):
    """Compare the observations with the intended prediction.  -> (list of mismatches, stats)."""
    applies = [n for n, e in enumerate(events) if e["op"] == "apply"]
    if len(applies) != len(results):
        raise MachineryError("number of observations")
    bad = []
    st = {"applies": 0, "late": 0, "stale": 0, "coded_agree": 0}
    for n, obs in zip(applies, results):
        ev = events[n]
        kind = algs[ev["alg"]]["kind"]
        fam = FAMILY[kind]
        late = ev["t"] > len(BASE)
        stale = late and _used_before(events, n)
        st["applies"] += 1
        st["late"] += late
        st["stale"] += stale
        coded = "IndexError" if ev["out"] == "IndexError" else "ok:" + ev["h"]
        st["coded_agree"] += obs == coded
        if obs == "ok:" + ev["want"]:
            continue
        if obs == "IndexError":
            if kind == "MF":
                fp = "C20:multifunction-stale-cache-indexerror" if stale else "C20:multifunction-indexerror-without-prior-use"
                if ev["via"] == "dag":
                    fp += ":map_expr_dag"
            elif kind == "TR":
                fp = "C20:transformer-stale-cache-indexerror" if stale else "C20:transformer-frozen-class-list-indexerror"
            else:
                fp = f"C20:{fam}-indexerror"
        elif obs.startswith("ok:") or obs.startswith("differs:"):
            fp = f"C20:{fam}-wrong-handler"
        else:
            fp = f"C20:{fam}-unexpected-{obs.split(':')[1]}"
        tname = (BASE_NAMES + NEW)[ev["t"] - 1]
        what = (
            f"{ev['alg']} ({fam}) object #{ev['i']} applied via {ev['via']} to an object of type {tname}"
            f"{' registered after the class was first used' if stale else ''}: observed {obs}, specified handler {ev['want']}"
        )
        bad.append((fp, what, n))
    return bad, st


def _show(events):
    names = BASE_NAMES + NEW
    out = []
    for e in events:
        if e["op"] == "register":
            out.append(f"R({names[e['t'] - 1]}<{names[e['i'] - 1]})")
        elif e["op"] == "instantiate":
            out.append(f"I({e['alg']}#{e['i']})")
        else:
            out.append(f"A({e['alg']}#{e['i']},{names[e['t'] - 1]},{e['via']})={e['want']}")
    return " ".join(out)


def _make_pool(configs):
    """16 worker processes, forked while this process is still single-threaded; every behaviour is
    then run in a fresh fork of one of the workers."""
    import multiprocessing

    _CONFIGS.update(configs)
    _prepare_fork()
    return multiprocessing.get_context("fork").Pool(16)


def _replay_all(ctx, pool, batches):
    """batches: list of (cfg name, algs, source label, [events...]).  Replays everything in forked
    children (each behaviour in its own fork) and judges."""
    items = []
    for cfg, algs, label, hs in batches:
        if _CONFIGS.get(cfg) != algs:
            raise MachineryError("configuration unknown to the pool")
        items += [(cfg, label, h) for h in hs]
    t0 = time.time()
    outs = pool.map(_pool_task, [(c, h) for c, _, h in items], chunksize=4)
    tot = {"applies": 0, "late": 0, "stale": 0, "coded_agree": 0}
    fps = ctx.cov.setdefault("mismatches_by_fingerprint", {})
    for (cfg, label, h), out in zip(items, outs):
        if "error" in out:
            raise MachineryError(f"replay of {_show(h)} [{cfg}] failed in the harness: {out['error']}\n{out.get('tb', '')}")
        bad, st = _judge(_CONFIGS[cfg], h, out["results"])
        for k in tot:
            tot[k] += st[k]
        ctx.traces(1)
        ctx.evaluated(st["applies"])
        ctx.count("behaviours_" + label)
        if st["late"]:
            ctx.distinct(cfg + json.dumps(h, sort_keys=True))
        for fp, what, n in bad:
            fps[fp] = fps.get(fp, 0) + 1
            ctx.violation(fp, what, {"algs": _CONFIGS[cfg], "events": h, "failing_event": n, "observed": out["results"]})
    ctx.count("applies_to_late_types", tot["late"])
    ctx.count("applies_to_types_registered_after_first_use_of_the_class", tot["stale"])
    ctx.count("applies_where_real_code_equals_as_coded_model", tot["coded_agree"])
    ctx.count("applies_total", tot["applies"])
    ctx.cov["replay_wall_s"] = round(ctx.cov.get("replay_wall_s", 0) + time.time() - t0, 2)
    if not tot["stale"] or not tot["late"]:
        raise MachineryError("vacuous: no behaviour applies an object to a type registered after the class was first used")
    return tot


# ------------------------------------------------------------------------------------------------
# The run
# ------------------------------------------------------------------------------------------------
def _single(algs, a):
    return {a: algs[a]}


def _plan(ctx, real):
    q = ctx.tier == "quick"
    A, B = HARNESS_A, HARNESS_B
    seed = 1000 + ctx.seed
    intended, coded, emit = [], [], []
    if q:
        # one exhaustive run in the quick tier (all invariants); the 3-registration / 2-object bounds and
        # the per-action coverage are part of the thorough tier
        intended += [_Job("intended A full 2reg 1inst", A, 2, 1, True, "full", workers=8)]
        for a in ("M1", "T1", "D1"):
            coded.append(_Job(f"coded {a}", _single(A, a), 3, 2, False, "apply", workers=2))
        emit.append(("A", A, "enumerated", _Job("enumerate A one class L3", A, 1, 2, False, "emit1", maxhist=3, workers=2)))
        emit.append(("A", A, "random", _Job("simulate A d12", A, 3, 2, False, "emit", maxhist=12, simulate=25, seed=seed, workers=1)))
        emit.append(("R", real, "random_real", _Job("simulate real d12", real, 3, 2, False, "emit", maxhist=12, simulate=25, seed=seed + 1, workers=1)))
    else:
        intended += [
            _Job("intended A state 3reg 2inst", A, 3, 2, True, "state", workers=12, coverage=True),
            _Job("intended A full 3reg 1inst", A, 3, 1, True, "full", workers=8, coverage=True),
            _Job("intended B state 2reg 2inst", B, 2, 2, True, "state", workers=4, coverage=True),
            _Job("intended real state 2reg 1inst", real, 2, 1, True, "state", workers=4, coverage=True),
        ]
        for X in (A, B):
            for a in sorted(X):
                coded.append(_Job(f"coded {a}", _single(X, a), 3, 2, False, "apply", workers=2))
        for a in ("SDE", "REUSE", "PREC"):
            coded.append(_Job(f"coded {a}", _single(real, a), 3, 2, False, "apply", workers=2))
        for nm, X, L in (("A", A, 4), ("B", B, 3)):
            emit.append((nm, X, "enumerated", _Job(f"enumerate {nm} one class L{L}", X, 1, 2, False, "emit1", maxhist=L, workers=4)))
            emit.append((nm, X, "random", _Job(f"simulate {nm} d14", X, 3, 2, False, "emit", maxhist=14, simulate=300, seed=seed, workers=1)))
            emit.append((nm, X, "random", _Job(f"simulate {nm} d22", X, 3, 2, False, "emit", maxhist=22, simulate=60, seed=seed + 7, workers=1)))
        emit.append(("R", real, "enumerated_real", _Job("enumerate real one class L3", real, 1, 2, False, "emit1", maxhist=3, workers=4)))
        emit.append(("R", real, "random_real", _Job("simulate real d14", real, 3, 2, False, "emit", maxhist=14, simulate=300, seed=seed + 1, workers=1)))
        emit.append(("R", real, "random_real", _Job("simulate real d22", real, 3, 2, False, "emit", maxhist=22, simulate=60, seed=seed + 8, workers=1)))
    return intended, coded, emit


def _trace_events(res):
    """The history recorded in the last state of a counterexample."""
    st = tlc.parse_state(res.trace[-1][1])
    return st["hist"]


def run(ctx, args):
    _check_binding()
    real = _real_algs()
    if args.selftest:
        return _selftest(ctx, real)
    ctx.rule = (
        "a case is one behaviour generated by TLC from spec/Dispatch.tla (a sequence of Register(parent) / Instantiate(class) / "
        "Apply(object, type, path) with the handler the specification demands for each Apply), replayed into the real ufl in a forked "
        "process; complete enumerations of all behaviours of a fixed short length ending in an Apply, and seeded random walks of depth "
        "12-22; non-trivial = the behaviour applies an algorithm object to a type registered during the behaviour; distinct = different "
        "event sequence"
    )
    ctx.assume("the six early types Expr > Operator > MathFunction > Sin and Expr > Terminal > Label stand for the import-time registry (the chain of registered ancestors of each is verified against the real classes); late types are created with @ufl_type under Operator, Terminal, MathFunction, Sin, Label or an earlier late type")
    ctx.assume("algorithm classes define their handlers before first use (attributes are not added to an algorithm class after an object of it exists)")
    ctx.assume("functools.singledispatch (DAGTraverser) is trusted; its per-class dispatch cache is not modelled")
    ctx.assume("for real ufl algorithm classes the handler that ran is identified by result equality with a direct call of the specified handler")
    ctx.assume("the element class for the operand coefficient comes from the repository's test/utils.py")

    intended, coded, emit = _plan(ctx, real)
    # the pool is forked before any thread exists; afterwards this process never forks a behaviour itself
    pool = _make_pool({"A": HARNESS_A, "B": HARNESS_B, "R": real})
    ex = ThreadPoolExecutor(max_workers=8 if ctx.tier == "quick" else 6)
    try:
        # long exhaustive runs first (they are the long pole), then the emission runs, then the small ones
        order = intended + [e[3] for e in emit] + coded
        futs = {id(j): ex.submit(j.run) for j in order}

        # ---- 2. replay TLC-generated behaviours into the real code (as soon as they are there)
        batches = []
        seen = set()
        for cfg, algs, label, j in emit:
            futs[id(j)].result()
            ctx.add_tlc(j.res)
            keep = []
            for h in _behaviours(j):
                key = hashlib.blake2b((cfg + json.dumps(h, sort_keys=True)).encode(), digest_size=10).digest()
                if key not in seen:
                    seen.add(key)
                    keep.append(h)
            batches.append((cfg, algs, label, keep))
        tot = _replay_all(ctx, pool, batches)
        rnd = random.Random(ctx.seed)
        for cfg, algs, label, hs in batches:
            if hs and len(ctx.cov["samples"]) < 5:
                ctx.sample({"source": label, "classes": {a: s["defs"] for a, s in algs.items()}, "behaviour": _show(rnd.choice(hs))})
        print(
            f"  replayed {ctx.cov['traces_validated_against_impl']} behaviours, {tot['applies']} Apply observations "
            f"({tot['late']} on late types, {tot['stale']} on types registered after first use of the class; "
            f"{tot['coded_agree']} equal to the as-coded model)",
            flush=True,
        )

        # ---- 1b. the machine as coded: the model must explain the defect
        coded_info = []
        for j in coded:
            futs[id(j)].result()
            ctx.add_tlc(j.res)
            (a,) = j.algs
            kind = j.algs[a]["kind"]
            info = {"class": a, "family": FAMILY[kind], "tlc": j.res.outcome, "violated": j.res.violated}
            if kind == "DT":
                if j.res.outcome != "ok":
                    raise MachineryError(f"{j.label}: the DAGTraverser model has no table, yet TLC reports {j.res.outcome}")
            else:
                if j.res.outcome != "invariant" or j.res.violated != "ApplyInRange":
                    raise MachineryError(f"{j.label}: the as-coded model must violate ApplyInRange, TLC says {j.res.outcome} {j.res.violated}\n" + j.res.stdout[-1500:])
                events = _trace_events(j.res)
                last = events[-1]
                out = pool.apply(_isolated, ({"algs": j.algs, "events": events},))
                if "error" in out:
                    raise MachineryError(f"{j.label}: replay of the counterexample failed in the harness: {out['error']}\n{out.get('tb', '')}")
                info["counterexample"] = _show(events)
                info["model_outcome"] = last["out"]
                info["real_outcome"] = out["results"][-1]
                info["reproduced_in_real_code"] = out["results"][-1] == "IndexError"
                ctx.traces(1)
                if info["reproduced_in_real_code"]:
                    ctx.count("coded_model_counterexamples_reproduced")
                    print(f"  as-coded model counterexample reproduced in the real code: {info['counterexample']} -> IndexError", flush=True)
                else:
                    # informational: the real code no longer behaves like the as-coded model (repaired)
                    ctx.count("coded_model_counterexamples_not_reproduced")
                    print(f"  as-coded model counterexample NOT reproduced (real code: {info['real_outcome']}): {info['counterexample']}", flush=True)
            coded_info.append(info)
        ctx.cov["as_coded_model"] = coded_info

        # ---- 1a. the intended machine satisfies the property for all interleavings within the bounds
        for j in intended:
            futs[id(j)].result()
            ctx.add_tlc(j.res)
            if j.res.outcome != "ok":
                tlc.require_ok(j.res, j.label)  # the specification itself is wrong: machinery error
            if j.coverage:
                taken = _actions(j.res)
                for act in ("Register", "Instantiate", "Apply"):
                    # (TLC names an action after the enclosing definition when the quantifier bound is a state function)
                    if not (taken.get(act) or taken.get("Do" + act)):
                        raise MachineryError(f"{j.label}: action {act} never taken (vacuous)")
            elif j.res.distinct < 1000 or j.res.depth < 2 + j.nreg + j.maxinst:
                # without -coverage: the state graph must at least be as deep as all registrations, one
                # object per class and one Apply
                raise MachineryError(f"{j.label}: suspiciously small state graph ({j.res.distinct} states, depth {j.res.depth})")
        ctx.cov["exhaustive"] = False  # the model is checked exhaustively within bounds; the real code is sampled
    finally:
        pool.terminate()
        ex.shutdown(wait=True, cancel_futures=True)


# ------------------------------------------------------------------------------------------------
# Self test: the comparison must reject corrupted predictions / observations
# ------------------------------------------------------------------------------------------------
def _selftest(ctx, real):
    j = _Job("selftest simulate", HARNESS_A, 3, 2, False, "emit", maxhist=10, simulate=40, seed=5, workers=1)
    j.run()
    hs = _behaviours(j)
    rejected = tried = 0
    for h in hs:
        out = _isolated({"algs": HARNESS_A, "events": h})
        if "error" in out:
            raise MachineryError(out["error"])
        bad0, _ = _judge(HARNESS_A, h, out["results"])
        flagged0 = {n for _, _, n in bad0}
        applies = [n for n, e in enumerate(h) if e["op"] == "apply"]
        for pos, n in enumerate(applies):
            if n in flagged0:
                continue
            # (a) corrupt the predicted handler
            h2 = json.loads(json.dumps(h))
            h2[n]["want"] = "label" if h2[n]["want"] != "label" else "expr"
            bad, _ = _judge(HARNESS_A, h2, out["results"])
            tried += 1
            rejected += any(m == n and fp.endswith("-wrong-handler") for fp, _, m in bad)
            # (b) corrupt the observation
            res2 = list(out["results"])
            res2[pos] = "IndexError"
            bad, _ = _judge(HARNESS_A, h, res2)
            tried += 1
            rejected += any(m == n and "indexerror" in fp for fp, _, m in bad)
    print(f"selftest: {rejected}/{tried} corrupted predictions/observations rejected", flush=True)
    if not tried or rejected != tried:
        raise MachineryError("selftest: a corrupted prediction was accepted")
    print("SELFTEST-OK", flush=True)
    sys.exit(0)


def replay(ctx, doc):
    _check_binding()
    r = doc["replay"]
    out = _isolated({"algs": r["algs"], "events": r["events"]})
    print("behaviour:", _show(r["events"]))
    if "error" in out:
        print("harness error:", out["error"])
        print(out.get("tb", ""))
        sys.exit(2)
    bad, _ = _judge(r["algs"], r["events"], out["results"])
    applies = [n for n, e in enumerate(r["events"]) if e["op"] == "apply"]
    for n, obs in zip(applies, out["results"]):
        e = r["events"][n]
        print(f"  event {n}: specified {e['want']!r}, as-coded model {e['out']}:{e['h']}, observed {obs!r}")
    for fp, what, n in bad:
        ctx.n_viol += 1
        print(f"  MISMATCH [{fp}] {what}")
    if not bad:
        print("  all observations equal the specified handlers")


def main(argv=None):
    main_wrapper("C20", run, argv)
