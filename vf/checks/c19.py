"""C19 — DAG traversal and mapping visit every distinct node correctly.

Model: spec/Traversal.tla (explicit-stack loops of ufl/corealg/traversal.py, compute_expr_hash and
map_expr_dags as coded, one action per loop iteration, over every DAG within bounds, including the
operand aliasing that a successful `==` between distinct equal operators performs) and
spec/HandlerResolution.tla (nearest-ancestor handler resolution over the real class graph).

(a) TLC checks, for every DAG, that the as-coded loops agree with the recursive (tree) definitions,
    that unique traversals yield every structural class exactly once (operands first for post-order),
    that cutoff variants never descend below a cutoff node, that map_expr_dags equals recursive tree
    application for every handler table / compress / call mode, and termination; it prints one JSON
    line per DAG with the predicted yield sequences, handler call logs, results and final operand
    identities.
(b) Every such DAG is materialised as real ufl objects (ExprList/ExprMapping over Coefficients, one
    fresh object per node id so that structurally equal nodes are distinct objects) and every
    predicted observable is compared with what the real functions do.  A Python transcription of
    the spec's recursive definitions is validated against TLC's output on all those DAGs and then
    used on larger random DAGs.
(b') Handlers with context arguments.  Traversal.tla also models DAGTraverser.__call__ (memoised
    recursion, explicit call stack, one action per self(node, **kwargs) call / per returning rule) for
    rule tables whose rules take keyword arguments and pass different subsets of them to different
    operands (jobs fn="dt": three rule tables, top-level keyword arguments, one traverser reused on two
    expressions / two traversers sharing the cache dicts / two independent traversers, compress on
    and off).  The model's cache key is (node, full ordered context); TLC checks that the memoised
    result is the tree recursion in which the context travels down the tree (InvDt, InvDtCache) and
    prints, per DAG, the results and the log of rule invocations (node class, context, result).
    Both are compared with real DAGTraverser subclasses; the same rule tables realised the way
    ufl does it for MultiFunctions (one MultiFunction object and one vcache/rcache pair per context,
    context switches made by cutoff handlers calling map_expr_dag, cf. apply_restrictions.py) must
    give the predicted results with every (node class, context) handled exactly once.  Jobs with a
    deliberately weakened key (values only, names only, node only, sorted values) are run by TLC on
    the same DAGs: the run is vacuous (machinery error) unless each of them differs from the tree
    recursion somewhere, i.e. unless the judged inputs tell a full key from a weaker one.
(c) Handler resolution: for every UFL class and handler sets drawn from its ancestors, the
    handler bound by MultiFunction / Transformer / DAGTraverser is compared with Resolve() of the
    TLA+ module evaluated by TLC on the exported class graph.  A handler table is a set of attribute
    NAMES: the module derives the handler name of every type from its class name (HandlerName:
    TypeName -> type_name; laws checked by TLC for every name over a small alphabet of capitals,
    lower-case letters and digits) and the tables are built under THOSE names, never under the
    names the code derives.  The type universe is the import-time registry plus late types whose
    class names vary the alphabet (digits, runs of capitals), registered with @ufl_type in a child
    process; the name-dispatched handler tables of the library itself (the attribute names of every
    MultiFunction / Transformer subclass of ufl) are further cases of the same table.
"""

from __future__ import annotations

import concurrent.futures as cf
import itertools
import json
import random
import re
import time
from types import SimpleNamespace

from .. import tlc
from ..common import SPEC, MachineryError, main_wrapper

LEAF_BASE = 7000  # Coefficient count of leaf label l is LEAF_BASE + l
A_LIST, B_MAPPING = 10, 11
LAB_REN_FROM, LAB_REN_TO, LAB_CONST = 1, 2, 3

JAVA_OPTS = (
    f"-DTLA-Library={SPEC} -Xmx3g -Xmn128m -XX:ParallelGCThreads=2 "
    "-Dtlc2.tool.queue.IStateQueue=StateDeque"
)


def J(fn, table="none", compress=False, mode="none", top=0, key="full"):
    return {"fn": fn, "table": table, "compress": compress, "mode": mode, "top": top, "key": key}


TRAV = [J("pre"), J("post"), J("cutpost"), J("upre"), J("upost"), J("cutupost"), J("hash")]
TABLES = ["reuse", "rename", "renamenc", "const", "constcut"]
ALLMAP = [J("map", t, c, m) for t in TABLES for c in (True, False) for m in ("list", "rlist", "calls")]
# every table with both compress values, call modes rotating
MAP10 = [
    J("map", "reuse", True, "list"), J("map", "reuse", False, "calls"),
    J("map", "rename", True, "rlist"), J("map", "rename", False, "list"),
    J("map", "renamenc", True, "calls"), J("map", "renamenc", False, "rlist"),
    J("map", "const", True, "list"), J("map", "const", False, "rlist"),
    J("map", "constcut", True, "calls"), J("map", "constcut", False, "list"),
]  # fmt: skip
MAP2 = [J("map", "renamenc", True, "rlist"), J("map", "constcut", False, "calls")]
MAP4 = MAP2 + [J("map", "reuse", True, "calls"), J("map", "const", True, "list")]

# DAGTraverser with keyword arguments: rule table x (traverser objects, compress, top-level kwargs)
KW_TABLES = ["kwset", "kwadd", "kwfirst"]
DT_MODES = ["reuse", "shared", "fresh"]
WEAK_KEYS = ["values", "names", "node", "valsorted"]
DT9 = [
    J("dt", "kwset", True, "reuse", 0), J("dt", "kwset", False, "shared", 1), J("dt", "kwset", True, "fresh", 2),
    J("dt", "kwadd", True, "reuse", 3), J("dt", "kwadd", True, "shared", 0), J("dt", "kwadd", False, "fresh", 1),
    J("dt", "kwfirst", False, "reuse", 2), J("dt", "kwfirst", True, "shared", 3), J("dt", "kwfirst", True, "reuse", 0),
]  # fmt: skip
ALLDT = [J("dt", t, c, m, top) for t in KW_TABLES for m in DT_MODES for c in (True, False) for top in range(4)]


def weak(job, key):
    """The same job on the model with a weakened memoisation key (never bound to the code)."""
    return dict(job, key=key)


# each weakened key on a job that is also run (and judged) with the full key
WEAK4 = [weak(DT9[0], "values"), weak(DT9[4], "names"), weak(DT9[0], "node"), weak(DT9[8], "valsorted")]
WEAK12 = [weak(j, k) for k in WEAK_KEYS for j in (DT9[0], DT9[4], DT9[8])]

INVS = [
    "InvPre", "InvPost", "InvCutPost", "InvUPre", "InvUPost", "InvCutUPost", "InvNeverBelowCut",
    "InvHash", "InvMap", "InvMapCache", "InvDt", "InvDtCache", "InvNoKeyError", "InvStructure", "InvSteps", "InvType",
]  # fmt: skip


def job_name(j):
    c = "compress" if j["compress"] else "nocompress"
    if j["fn"] == "map":
        return f"map:{j['table']}:{c}:{j['mode']}"
    if j["fn"] == "dt":
        return f"dt:{j['table']}:{c}:{j['mode']}:top{j['top']}" + ("" if j["key"] == "full" else ":key-" + j["key"])
    return j["fn"]


# ==========================================================================================
# Python transcription of the spec's reference definitions (validated against TLC's output)
# ==========================================================================================


class Dag:
    """dag = list of {"lab", "ops"} (1-based node ids)."""

    def __init__(self, nodes):
        self.nodes = nodes
        self.n = len(nodes)
        self._cls = {}

    def lab(self, n):
        return self.nodes[n - 1]["lab"]

    def ops(self, n):
        return self.nodes[n - 1]["ops"]

    def cls(self, n):
        c = self._cls.get(n)
        if c is None:
            c = (self.lab(n), tuple(self.cls(o) for o in self.ops(n)))
            self._cls[n] = c
        return c

    def key(self):
        return ";".join(f"{x['lab']}:{','.join(map(str, x['ops']))}" for x in self.nodes)

    def desc(self, n, cut=False):
        seen, st = set(), [n]
        while st:
            x = st.pop()
            if x in seen:
                continue
            seen.add(x)
            if not (cut and self.lab(x) == B_MAPPING):
                st.extend(self.ops(x))
        return seen

    def nontrivial(self):
        """A node with two users / used twice, or two distinct nodes that are structurally equal."""
        uses = {}
        for n in range(1, self.n + 1):
            for o in self.ops(n):
                uses[o] = uses.get(o, 0) + 1
        if any(v > 1 for v in uses.values()):
            return True
        r = self.desc(self.n) | (self.desc(self.n - 1) if self.n > 1 else set())
        return len({self.cls(x) for x in r}) < len(r)


def pre_tree(d, n):
    out = [n]
    for o in reversed(d.ops(n)):
        out += pre_tree(d, o)
    return out


def post_tree(d, n, cut=False):
    if cut and d.lab(n) == B_MAPPING:
        return [n]
    out = []
    for o in reversed(d.ops(n)):
        out += post_tree(d, o, cut)
    return out + [n]


def ufold(d, n, vis, rev, cut):
    out = []
    if not (cut and d.lab(n) == B_MAPPING):
        for o in reversed(d.ops(n)) if rev else d.ops(n):
            if d.cls(o) not in vis:
                out += ufold(d, o, vis, rev, cut)
    vis.add(d.cls(n))
    return out + [n]


def upost_rec(d, n):
    return ufold(d, n, set(), False, False)


def cutupost_rec(d, n):
    return ufold(d, n, set(), True, True)


def rec_apply(d, table, n):
    lab = d.lab(n)
    if table in ("rename", "renamenc") and lab == LAB_REN_FROM:
        return [LAB_REN_TO, []]
    if table in ("const", "constcut") and lab == B_MAPPING:
        return [LAB_CONST, []]
    return [lab, [rec_apply(d, table, o) for o in d.ops(n)]]


# ---- rule tables with keyword arguments (names 1 = "ka", 2 = "kb"; a context is a list of [name, value]) ----
KA, KB = 1, 2
KW_NAMES = {KA: "ka", KB: "kb"}
KW_IDS = {v: k for k, v in KW_NAMES.items()}


def kw_get(kw, nm):
    return next((v for k, v in kw if k == nm), 0)


def kw_upd(kw, nm, v):
    if any(k == nm for k, _ in kw):
        return [[k, v if k == nm else x] for k, x in kw]
    return [list(p) for p in kw] + [[nm, v]]


def kw_children(table, lab, k):
    return [1] if table == "kwfirst" and lab == A_LIST else list(range(1, k + 1))


def kw_child(table, lab, kw, i, k):
    if lab != B_MAPPING:
        return kw
    if table == "kwset":
        return [[KA, 1]] if i % 2 == 1 else [[KB, 1]]
    if table == "kwadd":
        return kw_upd(kw, KA, kw_get(kw, KA) + 1) if i % 2 == 1 else kw_upd(kw, KB, kw_get(kw, KB) + 1)
    return [[KA, i], [KB, k + 1 - i]]


def leaf_enc(lab, kw):
    a, b = kw_get(kw, KA), kw_get(kw, KB)
    return lab if a == 0 and b == 0 else 10000 * lab + 100 * a + b


def cls_term(c):
    return [c[0], [cls_term(x) for x in c[1]]]


def rec_apply_kw(d, table, n, kw):
    """RecApplyKw: the rules applied recursively to the tree, the context travelling down."""
    lab, ops = d.lab(n), d.ops(n)
    if lab < 10:
        return [leaf_enc(lab, kw), []]
    k = len(ops)
    todo = kw_children(table, lab, k)
    return [lab, [rec_apply_kw(d, table, ops[i - 1], kw_child(table, lab, kw, i, k)) if i in todo else cls_term(d.cls(ops[i - 1])) for i in range(1, k + 1)]]


def top_kw(top, i):
    if top == 0:
        return []
    if top == 1:
        return [[KB, 1]] if i == 1 else [[KA, 1]]
    if top == 2:
        return [[KA, 1], [KB, 2]] if i == 1 else [[KB, 2], [KA, 1]]
    return [[KA, 2], [KB, 1]] if i == 1 else [[KA, 1], [KB, 2]]


def dt_exprs(n):
    return [1, 1] if n == 1 else [n - 1, n]


def key_of(key, kw):
    if key == "full":
        return tuple((k, v) for k, v in kw)
    if key == "values":
        return tuple(v for _, v in kw)
    if key == "names":
        return tuple(k for k, _ in kw)
    if key == "node":
        return ()
    return tuple(sorted(v for _, v in kw))


def dt_model(d, job):
    """DtFor/DtStep: the memoised recursion as coded, on structural classes (results are terms)."""
    table, calls, rterms = job["table"], [], []
    cache = {}

    def call(n, kw):
        ck = (d.cls(n), key_of(job["key"], kw))
        if ck in cache:
            return cache[ck]
        lab, ops = d.lab(n), d.ops(n)
        k = len(ops)
        vals = {p: call(ops[p - 1], kw_child(table, lab, kw, p, k)) for p in kw_children(table, lab, k)}
        if lab < 10:
            t = [leaf_enc(lab, kw), []]
        else:
            t = [lab, [vals[i] if i in vals else cls_term(d.cls(ops[i - 1])) for i in range(1, k + 1)]]
        calls.append([cls_term(d.cls(n)), [list(p) for p in kw], t])
        cache[ck] = t
        return t

    for i, e in enumerate(dt_exprs(d.n), 1):
        if job["mode"] == "fresh" and i > 1:
            cache = {}
        rterms.append(call(e, top_kw(job["top"], i)))
    return {"rterms": rterms, "calls": calls}


def norm_dt(d, pred):
    """A dt result line of TLC with the input nodes of the rule log replaced by their classes."""
    return dict(pred, calls=[[cls_term(d.cls(v)), kw, t] for v, kw, t in pred["calls"]])


def map_exprs(n, mode):
    """The expressions lists of the calls of a map job."""
    if mode == "list":
        return [[1]] if n == 1 else [[n - 1, n]]
    if mode == "rlist":
        return [[1, 1]] if n == 1 else [[n, n - 1]]
    return [[1 if n == 1 else n - 1], [n]]


def property_failures(d, job, obs):
    """The invariants of Traversal.tla evaluated on an observed behaviour (names as in the spec)."""
    fn, out, n = job["fn"], obs["out"], d.n
    bad = []
    cls = d.cls

    def before(i, pred):
        return any(pred(out[j]) for j in range(i))

    if fn == "pre":
        if out != pre_tree(d, n):
            bad.append("InvPre:recursive-definition")
        if any(not before(i, lambda u: out[i] in d.ops(u)) for i in range(1, len(out))):
            bad.append("InvPre:parent-first")
    elif fn == "post":
        if out != post_tree(d, n):
            bad.append("InvPost:recursive-definition")
        if any(not before(i, lambda u: u == o) for i in range(len(out)) for o in d.ops(out[i])):
            bad.append("InvPost:operands-first")
    elif fn == "cutpost":
        if out != post_tree(d, n, cut=True):
            bad.append("InvCutPost:recursive-definition")
        if set(out) != d.desc(n, cut=True):
            bad.append("InvCutPost:descends-below-cutoff")
    elif fn in ("upre", "upost", "cutupost"):
        inv = {"upre": "InvUPre", "upost": "InvUPost", "cutupost": "InvCutUPost"}[fn]
        want = d.desc(n, cut=(fn == "cutupost"))
        if len({cls(x) for x in out}) != len(out):
            bad.append(inv + ":class-visited-twice")
        if {cls(x) for x in out} != {cls(x) for x in want}:
            bad.append(inv + ":classes-covered")
        if fn == "upre":
            if not out or out[0] != n or any(
                not before(i, lambda u: cls(out[i]) in [cls(o) for o in d.ops(u)]) for i in range(1, len(out))
            ):
                bad.append("InvUPre:user-first")
        else:
            if out != (upost_rec(d, n) if fn == "upost" else cutupost_rec(d, n)):
                bad.append(inv + ":recursive-definition")
            for i, x in enumerate(out):
                if fn == "cutupost" and d.lab(x) == B_MAPPING:
                    continue
                if any(not before(i, lambda u: cls(u) == cls(o)) for o in d.ops(x)):
                    bad.append(inv + ":operands-first")
                    break
    elif fn == "hash":
        if sorted(out) != sorted(d.desc(n)):
            bad.append("InvHash:every-node-once")
        seen = set()
        for x in out:
            if any(o not in seen for o in d.ops(x)):
                bad.append("InvHash:operands-first")
                break
            seen.add(x)
    elif fn == "map":
        exprs = [e for call in map_exprs(n, job["mode"]) for e in call]
        want = [rec_apply(d, job["table"], e) for e in exprs]
        if obs["rterms"] != want:
            bad.append("InvMap:recursive-tree-application")
        vs = [c[0] for c in obs["calls"]]
        if any(not (1 <= v <= n) for v in vs) or len({cls(v) for v in vs}) != len(vs):
            bad.append("InvMapCache:handler-once-per-class")
    elif fn == "dt":  # obs: normalised (rule log by class)
        want = [rec_apply_kw(d, job["table"], e, top_kw(job["top"], i)) for i, e in enumerate(dt_exprs(n), 1)]
        if obs["rterms"] != want:
            bad.append("InvDt:recursive-tree-application")
        keys = [json.dumps(c[:2]) for c in obs["calls"]]
        if job["mode"] != "fresh" and len(set(keys)) != len(keys):
            bad.append("InvDtCache:rule-once-per-class-and-context")
    return bad


# ==========================================================================================
# The real code
# ==========================================================================================


class Env:
    """Real ufl objects and handler tables (built once per process)."""

    _inst = None

    @classmethod
    def get(cls):
        if cls._inst is None:
            cls._inst = cls()
        return cls._inst

    def __init__(self):
        import importlib.util

        import ufl
        from ufl.classes import Coefficient, ExprList, ExprMapping
        from ufl.core.expr import Expr
        from ufl.corealg import traversal as T
        from ufl.corealg.dag_traverser import DAGTraverser
        from ufl.corealg.map_dag import map_expr_dags
        from ufl.corealg.multifunction import MultiFunction

        sp = importlib.util.spec_from_file_location("ufl_test_utils_c19", "/repo/test/utils.py")
        U = importlib.util.module_from_spec(sp)
        sp.loader.exec_module(U)
        cell = ufl.triangle
        mesh = ufl.Mesh(U.LagrangeElement(cell, 1, (2,)))
        self.V = ufl.FunctionSpace(mesh, U.LagrangeElement(cell, 1))
        self.Coefficient, self.ExprList, self.ExprMapping = Coefficient, ExprList, ExprMapping
        self.T, self.map_expr_dags = T, map_expr_dags
        self.cutoff = [c is ExprMapping for c in Expr._ufl_all_classes_]
        self.hash_log = None
        # in-process instrumentation of _ufl_compute_hash_ for the three classes we build
        for klass in (Coefficient, ExprList, ExprMapping):
            orig = klass._ufl_compute_hash_

            def wrapped(obj, _orig=orig, _env=self):
                if _env.hash_log is not None:
                    _env.hash_log.append(id(obj))
                return _orig(obj)

            klass._ufl_compute_hash_ = wrapped

        env = self

        class Base(MultiFunction):
            def __init__(self, run):
                MultiFunction.__init__(self)
                self.run = run

            def expr(self, o, *ops):
                return self.run.log(o, ops, MultiFunction.reuse_if_untouched(self, o, *ops))

        class Reuse(Base):
            pass

        class Rename(Base):
            def coefficient(self, o):  # takes only `o`: a cutoff type
                return self.run.log(o, (), self.run.ren if o == self.run.probe else o)

        class RenameNC(Base):
            def coefficient(self, o, *ops):
                return self.run.log(o, ops, self.run.ren if o == self.run.probe else o)

        class Const(Base):
            def expr_mapping(self, o, *ops):
                return self.run.log(o, ops, self.run.z)

        class ConstCut(Base):
            def expr_mapping(self, o):  # cutoff type
                return self.run.log(o, (), self.run.z)

        self.tables = {"reuse": Reuse, "rename": Rename, "renamenc": RenameNC, "const": Const, "constcut": ConstCut}

        from functools import singledispatchmethod

        def make_dt(table):
            class DT(DAGTraverser):
                def __init__(self, run):
                    DAGTraverser.__init__(self)
                    self.run = run
                    self.ncalls = 0

                @singledispatchmethod
                def process(self, o, **kw):
                    raise AssertionError("no rule")

                @process.register(Expr)
                def _(self, o, **kw):
                    self.ncalls += 1
                    return self.reuse_if_untouched(o, **kw)

                if table == "renamenc":

                    @process.register(Coefficient)
                    def _(self, o, **kw):
                        self.ncalls += 1
                        return self.run.ren if o == self.run.probe else o

                if table == "const":

                    @process.register(ExprMapping)
                    def _(self, o, **kw):
                        self.ncalls += 1
                        return self.run.z

            return DT

        self.dts = {t: make_dt(t) for t in ("reuse", "renamenc", "const")}

        # Transformer.visit: plain recursion over the tree with the same rules
        from ufl.algorithms.transformer import Transformer

        class TrBase(Transformer):
            def __init__(self, run):
                Transformer.__init__(self)
                self.run = run

            expr = Transformer.reuse_if_untouched

        class TrRename(TrBase):
            def coefficient(self, o):
                return self.run.ren if o == self.run.probe else o

        class TrConst(TrBase):
            def expr_mapping(self, o, *ops):
                return self.run.z

        self.trs = {"reuse": TrBase, "renamenc": TrRename, "const": TrConst}

        # ---- rules with keyword arguments (KwChildren / KwChild / KwCombine of Traversal.tla) ----
        from ufl.corealg.map_dag import map_expr_dag

        self.map_expr_dag = map_expr_dag

        def kw_leaf(o, kw):
            ka, kb = kw.get("ka", 0), kw.get("kb", 0)
            if not (ka or kb):
                return o
            return Coefficient(env.V, count=LEAF_BASE + 10000 * (o.count() - LEAF_BASE) + 100 * ka + kb)

        def reuse_eq(o, new):
            if all(a == b for a, b in zip(new, o.ufl_operands)):
                return o
            return o._ufl_expr_reconstruct_(*new)

        def mapping_kw(table, kw, i, k):
            """Keyword arguments for operand i (0-based) of an ExprMapping with k operands."""
            if table == "kwset":
                return {"ka": 1} if i % 2 == 0 else {"kb": 1}
            if table == "kwadd":
                return {**kw, "ka": kw.get("ka", 0) + 1} if i % 2 == 0 else {**kw, "kb": kw.get("kb", 0) + 1}
            return {"ka": i + 1, "kb": k - i}

        def make_kwdt(table):
            class KDT(DAGTraverser):
                def __init__(self, run, **init):
                    DAGTraverser.__init__(self, **init)
                    self.run = run

                @singledispatchmethod
                def process(self, o, **kw):
                    raise AssertionError("no rule")

                @process.register(Coefficient)
                def _(self, o, **kw):
                    return self.run.logkw(o, kw, kw_leaf(o, kw))

                if table == "kwset":

                    @process.register(ExprList)
                    def _(self, o, **kw):
                        return self.run.logkw(o, kw, self.reuse_if_untouched(o, **kw))

                if table == "kwadd":

                    @process.register(ExprList)
                    @DAGTraverser.postorder
                    def _(self, o, *ops, **kw):
                        return self.run.logkw(o, kw, reuse_eq(o, ops))

                if table == "kwfirst":

                    @process.register(ExprList)
                    @DAGTraverser.postorder_only_children([0])
                    def _(self, o, first, **kw):
                        return self.run.logkw(o, kw, reuse_eq(o, (first, *o.ufl_operands[1:])))

                @process.register(ExprMapping)
                def _(self, o, **kw):
                    k = len(o.ufl_operands)
                    new = [self(op, **mapping_kw(table, kw, i, k)) for i, op in enumerate(o.ufl_operands)]
                    return self.run.logkw(o, kw, reuse_eq(o, new))

            return KDT

        self.kwdts = {t: make_kwdt(t) for t in KW_TABLES}

        # the same rules as MultiFunctions: the context is held by the MultiFunction object, one object
        # and one (vcache, rcache) pair per context; a context switch is a cutoff handler that calls
        # map_expr_dag with the object and the caches of the new context (as apply_restrictions.py does)
        class CtxFamily:
            def __init__(self, run, table, compress):
                self.run, self.table, self.compress = run, table, compress
                self.mfs, self.vcaches, self.rcaches = {}, {}, {}

            def apply(self, kw, e):
                key = tuple(kw.items())
                if key not in self.mfs:
                    self.mfs[key], self.vcaches[key], self.rcaches[key] = CtxMF(self, dict(kw)), {}, {}
                return map_expr_dag(self.mfs[key], e, compress=self.compress, vcache=self.vcaches[key], rcache=self.rcaches[key])

        class CtxMF(MultiFunction):
            def __init__(self, fam, kw):
                MultiFunction.__init__(self)
                self.fam, self.kw = fam, kw

            def coefficient(self, o):
                return self.fam.run.logkw(o, self.kw, kw_leaf(o, self.kw))

            def expr_list(self, o, *ops):
                return self.fam.run.logkw(o, self.kw, MultiFunction.reuse_if_untouched(self, o, *ops))

            def expr_mapping(self, o):  # takes only `o`: a cutoff type, it handles its operands itself
                k = len(o.ufl_operands)
                new = [self.fam.apply(mapping_kw(self.fam.table, self.kw, i, k), op) for i, op in enumerate(o.ufl_operands)]
                return self.fam.run.logkw(o, self.kw, reuse_eq(o, new))

        self.CtxFamily = CtxFamily


class Run:
    """One materialisation of a DAG: a fresh real object per node id."""

    def __init__(self, env, d):
        self.env, self.d = env, d
        n = d.n
        objs = [None] * (n + 1)
        for i in range(1, n + 1):
            lab, ops = d.lab(i), d.ops(i)
            if lab < 10:
                objs[i] = env.Coefficient(env.V, count=LEAF_BASE + lab)
            else:
                objs[i] = (env.ExprList if lab == A_LIST else env.ExprMapping)(*[objs[o] for o in ops])
        self.objs = objs
        self.ren = env.Coefficient(env.V, count=LEAF_BASE + LAB_REN_TO)
        self.z = env.Coefficient(env.V, count=LEAF_BASE + LAB_CONST)
        self.probe = env.Coefficient(env.V, count=LEAF_BASE + LAB_REN_FROM)
        self.names = {id(objs[i]): i for i in range(1, n + 1)}
        self.names[id(self.ren)] = n + 1
        self.names[id(self.z)] = n + 2
        self.next = n + 3
        self.keep = []
        self.calls = []
        self.kwcalls = []

    def name(self, x):
        return self.names.get(id(x), -1)

    def log(self, o, ops, r):
        if id(r) not in self.names:
            self.names[id(r)] = self.next
            self.next += 1
            self.keep.append(r)
        self.calls.append([self.name(o), [self.name(x) for x in ops], self.name(r)])
        return r

    def logkw(self, o, kw, r):
        """A rule with keyword arguments returned r for node o: [class of o, context as passed, term of r]."""
        self.kwcalls.append([self.term(o), [[KW_IDS[k], v] for k, v in kw.items()], self.term(r)])
        return r

    def term(self, x):
        env = self.env
        if isinstance(x, env.Coefficient):
            return [x.count() - LEAF_BASE, []]
        if isinstance(x, env.ExprList):
            return [A_LIST, [self.term(o) for o in x.ufl_operands]]
        if isinstance(x, env.ExprMapping):
            return [B_MAPPING, [self.term(o) for o in x.ufl_operands]]
        return ["?" + type(x).__name__, []]

    def fin(self):
        return [[self.name(o) for o in self.objs[i].ufl_operands] for i in range(1, self.d.n + 1)]


def run_real(env, d, job):
    """Execute one job on freshly built real objects; returns the observables of the spec."""
    fn = job["fn"]
    r = Run(env, d)
    root = r.objs[d.n]
    T = env.T
    obs = {"out": [], "leaves": [], "res": [], "calls": [], "rterms": []}
    try:
        if fn == "pre":
            obs["out"] = [r.name(x) for x in T.pre_traversal(root)]
            obs["leaves"] = [r.name(x) for x in T.traverse_terminals(root)]
        elif fn == "post":
            obs["out"] = [r.name(x) for x in T.post_traversal(root)]
        elif fn == "cutpost":
            obs["out"] = [r.name(x) for x in T.cutoff_post_traversal(root, env.cutoff)]
        elif fn == "upre":
            obs["out"] = [r.name(x) for x in T.unique_pre_traversal(root)]
            r2 = Run(env, d)
            obs["leaves"] = [r2.name(x) for x in T.traverse_unique_terminals(r2.objs[d.n])]
        elif fn == "upost":
            obs["out"] = [r.name(x) for x in T.unique_post_traversal(root)]
        elif fn == "cutupost":
            obs["out"] = [r.name(x) for x in T.cutoff_unique_post_traversal(root, env.cutoff)]
        elif fn == "hash":
            env.hash_log = log = []
            try:
                hash(root)
            finally:
                env.hash_log = None
            obs["out"] = [r.names.get(i, -1) for i in log]
            hashed = sorted(i for i in range(1, d.n + 1) if r.objs[i]._hash is not None)
            if hashed != sorted(set(obs["out"])):
                obs["out"] = obs["out"] + [-2] + hashed  # a node has a hash nobody computed (or lost one)
        elif fn == "map":
            mf = env.tables[job["table"]](r)
            calls = map_exprs(d.n, job["mode"])
            res = []
            if len(calls) == 1:
                res += env.map_expr_dags(mf, [r.objs[e] for e in calls[0]], compress=job["compress"])
            else:
                vcache, rcache = {}, {}
                for call in calls:
                    res += env.map_expr_dags(
                        mf, [r.objs[e] for e in call], compress=job["compress"], vcache=vcache, rcache=rcache
                    )
            obs["res"] = [r.name(x) for x in res]
            obs["rterms"] = [r.term(x) for x in res]
            obs["calls"] = r.calls
        elif fn == "dt":
            if job["key"] != "full":
                raise MachineryError("jobs with a weakened key exist in the model only")
            klass, init = env.kwdts[job["table"]], {"compress": job["compress"]}
            shared = {"visited_cache": {}, "result_cache": {}}
            dt, res = None, []
            for i, e in enumerate(dt_exprs(d.n), 1):
                if job["mode"] == "shared":
                    dt = klass(r, **init, **shared)
                elif job["mode"] == "fresh" or dt is None:
                    dt = klass(r, **init)
                res.append(dt(r.objs[e], **{KW_NAMES[k]: v for k, v in top_kw(job["top"], i)}))
            obs["rterms"] = [r.term(x) for x in res]
            obs["calls"] = r.kwcalls
        else:
            raise MachineryError(f"unknown fn {fn}")
    except MachineryError:
        raise
    except Exception as e:  # noqa: BLE001
        obs["exception"] = f"{type(e).__name__}: {e}"
    obs["fin"] = r.fin()
    return obs


def run_dagtraverser(env, d, table):
    """DAGTraverser (memoised recursion) with the same rules; returns (result terms for [N-1, N], #process calls)."""
    r = Run(env, d)
    dt = env.dts[table](r)
    exprs = [1] if d.n == 1 else [d.n - 1, d.n]
    return [r.term(dt(r.objs[e])) for e in exprs], dt.ncalls


def run_ctxmf(env, d, job):
    """The rule table of a dt job as a family of MultiFunctions (one per context) under map_expr_dag."""
    r = Run(env, d)
    fam = env.CtxFamily(r, job["table"], job["compress"])
    res = [fam.apply({KW_NAMES[k]: v for k, v in top_kw(job["top"], i)}, r.objs[e]) for i, e in enumerate(dt_exprs(d.n), 1)]
    return [r.term(x) for x in res], r.kwcalls


def ctxmf_failures(pred, terms, calls):
    """pred: normalised dt prediction (mode reuse).  Results, and every (class, context) handled exactly once."""
    bad = []
    if terms != pred["rterms"]:
        bad.append("result")
    if sorted(json.dumps(c) for c in calls) != sorted(json.dumps(c) for c in pred["calls"]):
        bad.append("handler-calls")
    return bad


def run_transformer(env, d, table):
    """Transformer.visit (tree recursion) with the same rules; result terms for [N-1, N]."""
    r = Run(env, d)
    tr = env.trs[table](r)
    exprs = [1] if d.n == 1 else [d.n - 1, d.n]
    return [r.term(tr.visit(r.objs[e])) for e in exprs]


FIELDS = ("out", "leaves", "res", "calls", "rterms", "fin")
DT_FIELDS = ("rterms", "calls")  # dt jobs: structural observables only (pred normalised by norm_dt)


def compare(pred, obs, fields=FIELDS):
    """Fields of the spec's prediction that the real behaviour does not reproduce."""
    bad = [f for f in fields if pred.get(f) != obs.get(f)]
    if "exception" in obs:
        bad.append("exception")
    return bad


def conform_dag(env, doc, jobs, acc, selftest=False):
    """Compare every job of one TLC DAG line with the real code; validate the transcription."""
    d = Dag(doc["dag"])
    if len(doc["results"]) != len(jobs):
        raise MachineryError(f"TLC printed {len(doc['results'])} results for {len(jobs)} jobs")
    nontrivial = d.nontrivial()
    acc["dags"] += 1
    if nontrivial:
        acc["keys"].append(d.key())
    for job, pred in zip(jobs, doc["results"]):
        fields = FIELDS
        if job["fn"] == "dt":
            fields = DT_FIELDS
            pred = norm_dt(d, pred)
            sim = dt_model(d, job)
            if any(sim[f] != pred[f] for f in DT_FIELDS):
                acc["machinery"].append(f"dt_model disagrees with TLC on dag {d.key()} job {job_name(job)}")
                continue
            if job["key"] != "full":
                # the model with a weakened key: does this DAG tell it from the tree recursion?
                want = [rec_apply_kw(d, job["table"], e, top_kw(job["top"], i)) for i, e in enumerate(dt_exprs(d.n), 1)]
                acc["weak"][job["key"]] = acc["weak"].get(job["key"], 0) + (pred["rterms"] != want)
                continue
        # 1. the Python transcription of the recursive definitions agrees with TLC
        tf = property_failures(d, job, pred)
        if tf:
            acc["machinery"].append(f"transcription disagrees with TLC on dag {d.key()} job {job_name(job)}: {tf}")
            continue
        # 2. the real code reproduces the predicted behaviour
        obs = run_real(env, d, job)
        acc["behaviours"] += 1
        acc["evals"] += len(fields)
        bad = compare(pred, obs, fields)
        if job["fn"] == "dt":
            acc["dtkw"] += 1
            if len({json.dumps(c[1]) for c in pred["calls"]}) > 1:
                acc["kwkeys"].append(f"{d.key()}|{job['table']}|{job['top']}")
        if bad:
            pf = property_failures(d, job, obs) if "exception" not in obs else ["exception"]
            fp = f"C19:{job_name(job)}:{'+'.join(bad)}" + (":property:" + "+".join(pf) if pf else ":rule-log-only" if job["fn"] == "dt" else ":identity-only")
            acc["violations"].append(
                (
                    fp,
                    f"{job_name(job)} on dag {d.key()}: real {{{', '.join(f'{f}={obs.get(f)}' for f in bad)}}} "
                    f"spec {{{', '.join(f'{f}={pred.get(f)}' for f in bad if f != 'exception')}}}",
                    {"kind": "behaviour", "dag": doc["dag"], "job": job, "predicted": pred},
                )
            )
        # 2'. the same rules as one MultiFunction + cache pair per context under map_expr_dag
        if job["fn"] == "dt" and job["mode"] == "reuse" and job["table"] != "kwfirst":
            try:
                terms, calls = run_ctxmf(env, d, job)
                cbad = ctxmf_failures(pred, terms, calls)
            except Exception as e:  # noqa: BLE001
                terms, calls, cbad = f"{type(e).__name__}: {e}", [], ["exception"]
            acc["evals"] += 2
            acc["ctxmf"] += 1
            if cbad:
                acc["violations"].append(
                    (
                        f"C19:ctx-multifunction:{job['table']}:{'+'.join(cbad)}",
                        f"map_expr_dag with one MultiFunction and cache pair per context [{job_name(job)}] on dag {d.key()}: terms {terms} handler calls {calls}; spec {pred['rterms']} {pred['calls']}",
                        {"kind": "ctxmf", "dag": doc["dag"], "job": job, "predicted": {f: pred[f] for f in DT_FIELDS}},
                    )
                )
        # 3. DAGTraverser with the same rules gives the recursive-tree result
        if job["fn"] == "map" and job["compress"] and job["table"] in env.dts and (job["mode"] == "list" or (job["mode"] == "calls" and d.n > 1)):
            try:
                terms, ncalls = run_dagtraverser(env, d, job["table"])
            except Exception as e:  # noqa: BLE001
                terms, ncalls = f"{type(e).__name__}: {e}", 0
            acc["evals"] += 2
            acc["dagtraverser"] += 1
            nclasses = len({d.cls(x) for x in (d.desc(d.n) | (d.desc(d.n - 1) if d.n > 1 else set()))})
            if terms != pred["rterms"] or ncalls > nclasses:
                acc["violations"].append(
                    (
                        f"C19:dagtraverser:{job['table']}:{'result' if terms != pred['rterms'] else 'handler-called-twice'}",
                        f"DAGTraverser[{job['table']}] on dag {d.key()}: terms {terms} calls {ncalls}; spec {pred['rterms']}, {nclasses} classes",
                        {"kind": "dagtraverser", "dag": doc["dag"], "table": job["table"], "predicted": pred["rterms"]},
                    )
                )
            try:
                terms = run_transformer(env, d, job["table"])
            except Exception as e:  # noqa: BLE001
                terms = f"{type(e).__name__}: {e}"
            acc["evals"] += 1
            if terms != pred["rterms"]:
                acc["violations"].append(
                    (
                        f"C19:transformer:{job['table']}:result",
                        f"Transformer[{job['table']}].visit on dag {d.key()}: terms {terms}; spec {pred['rterms']}",
                        {"kind": "transformer", "dag": doc["dag"], "table": job["table"], "predicted": pred["rterms"]},
                    )
                )
    if len(acc["samples"]) < 2 and nontrivial and d.n >= 3:
        acc["samples"].append({"dag": d.key(), "jobs": {job_name(j): p["out"] or p["res"] for j, p in zip(jobs[:8], doc["results"][:8])}})
        kwj = [(j, p) for j, p in zip(jobs, doc["results"]) if j["fn"] == "dt" and j["key"] == "full"][:1]
        acc["samples"][-1]["jobs"].update({job_name(j): p["rterms"] for j, p in kwj})


# ==========================================================================================
# TLC runs
# ==========================================================================================


def traversal_cfg(c, shard, emit=True, liveness=False):
    head = (
        f"CONSTANTS NMin = {c['nmin']}\nNMax = {c['nmax']}\nMaxArity = {c['arity']}\nJobs <- MCJobs\n"
        f"Shard = {shard}\nNShards = {c['nshards']}\nOnlyConnected = {'TRUE' if c['connected'] else 'FALSE'}\n"
        f"Emit = {'TRUE' if emit else 'FALSE'}\n"
    )
    if liveness:
        return head + "SPECIFICATION Spec\nPROPERTY Termination\n"
    return head + "INIT Init\nNEXT Next\n" + "".join(f"INVARIANT {i}\n" for i in INVS)


def traversal_mc(jobs):
    return f"---- MODULE MC_Traversal ----\nEXTENDS Traversal\nMCJobs == {tlc.tla(jobs)}\n====\n"


def require_ok(res, what):
    """tlc.require_ok without the (very long) PrintT lines in the message."""
    if res.outcome != "ok":
        tail = "\n".join(ln[:300] for ln in res.stdout.splitlines() if not ln.startswith('"{'))
        raise MachineryError(f"TLC {what}: outcome={res.outcome} violated={res.violated}\n" + "\n".join(tail.splitlines()[-30:]))


def tlc_summary(res):
    return {
        "module": res.module, "cfg_name": res.cfg_name, "mode": res.mode, "distinct": res.distinct,
        "generated": res.generated, "depth": res.depth, "wall": res.wall, "outcome": res.outcome,
        "violated": res.violated, "actions": res.actions,
    }  # fmt: skip


def tlc_docs_with_kw(r, k):
    """selftest: DAG lines (kept by shard_task) whose k-th job logged a rule call with a non-empty context."""
    return [x for x in r.get("kw_docs", []) if any(c[1] for c in x["results"][k]["calls"])]


def new_acc():
    return {
        "dags": 0, "behaviours": 0, "evals": 0, "dagtraverser": 0, "dtkw": 0, "ctxmf": 0, "keys": [], "kwkeys": [],
        "weak": {}, "violations": [], "machinery": [], "samples": [],
    }  # fmt: skip


def shard_task(args):
    """Worker: one TLC run of Traversal.tla (one shard of one configuration) + conformance of its DAGs."""
    c, shard, workers, selftest = args
    t0 = time.time()
    res = tlc.run(
        "Traversal", traversal_cfg(c, shard), mc_text=traversal_mc(c["jobs"]), mc_name="MC_Traversal",
        deadlock=True, workers=workers, timeout=1500, env={"JAVA_TOOL_OPTIONS": JAVA_OPTS},
    )  # fmt: skip
    out = {"cfg": c["name"], "shard": shard, "tlc": tlc_summary(res), "trace": None, "tail": "", "t_tlc": time.time() - t0}
    acc = new_acc()
    out["acc"] = acc
    if res.outcome in ("invariant", "deadlock", "property"):
        out["trace"] = [(a, s) for a, s in res.trace[-1:]]
        return out
    if res.outcome != "ok":
        out["tail"] = "\n".join([ln[:300] for ln in res.stdout.splitlines() if not ln.startswith('"{')][-30:])
        return out
    env = Env.get()
    docs = tlc.decode_prints(res)
    out["first_doc"] = next((x for x in docs if len(x["dag"]) >= 3 and Dag(x["dag"]).nontrivial()), docs[0] if docs else None)
    out["kw_docs"] = [x for x in docs if len(x["dag"]) == 2 and x["dag"][1]["lab"] == B_MAPPING][:4]  # for --selftest
    for doc in docs:
        conform_dag(env, doc, c["jobs"], acc)
    out["t_all"] = time.time() - t0
    return out


def expected_dag_counts(c):
    """Number of DAGs TLC must print per shard (transcription of NodeChoices/ShardOf/Connected)."""
    counts = [0] * c["nshards"]
    for n in range(c["nmin"], c["nmax"] + 1):
        choices = []
        for i in range(1, n + 1):
            ch = [(lab, ()) for lab in (1, 2)]
            for k in range(1, c["arity"] + 1):
                for ops in itertools.product(range(1, i), repeat=k):
                    ch += [(A_LIST, ops), (B_MAPPING, ops)]
            choices.append(ch)
        for d in itertools.product(*choices):
            if c["connected"]:
                seen, st = set(), [n, n - 1] if n > 1 else [n]
                while st:
                    x = st.pop()
                    if x not in seen:
                        seen.add(x)
                        st.extend(d[x - 1][1])
                if len(seen) != n:
                    continue
            h = 0
            for i, (lab, ops) in enumerate(d[: max(0, min(n, c["nmax"] - 1))], 1):  # hash of the first NMax-1 nodes
                h += i * lab + sum((j + i) * o for j, o in enumerate(ops, 1))
            counts[h % c["nshards"]] += 1
    return counts


def configs(tier):
    """nshards: the DAGs of a configuration are partitioned by ShardOf; `shards` (default: all) are run."""
    if tier == "quick":
        return [
            dict(name="n1-3:all-tables", nmin=1, nmax=3, arity=2, jobs=TRAV + MAP10 + DT9 + WEAK4, nshards=1, connected=False, workers=3),
            dict(name="n4:connected", nmin=4, nmax=4, arity=2, jobs=TRAV + MAP2[:1] + [DT9[3]], nshards=3, connected=True, workers=3),
        ]
    return [
        dict(name="n1-3:every-map-job", nmin=1, nmax=3, arity=2, jobs=TRAV + ALLMAP + ALLDT + WEAK12, nshards=1, connected=False, workers=3),
        dict(name="n4:all-tables", nmin=4, nmax=4, arity=2, jobs=TRAV + MAP10 + DT9[0:7:3], nshards=4, connected=False, workers=3),
        dict(name="n4:arity3", nmin=4, nmax=4, arity=3, jobs=TRAV + MAP2[:1], nshards=8, connected=False, workers=3),
        # the tree traversals (pre/post/cutoff_post) are exhausted above incl. arity 3; at 5 nodes only the
        # DAG-aware functions are run
        dict(name="n5:connected:unique-traversals", nmin=5, nmax=5, arity=2, jobs=TRAV[3:], nshards=24, connected=True, workers=3),
    ]


# ==========================================================================================
# (c) handler resolution
# ==========================================================================================

DISPATCH_CFG = """CONSTANTS Bases <- MCBases
Names <- MCNames
Cases <- MCCases
AttrCases <- MCAttrCases
AttrMF <- MCAttrMF
AttrTR <- MCAttrTR
AttrDT <- MCAttrDT
Alphabet <- MCAlphabet
MaxLen = %d
SPECIFICATION Spec
INVARIANT NameLawsOK
INVARIANT LawsOnCases
INVARIANT LawsOnAllSubsets
INVARIANT LinearisationOK
"""

# handler names: the laws of HandlerName are checked by TLC for every name over this alphabet up to the length
NAME_ALPHABET = {"quick": ("AQan20", 4), "thorough": ("AQan20", 5)}
ATTR_RE = re.compile(r"[a-z][a-z0-9_]*")  # attribute names that can be the handler name of a type
LATE_MARK = "@@C19-LATE@@"
LATE_PARENTS = ("Operator", "Terminal", "MathFunction")
# late types (registered with @ufl_type in a child process): shapes of class names that the import-time registry
# has once (Atan2: a digit after a lower-case letter) or not at all
LATE_FIXED = [
    ("Atan3", "Operator"), ("P2", "Terminal"), ("H1Norm", "Operator"), ("Bessel10K", "MathFunction"),
    ("FEMNorm", "Operator"), ("ABc", "Operator"), ("XY", "Terminal"), ("Z", "Terminal"), ("NormL2", "Operator"),
    ("A1b2C3", "MathFunction"), ("Log1p", "MathFunction"), ("Grad2DOf", "Atan3"), ("Q0a", "P2"), ("Sym00", "Operator"),
    ("X9", "H1Norm"), ("Curl3D", "Operator"),
]  # fmt: skip


def chars(s):
    return list(s)


class _Dummy:
    """An object that has exactly what MultiFunction.__call__ / Transformer.visit read."""

    ufl_operands = ()

    def __init__(self, klass):
        self._ufl_typecode_ = klass._ufl_typecode_
        self._ufl_class_ = klass


def register_late(name, parent):
    """A new expression type `name` under `parent`, registered with @ufl_type (child process only)."""
    from ufl.classes import MathFunction, Operator, Terminal
    from ufl.core.ufl_type import ufl_type

    ns = {"__slots__": (), "__doc__": f"Late type {name}."}
    if parent is Operator:

        def __init__(self, arg):
            Operator.__init__(self, (arg,))

        def __str__(self):
            return f"{type(self).__name__}({self.ufl_operands[0]})"

        ns.update(__init__=__init__, __str__=__str__)
        kw = dict(num_ops=1, is_scalar=True)
    elif parent is Terminal:

        def __init__(self):
            Terminal.__init__(self)

        def ufl_domains(self):
            return ()

        ns.update(__init__=__init__, ufl_domains=ufl_domains)
        kw = dict(is_scalar=True)
    elif parent is MathFunction:

        def __init__(self, arg):
            MathFunction.__init__(self, name.lower(), arg)

        ns.update(__init__=__init__)
        kw = dict(is_scalar=True)
    else:
        kw = dict(is_scalar=bool(parent._ufl_is_scalar_))
    if parent._ufl_is_terminal_:

        def __repr__(self):
            return type(self).__name__

        ns.update(__repr__=__repr__, __str__=__repr__)
    return ufl_type(**kw)(type(parent)(name, (parent,), ns))


def dispatch_universe(late=(), register=False):
    """The registered classes (typecode order) followed by the late types [name, parent name]: class list
    (late classes only when `register`), index, direct UFL bases, linearisation, class names."""
    from ufl.core.expr import Expr
    from ufl.core.ufl_type import UFLType

    classes = list(Expr._ufl_all_classes_)
    import ufl.classes

    if set(classes) != set(ufl.classes.all_ufl_classes) or any(c._ufl_typecode_ != i for i, c in enumerate(classes)):
        raise MachineryError("ufl.classes.all_ufl_classes is not the typecode-indexed class list")
    idx = {c: i + 1 for i, c in enumerate(classes)}
    bases = [[idx[b] for b in c.__bases__ if type(b) is UFLType] for c in classes]
    mro = [[idx[b] for b in c.__mro__ if type(b) is UFLType] for c in classes]
    names = [c.__name__ for c in classes]
    if len(set(names)) != len(names):
        raise MachineryError("class names of the registered types are not unique")
    for name, parent in late:
        p = names.index(parent) + 1
        t = len(names) + 1
        names.append(name)
        bases.append([p])
        mro.append([t] + mro[p - 1])
        if register:
            cls = register_late(name, classes[p - 1])
            if cls._ufl_typecode_ != t - 1 or Expr._ufl_all_classes_[t - 1] is not cls:
                raise MachineryError("typecode of a late type")
            classes.append(cls)
            idx[cls] = t
    return classes, idx, bases, mro, names


def base_attrs():
    from ufl.algorithms.transformer import Transformer
    from ufl.corealg.dag_traverser import DAGTraverser
    from ufl.corealg.multifunction import MultiFunction

    return {k: sorted(a for a in dir(b) if ATTR_RE.fullmatch(a)) for k, b in (("MF", MultiFunction), ("TR", Transformer), ("DT", DAGTraverser))}


def late_types(names, seed, tier):
    """Late types [name, parent]: the fixed shapes and random CamelCase names with digits and runs of capitals.
    No two names (registered ones included) agree up to case, none is an attribute of the algorithm base classes
    up to underscores (so that, by the Strip law of the spec, all handler names are distinct)."""
    import keyword

    rng = random.Random(seed * 31337 + 1906)
    taken = {n.lower() for n in names} | {a.replace("_", "") for v in base_attrs().values() for a in v}
    out = []

    def add(name, parent):
        low = name.lower()
        if low in taken or keyword.iskeyword(low):
            return
        taken.add(low)
        out.append([name, parent])

    for name, parent in LATE_FIXED:
        add(name, parent)
    if len(out) != len(LATE_FIXED):
        raise MachineryError("a fixed late type name collides with a registered name")
    for _ in range(12 if tier == "quick" else 36):
        n = rng.randint(2, 7)
        name = rng.choice("ABCDEFGHIJKLMNOPQRSTUVWXYZ")
        for _ in range(n - 1):
            kind = rng.random()
            name += rng.choice("abcdefghijklmnopqrstuvwxyz") if kind < 0.5 else rng.choice("ABCDEFGHIJKLMNOPQRSTUVWXYZ") if kind < 0.75 else rng.choice("0123456789")
        add(name, rng.choice(LATE_PARENTS) if rng.random() < 0.7 or not out else rng.choice(out)[0])
    return out


def library_tables():
    """The name-dispatched handler tables of the library itself: MultiFunction / Transformer subclasses defined in
    ufl's modules, with their candidate handler attribute names."""
    import importlib
    import inspect
    import pkgutil

    import ufl
    from ufl.algorithms.transformer import Transformer
    from ufl.corealg.multifunction import MultiFunction

    found = {}
    for m in pkgutil.walk_packages(ufl.__path__, "ufl."):
        try:
            mod = importlib.import_module(m.name)
        except ImportError:
            continue
        for o in vars(mod).values():
            if inspect.isclass(o) and o.__module__ == mod.__name__ and issubclass(o, (MultiFunction, Transformer)) and o not in (MultiFunction, Transformer):
                found[f"{o.__module__}.{o.__qualname__}"] = o
    out = []
    for qn in sorted(found):
        o = found[qn]
        out.append({"name": qn, "cls": o, "engine": "mf" if issubclass(o, MultiFunction) else "tr", "attrs": sorted(a for a in dir(o) if ATTR_RE.fullmatch(a))})
    return out


def dispatch_cases(n_types, mro, seed, tier):
    rng = random.Random(seed * 7919 + 19)
    cases, seen = [], set()

    def add(s):
        fs = frozenset(s)
        if fs not in seen:
            seen.add(fs)
            cases.append(sorted(fs))

    add([])
    for chain in mro:  # all single ancestors and all pairs of ancestors of every class
        for a in chain:
            add([a])
        for a, b in itertools.combinations(chain, 2):
            add([a, b])
    k = 1 if tier == "quick" else 12
    for chain in mro:  # random subsets of the ancestors of every class (+ sometimes an unrelated type)
        for _ in range(k):
            s = [a for a in chain if rng.random() < 0.5]
            if rng.random() < 0.3:
                s.append(rng.randrange(1, n_types + 1))
            add(s)
    return cases


def _logger(name, nargs):
    if nargs == "post":
        return lambda self, o, *ops: name
    return lambda self, o: name


def _bound(call, dummy, by_name):
    """Index of the type whose handler `call` binds to the type of `dummy` (0: the ufl_type handler, -1: an
    attribute that is none of the handlers of the table)."""
    try:
        r = call(dummy)
    except ValueError:  # MultiFunction.undefined / Transformer.undefined = the ufl_type handler
        r = "ufl_type"
    except Exception:  # noqa: BLE001
        return -1
    if r is dummy:  # Transformer.terminal = Transformer.reuse
        r = "terminal"
    if r == "ufl_type":
        return 0
    return by_name.get(r, -1) if isinstance(r, str) else -1


def observe_dispatch(classes, idx, case, hn):
    """Build the three algorithm classes defining exactly the handlers of `case`, MultiFunction / Transformer under
    the handler names `hn` of the SPEC (hn[t-1] for type t); bound handler per type."""
    from functools import singledispatchmethod

    from ufl.algorithms.transformer import Transformer
    from ufl.corealg.dag_traverser import DAGTraverser
    from ufl.corealg.multifunction import MultiFunction

    by_name = {hn[i]: i + 1 for i in range(len(classes))}
    defined = {hn[t - 1] for t in case}
    MF = type("MF", (MultiFunction,), {n: _logger(n, "post") for n in defined})
    TR = type("TR", (Transformer,), {n: _logger(n, "pre") for n in defined})

    class DT(DAGTraverser):
        @singledispatchmethod
        def process(self, o, **kw):
            return "ufl_type"

    for t in case:
        DT.process.register(classes[t - 1])(_logger(hn[t - 1], "pre"))
    # a handler table that cannot even be built (e.g. a cached table of ANOTHER class naming handlers this class
    # lacks) binds no type to its handler: every entry is reported as -1, like a call that raises
    try:
        mf = MF()
    except Exception:  # noqa: BLE001
        mf = None
    try:
        tr = TR()
    except Exception:  # noqa: BLE001
        tr = None
    disp = DT.__dict__["process"].dispatcher
    got = {"mf": [], "tr": [], "dt": []}
    for c in classes:
        dummy = _Dummy(c)
        got["mf"].append(_bound(mf, dummy, by_name) if mf is not None else -1)
        got["tr"].append(_bound(tr.visit, dummy, by_name) if tr is not None else -1)
        r = disp.dispatch(c)(None, None)
        got["dt"].append(by_name.get(r, 0) if r != "ufl_type" else 0)
    return got


def observe_library(classes, lib, defs, hn):
    """A handler table of the library: which of ITS handlers is bound to every type.  The handlers (the attributes
    that are handler names of the spec, `defs` = their types) are overridden by loggers in a subclass, which is
    initialised as the algorithm base class only."""
    from ufl.algorithms.transformer import Transformer
    from ufl.corealg.multifunction import MultiFunction

    by_name = {hn[i]: i + 1 for i in range(len(classes))}
    post = "post" if lib["engine"] == "mf" else "pre"
    ns = {hn[t - 1]: _logger(hn[t - 1], post) for t in defs}
    ns["ufl_type"] = _logger("ufl_type", post)
    W = type("W_" + lib["cls"].__name__, (lib["cls"],), ns)
    obj = W.__new__(W)
    (MultiFunction if lib["engine"] == "mf" else Transformer).__init__(obj)
    call = obj if lib["engine"] == "mf" else obj.visit
    return [_bound(call, _Dummy(c), by_name) for c in classes]


def late_child():
    """Child process: register the late types, observe the cases that involve them (stdin/stdout: JSON)."""
    import sys

    req = json.load(sys.stdin)
    classes, idx, bases, mro, names = dispatch_universe(req["late"], register=True)
    if len(classes) != len(req["hn"]) or names != req["names"]:
        raise MachineryError("the child process sees another type registry")
    out = {
        "code_names": [c._ufl_handler_name_ for c in classes],
        "got": [observe_dispatch(classes, idx, case, req["hn"]) for case in req["cases"]],
    }
    print(LATE_MARK + json.dumps(out), flush=True)


def observe_late(late, names, hn, cases):
    """observe_dispatch for `cases` in a fresh interpreter in which the late types are registered."""
    import os
    import subprocess
    import sys

    root = os.path.dirname(os.path.dirname(os.path.dirname(os.path.abspath(__file__))))
    p = subprocess.run(
        [sys.executable, "-c", "from vf.checks.c19 import late_child; late_child()"],
        input=json.dumps({"late": late, "names": names, "hn": hn, "cases": cases}), capture_output=True, text=True, cwd=root, timeout=600,
    )  # fmt: skip
    line = next((ln for ln in p.stdout.splitlines() if ln.startswith(LATE_MARK)), None)
    if p.returncode != 0 or line is None:
        raise MachineryError(f"late-type child process failed (exit {p.returncode}):\n" + "\n".join(p.stderr.splitlines()[-12:]))
    return json.loads(line[len(LATE_MARK) :])


def dispatch_tlc(seed, tier, libs):
    """Export the class graph, the class names, the attribute names of the algorithm base classes and of the
    library's handler tables and the cases; TLC checks the laws and prints the predicted tables."""
    classes, idx, bases, mro, names = dispatch_universe()
    late = late_types(names, seed, tier)
    classes, idx, bases, mro, names = dispatch_universe(late)
    if any(not n.isascii() or not n.isalnum() for n in names):
        raise MachineryError("a class name is not an alphanumeric CamelCase name: extend HandlerResolution.IsName")
    pre = base_attrs()
    cases = dispatch_cases(len(names), mro, seed, tier)
    alphabet, maxlen = NAME_ALPHABET[tier]

    def attrset(v):
        return "{" + ", ".join(tlc.tla(chars(a)) for a in v) + "}"

    mc = (
        "---- MODULE MC_HandlerResolution ----\nEXTENDS HandlerResolution\n"
        f"MCBases == {tlc.tla(bases)}\nMCNames == {tlc.tla([chars(n) for n in names])}\n"
        f"MCCases == {tlc.tla([set(c) for c in cases])}\n"
        f"MCAttrCases == <<{', '.join(attrset(lib['attrs']) for lib in libs)}>>\n"
        f"MCAttrMF == {attrset(pre['MF'])}\nMCAttrTR == {attrset(pre['TR'])}\nMCAttrDT == {attrset(pre['DT'])}\n"
        f"MCAlphabet == {tlc.tla(set(alphabet))}\n====\n"
    )
    res = tlc.run("HandlerResolution", DISPATCH_CFG % maxlen, mc_text=mc, mc_name="MC_HandlerResolution", workers=1, timeout=1800, env={"JAVA_TOOL_OPTIONS": JAVA_OPTS})
    return res, cases, late, libs


def shape_of(name):
    """The shape of a class name: A = capitals, a = lower-case letters, 0 = digits, runs collapsed."""
    s = "".join("A" if ch.isupper() else "a" if ch.islower() else "0" if ch.isdigit() else "?" for ch in name)
    return "".join(ch for i, ch in enumerate(s) if i == 0 or s[i - 1] != ch)


def run_dispatch(ctx, tlc_out, selftest=False):
    from ufl.core.expr import Expr

    res, cases, late, libs = tlc_out
    classes, idx, bases, mro, names = dispatch_universe(late)
    n_real = len(classes)
    ctx.add_tlc(res)
    require_ok(res, "HandlerResolution")
    rows = tlc.decode_prints(res)
    lin = [r for r in rows if "lin" in r]
    nrow = [r for r in rows if "names" in r]
    rows = {r["case"]: r for r in rows if "case" in r}
    if len(lin) != 1 or len(nrow) != 1 or len(rows) != len(cases) + len(libs):
        raise MachineryError(f"HandlerResolution printed {len(rows)} rows for {len(cases)} + {len(libs)} cases")
    # the exported graph reproduces Python's own linearisation of every class (UFL types only)
    if lin[0]["lin"] != mro:
        badc = [names[i] for i in range(len(names)) if lin[0]["lin"][i] != mro[i]]
        raise MachineryError(f"C3 linearisation of the exported class graph differs from __mro__ for {badc}")
    hn = ["".join(x) for x in nrow[0]["names"]]  # the handler names of the spec
    if len(hn) != len(names) or len(set(hn)) != len(hn):
        raise MachineryError("handler names of the spec: one distinct name per type expected")
    if nrow[0]["predt"] != nrow[0]["premf"]:
        raise MachineryError("DAGTraverser predefines handler names that MultiFunction does not: extend HandlerResolution.Row")
    # the cases that involve a late type are observed in a child process that registers the late types; so is
    # every second one of the other cases (there, the late types are dispatched to the handlers of their ancestors)
    late_k = [k for k, case in enumerate(cases) if any(t > n_real for t in case)]
    plain_k = [k for k, case in enumerate(cases) if not any(t > n_real for t in case)]
    child_k = late_k[:40] if selftest else late_k + plain_k[1::2]
    here_k = plain_k if selftest else plain_k[0::2]
    if not late_k:
        raise MachineryError("no dispatch case involves a late type")
    with cf.ThreadPoolExecutor(max_workers=1) as tex:
        f_late = tex.submit(observe_late, late, names, hn, [cases[k] for k in child_k])
        if selftest:
            row = rows[2]
            t = cases[1][0] - 1
            row["mf"][t] = 0 if row["mf"][t] else 1
            k0 = late_k[0]
            rows[k0 + 1]["tr"][cases[k0][-1] - 1] = 0  # a late type with its own handler: predicted "none bound"
        n_bad_selftest = {"registered": 0, "late": 0}
        reported = set()

        def violation(fp, what, rep):
            """One report per fingerprint (a wrong handler name shows in every case that defines the handler)."""
            ctx.count("dispatch_mismatches")
            if fp not in reported:
                reported.add(fp)
                ctx.violation(fp, what, rep)

        engines = {"mf": "MultiFunction", "tr": "Transformer", "dt": "DAGTraverser"}
        code_names = [c._ufl_handler_name_ for c in classes]
        for i in range(n_real):
            if code_names[i] != hn[i]:
                ctx.count(f"handler_name_differs:{names[i]}:code-{code_names[i]}:spec-{hn[i]}")

        def judge(k, got, code_names, where):
            case, row = cases[k], rows[k + 1]
            if row["d"] != case:
                raise MachineryError(f"row {k + 1} of HandlerResolution is not case {k + 1}")
            ctx.traces(1)
            row["dt"] = row["mf"]  # same predefined set (checked above and by the module's ASSUME)
            for key, engine in engines.items():
                for i in range(len(got[key])):
                    ctx.evaluated()
                    want, have = row[key][i], got[key][i]
                    if want and want != i + 1:
                        ctx.distinct(f"disp|{key}|{i}|{want}|{len(case)}")
                    if i >= n_real and want == i + 1:
                        ctx.distinct(f"late|{key}|{names[i]}|{len(case)}")
                    if want == have:
                        continue
                    is_expr = i >= n_real or issubclass(classes[i], Expr)
                    if selftest:
                        n_bad_selftest["late" if i >= n_real else "registered"] += is_expr
                        continue
                    wn = names[want - 1] if want else "ufl_type"
                    hname = names[have - 1] if have > 0 else "ufl_type" if have == 0 else "<an attribute that is no handler of the table>"
                    if not is_expr:
                        # base forms whose MRO passes through non-UFL bases: not expression types
                        ctx.count("baseform_types_resolved_differently")
                        ctx.count(f"baseform_dispatch:{engine}:{names[i]}:got-{hname}-nearest-{wn}")
                        continue
                    by_name = bool(want) and key != "dt" and code_names[want - 1] != hn[want - 1]
                    who = names[i] if i < n_real else "late-type:" + shape_of(names[want - 1] if by_name else names[i])
                    violation(
                        f"C19:dispatch:{engine}:{who}" + (":handler-name" if by_name else ""),
                        f"{engine} subclass defining {[hn[t - 1] for t in case]} binds {names[i]}{where} to {hname}; nearest ancestor with a handler is {wn}"
                        + (f" (handler name of {wn}: {hn[want - 1]!r}, the code derives {code_names[want - 1]!r})" if by_name else ""),
                        {"kind": "dispatch", "engine": key, "class": names[i], "case": [names[t - 1] for t in case], "expected": wn,
                         "handlers": [hn[t - 1] for t in case], "late": late if max([i + 1] + case) > n_real else []},
                    )  # fmt: skip

        for k in here_k:
            judge(k, observe_dispatch(classes, idx, cases[k], hn), code_names, "")
        # the handler tables of the library itself
        n_lib_proper = 0
        for j, lib in enumerate(libs):
            row = rows[len(cases) + j + 1]
            defs = [t for t in row["d"] if t <= n_real]
            got = observe_library(classes, lib, defs, hn)
            ctx.traces(1)
            for i in range(n_real):
                ctx.evaluated()
                want, have = row[lib["engine"]][i], got[i]
                if want and want != i + 1:
                    n_lib_proper += 1
                    ctx.distinct(f"lib|{lib['name']}|{i}|{want}")
                if want == have or selftest:
                    continue
                wn = names[want - 1] if want else "ufl_type"
                hname = names[have - 1] if have > 0 else "ufl_type" if have == 0 else "<other attribute>"
                if not issubclass(classes[i], Expr):
                    ctx.count(f"baseform_dispatch:{lib['name']}:{names[i]}:got-{hname}-nearest-{wn}")
                    continue
                by_name = bool(want) and code_names[want - 1] != hn[want - 1]
                violation(
                    f"C19:dispatch:library-table:{lib['cls'].__name__}:{names[i]}" + (":handler-name" if by_name else ""),
                    f"{lib['name']} (handlers {[hn[t - 1] for t in defs]}) binds {names[i]} to its handler {hn[have - 1] if have > 0 else 'ufl_type' if have == 0 else '<other attribute>'!r}; "
                    f"the nearest ancestor for which it defines a handler is {wn} ({hn[want - 1] if want else 'ufl_type'!r})",
                    {"kind": "library-dispatch", "table": lib["name"], "class": names[i], "defs": [names[t - 1] for t in defs],
                     "handlers": [hn[t - 1] for t in defs], "expected": wn},
                )  # fmt: skip
        if not libs or n_lib_proper == 0:
            raise MachineryError("no handler table of the library resolves a type to a proper ancestor: the library cases are vacuous")
        child = f_late.result()
    if child["code_names"][:n_real] != code_names:
        raise MachineryError("the child process derives other handler names for the import-time types")
    for i in range(n_real, len(names)):
        if child["code_names"][i] != hn[i]:
            ctx.count(f"handler_name_differs:late-type:{shape_of(names[i])}")
    if len(child["got"]) != len(child_k):
        raise MachineryError("the child process observed another number of cases")
    for k, got in zip(child_k, child["got"]):
        judge(k, got, child["code_names"], " [late types registered]")
    ctx.count("dispatch_cases", len(cases))
    ctx.count("dispatch_cases_with_late_types", len(late_k))
    ctx.count("dispatch_types", n_real)
    ctx.count("dispatch_late_types", len(late))
    ctx.count("library_handler_tables", len(libs))
    k = min(400, len(cases))
    bound = {}
    for cn in ("Sum", "Coefficient", "Cofunction"):
        w = rows[k]["mf"][names.index(cn)]
        bound[cn] = hn[w - 1] if w else "ufl_type"
    ctx.sample({"handlers_defined": [hn[t - 1] for t in cases[k - 1]], "multifunction_binds": bound})
    ctx.sample({"handler_names_of_the_spec": {n: hn[names.index(n)] for n in ["Atan2", "ExprList", "EQ"] + [x[0] for x in late[:6]]}})
    return n_bad_selftest


# ==========================================================================================
# bigger DAGs: real code against the validated Python transcription
# ==========================================================================================


def random_dag(rng, n, arity):
    nodes = [{"lab": rng.choice((1, 2)), "ops": []}]
    for i in range(2, n + 1):
        if rng.random() < 0.3:
            nodes.append({"lab": rng.choice((1, 2)), "ops": []})
        else:
            k = rng.randint(1, arity)
            # bias towards recent nodes so that the DAG is deep, and towards sharing
            ops = [max(1, i - 1 - int(rng.expovariate(0.6))) for _ in range(k)]
            nodes.append({"lab": rng.choice((A_LIST, A_LIST, B_MAPPING)), "ops": ops})
    return nodes


def dt_extra_failures(env, d, job, obs):
    """Larger DAGs: the rule log against the memoised recursion of the model (dt_model, validated
    against TLC on every TLC DAG), and the MultiFunction-per-context realisation of the same rules."""
    pf = []
    sim = dt_model(d, job)
    if obs["calls"] != sim["calls"]:
        pf.append("InvDtCache:rule-log")
    if job["mode"] == "reuse" and job["table"] != "kwfirst":
        try:
            cbad = ctxmf_failures(sim, *run_ctxmf(env, d, job))
        except Exception as e:  # noqa: BLE001
            cbad = [f"exception-{type(e).__name__}"]
        pf += ["ctx-multifunction:" + b for b in cbad]
    return pf


def big_dags(ctx, env, count):
    rng = random.Random(ctx.seed * 104729 + 1919)
    jobs = TRAV + [J("map", t, c, m) for t, c, m in (("reuse", True, "list"), ("renamenc", True, "rlist"), ("rename", False, "calls"), ("const", False, "list"), ("constcut", True, "calls"))]
    kwjobs = [J("dt", t, c, m, top) for t, c, m, top in (("kwset", True, "reuse", 1), ("kwadd", True, "reuse", 2), ("kwadd", False, "shared", 3), ("kwfirst", True, "fresh", 0))]
    for _ in range(count):
        nodes = random_dag(rng, rng.randint(6, 10), 3)
        d = Dag(nodes)
        ctx.count("python_transcription_dags")
        if d.nontrivial():
            ctx.distinct("big|" + d.key())
        for job in jobs + kwjobs:
            obs = run_real(env, d, job)
            ctx.evaluated()
            pf = ["exception:" + obs["exception"]] if "exception" in obs else property_failures(d, job, obs)
            if job["fn"] == "dt" and not pf:
                pf += dt_extra_failures(env, d, job, obs)
                if len({json.dumps(c[1]) for c in obs["calls"]}) > 1:
                    ctx.distinct(f"bigkw|{d.key()}|{job['table']}|{job['top']}")
            if job["fn"] in ("pre", "upre") and "exception" not in obs:
                if obs["leaves"] != [x for x in obs["out"] if d.lab(x) < 10]:
                    pf.append("terminals-filter")
            if pf:
                ctx.violation(
                    f"C19:{job_name(job)}:property:{'+'.join(p.split(':')[0] + ':' + p.split(':')[1] if ':' in p else p for p in pf)}",
                    f"{job_name(job)} on dag {d.key()} violates {pf}: out={obs['out']} rterms={obs['rterms']}",
                    {"kind": "property", "dag": nodes, "job": job},
                )


# ==========================================================================================
# driver
# ==========================================================================================


def handle_model_failure(ctx, env, r):
    """An invariant of the as-coded model failed: does the real code misbehave in the same way?"""
    t = r["tlc"]
    if not r["trace"]:
        raise MachineryError(f"TLC {r['cfg']} shard {r['shard']}: {t['outcome']} {t['violated']} without a trace")
    st = tlc.parse_state(r["trace"][-1][1])
    nodes = [{"lab": x["lab"], "ops": list(x["ops"])} for x in st["dag"]]
    job = {k: st["jrec"][k] for k in ("fn", "table", "compress", "mode", "top", "key")}
    d = Dag(nodes)
    if t["outcome"] != "invariant":
        raise MachineryError(f"TLC {r['cfg']}: {t['outcome']} on dag {d.key()} job {job_name(job)} (model does not terminate cleanly)")
    if job["key"] != "full":
        raise MachineryError(f"TLC {r['cfg']}: {t['violated']} on a weakened-key job {job_name(job)}, dag {d.key()}")
    obs = run_real(env, d, job)
    pf = ["exception:" + obs["exception"]] if "exception" in obs else property_failures(d, job, obs)
    if pf:
        ctx.violation(
            f"C19:{job_name(job)}:property:{'+'.join(pf)}",
            f"TLC: {t['violated']} fails on the as-coded model for dag {d.key()} job {job_name(job)}, and the real code violates {pf}: out={obs['out']} rterms={obs['rterms']}",
            {"kind": "property", "dag": nodes, "job": job},
        )
    else:
        raise MachineryError(
            f"TLC: {t['violated']} fails on the model for dag {d.key()} job {job_name(job)} but the real code satisfies the property: the model is wrong"
        )


def liveness_tlc():
    c = dict(nmin=1, nmax=3, arity=2, nshards=1, connected=False)
    return tlc.run(
        "Traversal", traversal_cfg(c, 0, emit=False, liveness=True), mc_text=traversal_mc(TRAV + MAP2 + [DT9[1], DT9[8]]), mc_name="MC_Traversal",
        deadlock=True, workers=2, timeout=900, env={"JAVA_TOOL_OPTIONS": JAVA_OPTS},
    )  # fmt: skip


def run(ctx, args):
    selftest = bool(getattr(args, "selftest", False))
    ctx.rule = (
        "TLC builds every DAG with the stated number of nodes (each node: Coefficient 1|2, or ExprList|ExprMapping "
        "over 1..arity earlier nodes), runs every job (7 traversal functions, map_expr_dags for handler table x "
        "compress x call mode) on the as-coded model and prints the predicted behaviours; each (DAG, job) is "
        "replayed on freshly built real objects (one object per node id) and all observables are compared. A DAG "
        "is counted as distinct non-trivial when some node is used twice or two distinct reachable nodes are "
        "structurally equal; a dispatch case when the nearest defining ancestor is a proper ancestor. Random "
        "larger DAGs (6-10 nodes, arity <= 3) are checked against the Python transcription of the spec's "
        "recursive definitions, itself compared with TLC on every TLC DAG. Jobs fn=dt: DAGTraverser subclasses "
        "whose rules take keyword arguments (rule table kwset|kwadd|kwfirst x one traverser reused on the two "
        "roots | two traversers sharing the cache dicts | two independent traversers x compress x top-level "
        "keyword arguments); results and the log of rule invocations (node class, ordered context, result) are "
        "compared with the model whose cache key is (node, full context), and the same rules as one MultiFunction "
        "+ vcache/rcache per context under map_expr_dag must give the same results with each (class, context) "
        "handled once. A dt case is counted as distinct non-trivial when rules ran under at least two contexts. "
        "Dispatch: the type universe is the import-time registry plus late types registered with @ufl_type in a "
        "child process (fixed shapes of class names - digits after letters, capitals after digits, runs of capitals - "
        "and seeded random CamelCase names); a handler table is a set of attribute names, built under the handler "
        "names that the SPEC derives from the class names (TypeName -> type_name), for all single ancestors, pairs of "
        "ancestors and random subsets of ancestors of every type; the name-dispatched handler tables of the library "
        "itself (every MultiFunction / Transformer subclass in ufl's modules) are further cases, their handlers "
        "overridden by loggers. A late-type case is counted when a late type is bound to its own handler."
    )
    ctx.assume("expressions are finite acyclic ufl expression DAGs whose == / hash are structural (ufl.exprequals), including its documented side effect that a successful == between distinct equal operators makes them share one operand tuple")
    ctx.assume("sibling order is not part of the property: pre_traversal, post_traversal and the cutoff variants visit operands right-to-left, unique_post_traversal left-to-right; the spec's recursive definitions use the as-coded sibling order and the parent/child order is checked separately")
    ctx.assume("handler tables are MultiFunction subclasses: reuse_if_untouched everywhere, rename of one terminal (as cutoff and as post handler), constant result for one operator type (post handler and cutoff handler); traversal `visited` arguments are left at their default")
    ctx.assume("context arguments: DAGTraverser.__call__(node, **kwargs) accepts keyword arguments only (no positional context in this version); MultiFunction / map_expr_dags pass no context to handlers, so a context is one MultiFunction object with its own vcache/rcache (the pattern of apply_restrictions.py / remove_component_tensors.py). Keyword values are small ints (hashable, == is identity of value); the order of the keywords is part of the as-coded cache key (two orders of the same keywords are two entries with equal results), the model keeps it")
    ctx.assume("handler names: class names are alphanumeric CamelCase; the handler name of TypeName is type_name, a new word starting at every capital that follows a lower-case letter or a digit (HandlerResolution.HandlerName; e.g. Atan2 -> atan2, as the library's own tables spell it); late types are direct or indirect subtypes of Operator, Terminal or MathFunction and are all registered before the first algorithm object is built (later registration is property C20)")
    ctx.assume("nearest ancestor = first class of the C3 linearisation of the UFL class graph (checked equal to __mro__ restricted to UFL types) that defines a handler; Transformer predefines `terminal`; BaseForm types (not Expr) are reported separately")
    ctx.assume("CPython set/dict lookups call stored_key.__eq__(probe) only for distinct objects with equal hash (identity is tested first)")

    libs = library_tables()  # imports every ufl module: before anything looks at the type registry, before the pools start
    env = Env.get()
    cfgs = configs(ctx.tier)
    tasks = [(c, s, c["workers"], False) for c in cfgs for s in range(c.get("shards", c["nshards"]))]
    if selftest:
        tasks = tasks[:1]
    pool_size = 4 if ctx.tier == "quick" else 6
    results = []
    n_self_bad = {}
    t0 = time.time()
    with cf.ProcessPoolExecutor(max_workers=pool_size) as ex, cf.ThreadPoolExecutor(max_workers=2) as tex:
        futs = [ex.submit(shard_task, t) for t in tasks]  # worker processes are forked here
        # meanwhile, in this process: the two small TLC runs (threads wait for the subprocesses),
        # the bigger DAGs and the dispatch observations
        f_disp = tex.submit(dispatch_tlc, ctx.seed, ctx.tier, libs)
        f_live = None if selftest else tex.submit(liveness_tlc)
        if not selftest:
            big_dags(ctx, env, 300 if ctx.tier == "quick" else 20000)
            print(f"[C19] larger random DAGs done at {time.time() - t0:.1f}s", flush=True)
        n_self_bad = run_dispatch(ctx, f_disp.result(), selftest=selftest)
        print(f"[C19] dispatch done at {time.time() - t0:.1f}s", flush=True)
        if f_live is not None:
            res = f_live.result()
            ctx.add_tlc(res)
            require_ok(res, "Traversal liveness (Termination)")
        for f in futs:
            results.append(f.result())
    print(f"[C19] {len(results)} TLC shard runs + conformance done at {time.time() - t0:.1f}s", flush=True)

    per_cfg = {}
    weak_seen = {j["key"]: 0 for c in cfgs for j in c["jobs"] if j["key"] != "full"}
    for r in results:
        t = r["tlc"]
        ctx.add_tlc(SimpleNamespace(**t))
        if t["outcome"] in ("invariant", "deadlock", "property"):
            handle_model_failure(ctx, env, r)
            continue
        if t["outcome"] != "ok":
            raise MachineryError(f"TLC {r['cfg']} shard {r['shard']}: outcome={t['outcome']}\n{r['tail']}")
        acc = r["acc"]
        if acc["machinery"]:
            raise MachineryError("; ".join(acc["machinery"][:3]))
        pc = per_cfg.setdefault(r["cfg"], {"dags": 0, "behaviours": 0, "states": 0})
        pc["dags"] += acc["dags"]
        pc["behaviours"] += acc["behaviours"]
        pc["states"] += t["distinct"]
        ctx.traces(acc["behaviours"])
        ctx.evaluated(acc["evals"])
        ctx.count("tlc_dags_compared", acc["dags"])
        ctx.count("dagtraverser_runs", acc["dagtraverser"])
        ctx.count("dagtraverser_kwargs_behaviours", acc["dtkw"])
        ctx.count("multifunction_per_context_runs", acc["ctxmf"])
        for k, v in acc["weak"].items():
            weak_seen[k] = weak_seen.get(k, 0) + v
        for k in acc["keys"]:
            ctx.distinct("dag|" + k)
        for k in acc["kwkeys"]:
            ctx.distinct("kw|" + k)
        for s in acc["samples"]:
            ctx.sample(s)
        if selftest:
            doc = r["first_doc"]
            jobs = next(c for c in cfgs if c["name"] == r["cfg"])["jobs"]
            k = next(i for i, j in enumerate(jobs) if j["fn"] == "upost")
            doc = json.loads(json.dumps(doc))
            seq = doc["results"][k]["out"]
            doc["results"][k]["out"] = seq[::-1] if len(seq) > 1 else seq + [1]
            acc2 = new_acc()
            conform_dag(env, doc, jobs, acc2)
            # the corrupted prediction contradicts the transcription (machinery) — bypass it to show
            # that the comparison with the real code rejects it as well
            d = Dag(doc["dag"])
            rejected = bool(compare(doc["results"][k], run_real(env, d, jobs[k])))
            if not (rejected and (acc2["machinery"] or acc2["violations"])):
                raise MachineryError("selftest: a corrupted predicted visit sequence was accepted")
            print(f"selftest: corrupted upost prediction {doc['results'][k]['out']} rejected (real {run_real(env, d, jobs[k])['out']})")
            # a dt prediction whose context log has lost a keyword name (what a value-only key would give)
            k = next(i for i, j in enumerate(jobs) if j["fn"] == "dt" and j["key"] == "full")
            doc = next((x for x in tlc_docs_with_kw(r, k)), None)
            if doc is None:
                raise MachineryError("selftest: no dt prediction with a non-empty context")
            doc = json.loads(json.dumps(doc))
            d = Dag(doc["dag"])
            call = next(c for c in doc["results"][k]["calls"] if c[1])
            call[1][0][0] = KB if call[1][0][0] == KA else KA
            acc2 = new_acc()
            conform_dag(env, doc, jobs, acc2)
            rejected = bool(compare(norm_dt(d, doc["results"][k]), run_real(env, d, jobs[k]), DT_FIELDS))
            if not (rejected and (acc2["machinery"] or acc2["violations"])):
                raise MachineryError("selftest: a corrupted predicted rule log (keyword name) was accepted")
            print(f"selftest: corrupted dt rule log (keyword name swapped in {call}) rejected")
        for fp, what, rep in acc["violations"]:
            ctx.violation(fp, what, rep)
    if selftest:
        if min(n_self_bad.values()) < 1:
            raise MachineryError(f"selftest: a corrupted dispatch prediction was accepted ({n_self_bad})")
        print(f"selftest: corrupted dispatch predictions rejected (mismatches: {n_self_bad})")
        return
    # the judged DAGs and rule tables tell the full cache key from every weakened one (else: vacuous)
    for k, v in weak_seen.items():
        ctx.count(f"dags_where_key_{k}_differs_from_tree_recursion", v)
        if v == 0 and all(r["tlc"]["outcome"] == "ok" for r in results):
            raise MachineryError(f"no DAG of the run distinguishes the cache key '{k}' from (node, full context): the dt jobs are vacuous")
    if not weak_seen:
        raise MachineryError("no weakened-key job in the configurations")
    for c in cfgs:  # no printed line was lost: TLC printed exactly the DAGs of every shard
        want = expected_dag_counts(c)
        for r in results:
            if r["cfg"] == c["name"] and r["tlc"]["outcome"] == "ok" and r["acc"]["dags"] != want[r["shard"]]:
                raise MachineryError(f"{c['name']} shard {r['shard']}: {r['acc']['dags']} DAGs compared, {want[r['shard']]} expected")
    ctx.cov["per_configuration"] = per_cfg
    ctx.cov["exhaustive"] = all("shards" not in c for c in cfgs)
    for name, pc in per_cfg.items():
        if pc["dags"] == 0:
            raise MachineryError(f"configuration {name} produced no DAG")


def replay(ctx, doc):
    r = doc["replay"]
    env = Env.get()
    if "job" in r:
        r["job"] = {"top": 0, "key": "full", **r["job"]}  # replay files written before the dt jobs existed
    if r["kind"] == "behaviour":
        d = Dag(r["dag"])
        obs = run_real(env, d, r["job"])
        fields = DT_FIELDS if r["job"]["fn"] == "dt" else FIELDS
        bad = compare(r["predicted"], obs, fields)
        print("replay", job_name(r["job"]), "dag", d.key())
        for f in fields:
            print(f"  {f}: real={obs.get(f)} spec={r['predicted'].get(f)}")
        if bad:
            ctx.violation(doc["fingerprint"], f"replay: fields {bad} differ", r)
    elif r["kind"] == "property":
        d = Dag(r["dag"])
        obs = run_real(env, d, r["job"])
        pf = ["exception:" + obs["exception"]] if "exception" in obs else property_failures(d, r["job"], obs)
        if r["job"]["fn"] == "dt" and not pf:
            pf += dt_extra_failures(env, d, r["job"], obs)
        print("replay", job_name(r["job"]), "dag", d.key(), "out", obs["out"], "rterms", obs["rterms"], "violated", pf)
        if pf:
            ctx.violation(doc["fingerprint"], f"replay: {pf}", r)
    elif r["kind"] == "ctxmf":
        d = Dag(r["dag"])
        try:
            terms, calls = run_ctxmf(env, d, r["job"])
            bad = ctxmf_failures(r["predicted"], terms, calls)
        except Exception as e:  # noqa: BLE001
            terms, calls, bad = f"{type(e).__name__}: {e}", [], ["exception"]
        print("replay MultiFunction per context", job_name(r["job"]), "dag", d.key(), "terms", terms, "spec", r["predicted"]["rterms"])
        print("  handler calls", calls, "spec", r["predicted"]["calls"])
        if bad:
            ctx.violation(doc["fingerprint"], f"replay: {bad} differ", r)
    elif r["kind"] == "dagtraverser":
        d = Dag(r["dag"])
        terms, ncalls = run_dagtraverser(env, d, r["table"])
        print("replay dagtraverser", r["table"], "dag", d.key(), "terms", terms, "calls", ncalls, "spec", r["predicted"])
        if terms != r["predicted"]:
            ctx.violation(doc["fingerprint"], "replay: DAGTraverser result differs", r)
    elif r["kind"] == "transformer":
        d = Dag(r["dag"])
        terms = run_transformer(env, d, r["table"])
        print("replay transformer", r["table"], "dag", d.key(), "terms", terms, "spec", r["predicted"])
        if terms != r["predicted"]:
            ctx.violation(doc["fingerprint"], "replay: Transformer.visit result differs", r)
    elif r["kind"] == "dispatch":
        late = r.get("late", [])
        classes, idx, bases, mro, names = dispatch_universe(late)
        case = sorted(names.index(n) + 1 for n in r["case"])
        # the handler names of the spec for the types of the case (recorded); no other handler can be returned
        hn = [f"?{i}" for i in range(len(names))]
        for n, h in zip(r["case"], r.get("handlers") or [c._ufl_handler_name_ for c in classes if c.__name__ in r["case"]]):
            hn[names.index(n)] = h
        got = observe_late(late, names, hn, [case])["got"][0] if late else observe_dispatch(classes, idx, case, hn)
        have = got[r["engine"]][names.index(r["class"])]
        bound = names[have - 1] if have > 0 else "ufl_type" if have == 0 else "<other attribute>"
        print("replay dispatch", r["engine"], r["class"], "defined", r["case"], "as", [hn[t - 1] for t in case], "bound", bound, "expected", r["expected"])
        if bound != r["expected"]:
            ctx.violation(doc["fingerprint"], f"replay: bound {bound}, expected {r['expected']}", r)
    elif r["kind"] == "library-dispatch":
        classes, idx, bases, mro, names = dispatch_universe()
        lib = next(x for x in library_tables() if x["name"] == r["table"])
        hn = [f"?{i}" for i in range(len(names))]
        for n, h in zip(r["defs"], r["handlers"]):
            hn[names.index(n)] = h
        got = observe_library(classes, lib, [names.index(n) + 1 for n in r["defs"]], hn)
        have = got[names.index(r["class"])]
        bound = names[have - 1] if have > 0 else "ufl_type" if have == 0 else "<other attribute>"
        print("replay library table", r["table"], "class", r["class"], "bound", bound, "expected", r["expected"])
        if bound != r["expected"]:
            ctx.violation(doc["fingerprint"], f"replay: bound {bound}, expected {r['expected']}", r)


def main(argv=None):
    main_wrapper("C19", run, argv)
