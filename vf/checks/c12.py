"""C12 — signatures do not depend on incidental numbering or process state.

Model: spec/SigCounters.tla.  State = the process-global counters of ufl (Index, Coefficient,
Constant, Label, Mesh ufl_id); a user script (one instruction per constructor call) is written,
a prior history shifts the counters (Bump), the script runs against the live counters (Step) and
Finish computes the form signature as coded (operand order by cmp_expr with the repr-STRING
comparator for Constant / geometric quantities / Zero, renumbering of counted terminals, index
numbering by first occurrence in unique_pre_traversal order, raw repr of a Zero with free
indices).  SigInvariant: the signature equals the signature of the same script run from the
import-time counters.

The check
 (a) runs TLC on the intended machine (Comparator = "numeric", ZeroSig = "renumbered"): the invariant
     must hold (else MachineryError), and on the machine as coded ("repr", "raw"), one script family at
     a time: every counterexample is replayed on the real code (reproduced -> violation, else
     informational: the code no longer behaves as that transcription);
 (b) lets TLC emit every finished behaviour (script, offsets, signature structure) of the
     transcription that matches the code under test (probed) and replays all of them: for every
     script the partition of the offset vectors by REAL signature must equal the partition by
     MODEL signature;
 (c) checks the property itself on real ufl for a corpus of hand written recipes (forms with
     several constants / coefficients / geometric quantities on 1-2 meshes, index notation,
     variables, Zero-with-free-index branches, mixed elements, measures with subdomain ids and
     metadata, several integrals, ExternalOperator / Interpolate, derivative / action / adjoint /
     lhs / rhs) and seeded random scripts over a richer instruction set: every (program, offset
     vector, PYTHONHASHSEED) runs in its own process (a fork of a pristine interpreter started with
     that hash seed) that first performs the counter-shifting history and then builds the form by
     the same recipe; all signatures of one program must be identical.  Every discrepancy is
     diagnosed (which counter alone reproduces it; which terminal hashdata / which operand order
     changed and which terminal comparison decided it) and reported with a mechanism fingerprint.
"""

from __future__ import annotations

import copy
import gc
import json
import os
import queue
import random
import subprocess
import sys
import threading
import time
import traceback

KINDS5 = ["Index", "Coefficient", "Constant", "Label", "Mesh"]  # order of `off` in SigCounters.tla
KINDS = KINDS5 + ["BaseFormOperator"]

# =================================================================================================
# PART 1.  Real-code side.  Everything in this part runs inside a worker interpreter (started with a
# given PYTHONHASHSEED) or inside a child forked from it (one child per job).
# =================================================================================================


def _counter_value(cls):
    """Current value of the global counter of a Counted class (read-only: a copy is advanced)."""
    c = getattr(cls, "_counter", None)
    if c is None:
        return 0
    return next(copy.copy(c))


def read_counters():
    import ufl
    from ufl.classes import Coefficient, Constant, Label
    from ufl.core.base_form_operator import BaseFormOperator
    from ufl.core.multiindex import Index

    return {
        "Index": _counter_value(Index),
        "Coefficient": _counter_value(Coefficient),
        "Constant": _counter_value(Constant),
        "Label": _counter_value(Label),
        "Mesh": int(ufl.Mesh._ufl_global_id),
        "BaseFormOperator": _counter_value(BaseFormOperator),
    }


class Env:
    """Helpers shared by the script interpreter and the recipes (fresh objects only)."""

    def __init__(self):
        import ufl
        from vf.elements import LagrangeElement, MixedElement

        self.ufl = ufl
        self.cell = ufl.triangle
        self.L = LagrangeElement
        self.M = MixedElement
        self._spaces = {}

    def mesh(self):
        return self.ufl.Mesh(self.L(self.cell, 1, (2,)))

    def element(self, kind):
        L, c = self.L, self.cell
        if kind == "s":
            return L(c, 1)
        if kind == "s2":
            return L(c, 2)
        if kind == "v":
            return L(c, 1, (2,))
        if kind == "t":
            return L(c, 1, (2, 2))
        if kind == "m":
            return self.M([L(c, 2, (2,)), L(c, 1)])
        raise ValueError(kind)

    def space(self, mesh, kind="s"):
        k = (id(mesh), kind)
        if k not in self._spaces:
            self._spaces[k] = (mesh, self.ufl.FunctionSpace(mesh, self.element(kind)))
        return self._spaces[k][1]


class _ScratchDomain:
    """Built lazily (needs ufl): a user-defined domain for the constants of the prior history, so
    that shifting the Constant counter does not touch the Mesh counter."""

    _cls = None

    @classmethod
    def make(cls):
        if cls._cls is None:
            import ufl
            from ufl.domain import AbstractDomain

            class ScratchDomain(AbstractDomain):
                def __init__(self):
                    AbstractDomain.__init__(self, 2, 2)

                @property
                def meshes(self):
                    return (self,)

                def ufl_cell(self):
                    return ufl.triangle

                def __repr__(self):
                    return "ScratchDomain()"

            cls._cls = ScratchDomain
        return cls._cls()


def perform_history(delta):
    """Create and drop delta[K] objects of every counted class K (prior history of the process)."""
    import ufl
    from ufl.classes import Coefficient, Constant, ExternalOperator, Label
    from ufl.core.multiindex import Index

    E = Env()
    for _ in range(delta.get("Index", 0)):
        Index()
    for _ in range(delta.get("Label", 0)):
        Label()
    for _ in range(delta.get("Mesh", 0)):
        E.mesh()
    if any(delta.get(k, 0) for k in ("Coefficient", "Constant", "BaseFormOperator")):
        V = ufl.FunctionSpace(None, E.element("s"))  # a space without a mesh
        for _ in range(delta.get("Coefficient", 0)):
            Coefficient(V)
        dom = _ScratchDomain.make()
        for _ in range(delta.get("Constant", 0)):
            Constant(dom)
        one = ufl.as_ufl(1.0)
        for _ in range(delta.get("BaseFormOperator", 0)):
            ExternalOperator(one, function_space=V)


# ---- script interpreter (instruction set of SigCounters.tla plus a richer superset) -------------

GEO_KINDS = ["CellVolume", "Circumradius", "CellDiameter", "SpatialCoordinate"]


def run_script(script, E):
    """Execute a script (list of {"op", "a", "b", "c", "k"}; a, b, c are 1-based store positions).
    Returns the store."""
    import ufl
    import ufl.classes as C
    from ufl.core.multiindex import Index

    S = []

    def g(p):
        return S[p - 1]

    for ins in script:
        op = ins["op"]
        a, b, c, k = ins.get("a", 0), ins.get("b", 0), ins.get("c", 0), ins.get("k")
        if op == "mesh":
            r = E.mesh()
        elif op == "const":
            r = C.Constant(g(a))
        elif op == "vconst":
            r = C.Constant(g(a), shape=(2,))
        elif op in ("coef", "vcoef", "tcoef", "mcoef", "qcoef"):
            r = C.Coefficient(E.space(g(a), {"coef": "s", "vcoef": "v", "tcoef": "t", "mcoef": "m", "qcoef": "s2"}[op]))
        elif op == "arg":
            r = C.Argument(E.space(g(a), "s"), int(k))
        elif op == "varg":
            r = C.Argument(E.space(g(a), "v"), int(k))
        elif op == "geo":
            r = getattr(C, k or "CellVolume")(g(a))
        elif op == "index":
            r = Index()
        elif op == "lit":
            r = ufl.as_ufl(k)
        elif op == "idx":
            r = g(a)[g(b)]
        elif op == "idx2":
            r = g(a)[g(b), g(c)]
        elif op == "comp":
            r = g(a)[int(k)]
        elif op == "sum":
            r = g(a) + g(b)
        elif op == "sub":
            r = g(a) - g(b)
        elif op == "prod":
            r = g(a) * g(b)
        elif op == "div":
            r = g(a) / g(b)
        elif op == "neg":
            r = -g(a)
        elif op == "sq":
            r = g(a) ** 2
        elif op == "fn":
            r = abs(g(a)) if k == "abs" else getattr(ufl, k)(g(a))
        elif op == "zeromul":
            r = 0 * g(a)
        elif op == "cond":
            r = ufl.conditional(ufl.lt(g(a), 0), g(b), g(c))
        elif op == "var":
            r = ufl.variable(g(a))
        elif op == "diffv":
            r = ufl.diff(g(a), g(b))
        elif op in ("inner", "dot", "outer"):
            r = getattr(ufl, op)(g(a), g(b))
        elif op == "grad":
            r = ufl.grad(g(a))
        elif op == "astensor":
            r = ufl.as_tensor(g(a), (g(b),) if not c else (g(b), g(c)))
        elif op == "plus":
            r = g(a)("+")
        elif op == "integ":
            k = k or {}
            md = k.get("md")
            sid = k.get("id")
            if isinstance(sid, list):
                sid = tuple(sid)
            kw = {"domain": g(b)}
            if md:
                kw["metadata"] = md
            if sid is not None:
                kw["subdomain_id"] = sid
            r = g(a) * ufl.Measure(k.get("t", "dx"), **kw)
        elif op == "fadd":
            r = g(a) + g(b)
        elif op == "fder":
            r = ufl.derivative(g(a), g(b))
        elif op == "fexp":
            from ufl.algorithms import expand_derivatives

            r = expand_derivatives(g(a))
        else:
            raise ValueError(f"unknown instruction {op!r}")
        S.append(r)
    return S


def script_outputs(script, E):
    import ufl
    from ufl.classes import Expr, Form

    S = run_script(script, E)
    last = S[-1]
    if isinstance(last, Form):
        return {"form": last}
    if isinstance(last, Expr):
        return {"form": last * ufl.Measure("dx", domain=S[0]), "expr": last}
    raise ValueError("script does not end in an expression or a form")


# ---- hand written recipes: name -> function(E) -> {output name: Form | Expr} ------------------------

RECIPES = {}


def recipe(f):
    RECIPES[f.__name__[2:]] = f
    return f


def _std(E, n_mesh=1):
    """meshes and the usual spaces / functions, created in a fixed order."""
    ufl = E.ufl
    ms = [E.mesh() for _ in range(n_mesh)]
    return ufl, ms


@recipe
def r_const_product(E):
    ufl, (m,) = _std(E)
    c1, c2 = ufl.Constant(m), ufl.Constant(m)
    f = ufl.Coefficient(E.space(m))
    return {"form": c1 * c2 * f * ufl.dx, "expr": c2 * c1 * f}


@recipe
def r_const_sum(E):
    ufl, (m,) = _std(E)
    c1, c2 = ufl.Constant(m), ufl.Constant(m)
    f = ufl.Coefficient(E.space(m))
    return {"form": (c2 * f + c1 * f**2) * ufl.dx}


@recipe
def r_const_many(E):
    """Twelve constants created by the program itself (their counts cross a digit boundary at a
    place that depends on the prior history)."""
    ufl, (m,) = _std(E)
    f = ufl.Coefficient(E.space(m))
    cs = [ufl.Constant(m) for _ in range(12)]
    e = sum(c * f**k for k, c in enumerate(cs, 1))
    p = cs[0]
    for c in cs[1:]:
        p = p * c
    return {"form": e * ufl.dx, "form2": p * f * ufl.dx}


@recipe
def r_const_vector_tensor(E):
    ufl, (m,) = _std(E)
    c = ufl.Constant(m)
    v1, v2 = ufl.Constant(m, shape=(2,)), ufl.Constant(m, shape=(2,))
    t = ufl.Constant(m, shape=(2, 2))
    u = ufl.Coefficient(E.space(m, "v"))
    return {"form": (ufl.inner(v1 + v2, u) * c + ufl.dot(ufl.dot(t, v2), v1) + v1[0] * v2[1]) * ufl.dx}


@recipe
def r_const_two_meshes(E):
    ufl, (m1, m2) = _std(E, 2)
    c1, c2 = ufl.Constant(m1), ufl.Constant(m2)
    f = ufl.Coefficient(E.space(m1))
    return {"form": c1 * c2 * f * ufl.dx(m1), "form_b": (c2 + c1) * ufl.dx(m2)}


@recipe
def r_geo_two_meshes(E):
    ufl, (m1, m2) = _std(E, 2)
    f = ufl.Coefficient(E.space(m1))
    return {"form": ufl.CellVolume(m1) * ufl.CellVolume(m2) * f * ufl.dx(m1)}


@recipe
def r_coordinates_two_meshes(E):
    ufl, (m1, m2) = _std(E, 2)
    x1, x2 = ufl.SpatialCoordinate(m1), ufl.SpatialCoordinate(m2)
    return {"form": (x1[0] * x2[0] + ufl.inner(x2, x1)) * ufl.dx(m1)}


@recipe
def r_coefficients_two_meshes(E):
    ufl, (m1, m2) = _std(E, 2)
    f1, f2 = ufl.Coefficient(E.space(m1)), ufl.Coefficient(E.space(m2))
    g1 = ufl.Coefficient(E.space(m1, "v"))
    return {"form": f2 * f1 * ufl.dx(m1) + f1 * f2 * g1[0] * ufl.dx(m2) + f1 * ufl.ds(m2)}


@recipe
def r_zero_free_index(E):
    ufl, (m,) = _std(E)
    f, g = ufl.Coefficient(E.space(m)), ufl.Coefficient(E.space(m, "v"))
    i = ufl.Index()
    e = ufl.conditional(ufl.lt(f, 0), 0 * g[i], g[i]) * g[i]
    return {"form": e * ufl.dx, "expr": e}


@recipe
def r_zero_two_free_indices(E):
    ufl, (m,) = _std(E)
    f, A = ufl.Coefficient(E.space(m)), ufl.Coefficient(E.space(m, "t"))
    i, j = ufl.indices(2)
    e = ufl.conditional(ufl.gt(f, 1), A[i, j], 0 * A[j, i]) * A[i, j]
    return {"form": e * ufl.dx}


@recipe
def r_zero_operand_order(E):
    """Two operands that differ only in the free index a Zero branch carries."""
    ufl, (m,) = _std(E)
    f, g, h = ufl.Coefficient(E.space(m)), ufl.Coefficient(E.space(m, "v")), ufl.Coefficient(E.space(m, "v"))
    i, j = ufl.Index(), ufl.Index()
    a = ufl.conditional(ufl.lt(f, 0), 0 * g[i], g[i]) * h[i]
    b = ufl.conditional(ufl.lt(f, 0), 0 * g[j], g[j]) * h[j]
    return {"form": (a * ufl.exp(b)) * ufl.dx, "form2": (ufl.exp(b) * a + ufl.sin(a) * ufl.sin(b)) * ufl.dx}


@recipe
def r_zero_tensor_branch(E):
    ufl, (m,) = _std(E)
    f, g = ufl.Coefficient(E.space(m)), ufl.Coefficient(E.space(m, "v"))
    i = ufl.Index()
    z = ufl.as_tensor(0 * g[i], (i,))
    return {"form": ufl.inner(ufl.conditional(ufl.lt(f, 0), z, g), g) * ufl.dx}


@recipe
def r_index_notation(E):
    ufl, (m,) = _std(E)
    A, B = ufl.Coefficient(E.space(m, "t")), ufl.Coefficient(E.space(m, "t"))
    u, v = ufl.Coefficient(E.space(m, "v")), ufl.TestFunction(E.space(m, "v"))
    i, j, k, l = ufl.indices(4)
    e = A[i, j] * B[j, k] * u[k] * v[i] + ufl.as_tensor(A[i, k] * B[k, j], (i, j))[l, l] * u[i] * v[i]
    T = ufl.as_tensor(u[i] * v[j] + B[j, i], (i, j))
    return {"form": e * ufl.dx + ufl.inner(T, A) * ufl.dx, "expr": ufl.as_tensor(A[i, j] * u[j], (i,))}


@recipe
def r_index_many(E):
    """Twelve indices created by the program (counts cross a digit boundary inside the program)."""
    ufl, (m,) = _std(E)
    u, w = ufl.Coefficient(E.space(m, "v")), ufl.Coefficient(E.space(m, "v"))
    A = ufl.Coefficient(E.space(m, "t"))
    ii = ufl.indices(12)
    e = 0
    for n in range(0, 12, 2):
        i, j = ii[n], ii[n + 1]
        e = e + u[i] * A[i, j] * w[j] * (n + 1)
    return {"form": e * ufl.dx, "form2": ufl.exp(u[ii[3]] * w[ii[3]]) * ufl.sin(u[ii[9]] * w[ii[9]]) * ufl.dx}


@recipe
def r_grad_div_operators(E):
    ufl, (m,) = _std(E)
    V, W = E.space(m), E.space(m, "v")
    u, v = ufl.TrialFunction(V), ufl.TestFunction(V)
    b, c, k = ufl.Coefficient(W), ufl.Constant(m), ufl.Constant(m)
    a = (k * ufl.inner(ufl.grad(u), ufl.grad(v)) + c * ufl.dot(b, ufl.grad(u)) * v + ufl.div(b) * u * v) * ufl.dx
    return {"form": a, "form_ds": c * k * u * v * ufl.ds + ufl.inner(ufl.FacetNormal(m), b) * u * v * ufl.ds(1)}


@recipe
def r_variables(E):
    ufl, (m,) = _std(E)
    f, g = ufl.Coefficient(E.space(m)), ufl.Coefficient(E.space(m))
    c = ufl.Constant(m)
    v1, v2 = ufl.variable(f), ufl.variable(g * c)
    e = v1**2 * v2 + ufl.sin(v2) * v1
    F = ufl.diff(e, v1) * ufl.dx + ufl.diff(e, v2) * ufl.dx(1)
    from ufl.algorithms import expand_derivatives

    return {"form": F, "form_expanded": expand_derivatives(F), "form_vars": v2 * v1 * ufl.dx, "expr": v2 * v1}


@recipe
def r_labels_many(E):
    ufl, (m,) = _std(E)
    f = ufl.Coefficient(E.space(m))
    vs = [ufl.variable(f**k) for k in range(1, 13)]
    e = vs[0]
    for v in vs[1:]:
        e = e * v + v
    return {"form": e * ufl.dx, "form2": (vs[10] * vs[3] + vs[9] * vs[11]) * ufl.dx}


@recipe
def r_mixed_element(E):
    ufl, (m,) = _std(E)
    W = E.space(m, "m")
    w, (v, q) = ufl.Coefficient(W), ufl.TestFunctions(W)
    u, p = ufl.split(w)
    c1, c2 = ufl.Constant(m), ufl.Constant(m)
    F = (c1 * ufl.inner(ufl.grad(u), ufl.grad(v)) - c2 * p * ufl.div(v) + ufl.div(u) * q) * ufl.dx
    J = ufl.derivative(F, w)
    from ufl.algorithms import expand_derivatives

    return {"form": F, "form_J": J, "form_J_expanded": expand_derivatives(J)}


@recipe
def r_measures(E):
    ufl, (m,) = _std(E)
    f, g = ufl.Coefficient(E.space(m)), ufl.Coefficient(E.space(m))
    c1, c2 = ufl.Constant(m), ufl.Constant(m)
    dxm = ufl.Measure("dx", domain=m, metadata={"quadrature_degree": 3, "quadrature_rule": "default"})
    F = (
        c2 * c1 * f * ufl.dx(2)
        + c1 * g * ufl.dx(1)
        + f * g * ufl.dx((3, 1))
        + c2 * f * dxm
        + g * dxm(7, degree=1)
        + c1 * c2 * ufl.ds(3)
        + ufl.avg(f) * ufl.jump(g) * c2 * c1 * ufl.dS
        + f("+") * g("-") * ufl.dS(4)
        + f * ufl.dx(m)
    )
    return {"form": F}


@recipe
def r_several_integrals(E):
    ufl, (m1, m2) = _std(E, 2)
    f1, f2 = ufl.Coefficient(E.space(m1)), ufl.Coefficient(E.space(m2))
    c1, c2, c3 = ufl.Constant(m1), ufl.Constant(m2), ufl.Constant(m1)
    F = c3 * c1 * f1 * ufl.dx(m1) + c2 * f2 * ufl.dx(m2) + c1 * c3 * ufl.ds(m1) + f2 * c2 * ufl.ds(m2)(2) + f1**2 * ufl.dx(m1)
    return {"form": F, "form_rev": f1**2 * ufl.dx(m1) + f2 * c2 * ufl.ds(m2)(2) + c2 * f2 * ufl.dx(m2) + c3 * c1 * f1 * ufl.dx(m1)}


@recipe
def r_external_operator(E):
    ufl, (m,) = _std(E)
    from ufl.classes import ExternalOperator, Interpolate

    V = E.space(m)
    f, g = ufl.Coefficient(V), ufl.Coefficient(V)
    c1, c2 = ufl.Constant(m), ufl.Constant(m)
    v = ufl.TestFunction(V)
    N1 = ExternalOperator(f, c1 * c2, function_space=V)
    N2 = ExternalOperator(g, function_space=V, derivatives=(0,))
    Ip = Interpolate(f * c2 * c1, V)
    return {"form": N2 * N1 * v * ufl.dx + c2 * N1 * c1 * v * ufl.ds, "form_interp": Ip * N2 * v * ufl.dx}


@recipe
def r_form_operators(E):
    ufl, (m,) = _std(E)
    V = E.space(m)
    u, v = ufl.TrialFunction(V), ufl.TestFunction(V)
    w, f = ufl.Coefficient(V), ufl.Coefficient(V)
    c1, c2 = ufl.Constant(m), ufl.Constant(m)
    a = c2 * c1 * ufl.inner(ufl.grad(u), ufl.grad(v)) * ufl.dx + c1 * u * v * ufl.dx - c2 * f * v * ufl.dx
    F = c1 * c2 * w**2 * v * ufl.dx + ufl.inner(ufl.grad(w), ufl.grad(v)) * c2 * ufl.dx
    from ufl.algorithms import expand_derivatives

    J = ufl.derivative(F, w)
    out = {
        "lhs": ufl.lhs(a),
        "rhs": ufl.rhs(a),
        "adjoint": ufl.adjoint(ufl.lhs(a)),
        "action": ufl.action(ufl.lhs(a), w),
        "J": J,
        "J_expanded": expand_derivatives(J),
        "replace": ufl.replace(F, {w: f * c1}),
        "energy_norm": ufl.energy_norm(ufl.lhs(a), w),
        "sensitivity": expand_derivatives(ufl.derivative(ufl.action(ufl.lhs(a), w), w, f)),
    }
    return out


@recipe
def r_form_data(E):
    """The form a form compiler sees: compute_form_data(...).preprocessed_form and the integrands
    of its integral data (lowered algebra, applied derivatives, pulled back geometry)."""
    ufl, (m,) = _std(E)
    from ufl.algorithms import compute_form_data

    V, W = E.space(m), E.space(m, "v")
    u, v = ufl.TrialFunction(V), ufl.TestFunction(V)
    b, c1, c2 = ufl.Coefficient(W), ufl.Constant(m), ufl.Constant(m)
    i = ufl.Index()
    a = (c2 * c1 * ufl.inner(ufl.grad(u), ufl.grad(v)) + b[i] * u.dx(i) * v * c1 + ufl.CellVolume(m) * ufl.div(b) * u * v) * ufl.dx + c1 * c2 * u * v * ufl.ds
    fd = compute_form_data(
        a,
        do_apply_function_pullbacks=True,
        do_apply_integral_scaling=True,
        do_apply_geometry_lowering=True,
        preserve_geometry_types=(ufl.classes.Jacobian,),
        do_apply_restrictions=True,
    )
    out = {"form": a, "preprocessed": fd.preprocessed_form}
    for n, itd in enumerate(fd.integral_data):
        for k, itg in enumerate(itd.integrals):
            out[f"integral_data_{n}_{k}"] = ufl.Form([itg])
    return out


# ---- signatures and diagnosis dump --------------------------------------------------------------


def expr_renumbering(e):
    """The renumbering Form._compute_renumbering would use, for a bare expression."""
    from collections import defaultdict

    from ufl.algorithms.analysis import extract_type
    from ufl.domain import extract_domains
    from ufl.utils.counted import Counted
    from ufl.utils.sorting import sorted_by_count

    ren = {d: n for n, d in enumerate(extract_domains(e))}
    by = defaultdict(set)
    for t in extract_type(e, Counted):
        by[t._counted_class].add(t)
    for s in by.values():
        for n, t in enumerate(sorted_by_count(s)):
            ren[t] = n
    return ren


def signatures(outputs):
    from ufl.algorithms.renumbering import renumber_indices
    from ufl.algorithms.signature import compute_expression_signature
    from ufl.classes import Form

    sigs = {}
    for name, obj in outputs.items():
        if isinstance(obj, Form):
            sigs[name] = obj.signature()
            sigs[name + "|renumber_indices"] = renumber_indices(obj).signature()
        else:
            sigs[name] = compute_expression_signature(obj, expr_renumbering(obj))
            r = renumber_indices(obj)
            sigs[name + "|renumber_indices"] = compute_expression_signature(r, expr_renumbering(r))
    return sigs


def _decider(a, b):
    """The comparison that decides cmp_expr(a, b): walk both expressions the way cmp_expr does."""
    from ufl.sorting import cmp_expr

    stack = [(a, b)]
    while stack:
        x, y = stack.pop()
        if x._ufl_typecode_ != y._ufl_typecode_:
            return {"by": "typecode", "cls": [type(x).__name__, type(y).__name__]}
        if x._ufl_is_terminal_:
            c = cmp_expr(x, y)
            if c:
                return {"by": "terminal", "cls": [type(x).__name__], "a": repr(x)[-120:], "b": repr(y)[-120:], "c": c}
        else:
            xo, yo = x.ufl_operands, y.ufl_operands
            stack.extend((r, s) for r, s in zip(xo, yo) if r is not s)
            if len(xo) != len(yo):
                return {"by": "noperands", "cls": [type(x).__name__]}
    return {"by": "tie", "cls": []}


def dump(outputs):
    """Structure of every output with the terminal hashdata the signature uses and, for the
    commutative nodes, the terminal comparison that decided the operand order."""
    from ufl.algorithms.signature import compute_terminal_hashdata
    from ufl.classes import Form, Product, Sum, Zero

    out = {}
    for name, obj in outputs.items():
        if isinstance(obj, Form):
            ren = obj._compute_renumbering()
            parts = [(f"{it.integral_type()}|{it.subdomain_id()}|{sorted((it.metadata() or {}).items())!r}", it.integrand()) for it in obj.integrals()]
        else:
            ren = expr_renumbering(obj)
            parts = [("expr", obj)]
        th = compute_terminal_hashdata([e for _, e in parts], ren)
        memo = {}

        def rec(e):
            k = id(e)
            if k in memo:
                return memo[k]
            if e._ufl_is_terminal_:
                r = ["T", type(e).__name__, str(th[e])]
                if isinstance(e, Zero) and e.ufl_free_indices:
                    r.append(len(e.ufl_free_indices))
            else:
                r = ["O", type(e).__name__, [rec(o) for o in e.ufl_operands]]
                if isinstance(e, Sum | Product):
                    r.append(_decider(*e.ufl_operands))
            memo[k] = r
            return r

        out[name] = [[label, rec(e)] for label, e in parts]
    return out


def build_outputs(prog, E, counters):
    import ufl

    if prog["kind"] == "script":
        return script_outputs(prog["script"], E)
    if prog["kind"] == "recipe":
        return RECIPES[prog["name"]](E)
    if prog["kind"] == "selftest-order-dependent":
        # deliberately NOT the same creation order in every process: the two constants are created
        # in an order that depends on the prior history (must be flagged by the comparison)
        m = E.mesh()
        if counters["Constant"] % 2:
            c2, c1 = ufl.Constant(m), ufl.Constant(m)
        else:
            c1, c2 = ufl.Constant(m), ufl.Constant(m)
        return {"form": (c1 + 2 * c2) * ufl.dx}
    raise ValueError(prog["kind"])


def execute_chain(job):
    """Runs in a forked child of a pristine interpreter.  For every step: extend the prior history
    so that every counter named in `targets` stands at base + target (if it is already beyond:
    leave it, or skip the step when it is `exact`), run the program, record the observables and the
    effective shift of every counter at the moment the program started."""
    base = read_counters()
    out = []
    for step in job["steps"]:
        cur = read_counters()
        targets = step.get("targets") or {}
        delta = {k: base[k] + int(v) - cur[k] for k, v in targets.items()}
        if step.get("exact"):
            if any(d < 0 for d in delta.values()) or any(cur[k] != base[k] for k in KINDS if k not in targets):
                out.append({"ok": False, "skipped": True})
                continue
        perform_history({k: d for k, d in delta.items() if d > 0})
        start = read_counters()
        res = {"eff": {k: start[k] - base[k] for k in KINDS}}
        t0 = time.time()
        try:
            outputs = build_outputs(step["program"], Env(), start)
            res["sigs"] = signatures(outputs)
            if step.get("diag"):
                res["dump"] = dump(outputs)
            res["ok"] = True
        except Exception as e:  # noqa: BLE001
            res.update(ok=False, error=f"{type(e).__name__}: {e}"[:300], tb=traceback.format_exc()[-800:])
        res["t"] = round(time.time() - t0, 4)
        out.append(res)
    return {"base": base, "steps": out}


def worker_main():
    """A pristine interpreter: import everything, then serve jobs; every job runs in a fork."""
    import warnings

    warnings.simplefilter("ignore")
    import ufl
    import ufl.algorithms  # noqa: F401
    import ufl.algorithms.renumbering  # noqa: F401
    import ufl.algorithms.signature  # noqa: F401
    import vf.elements  # noqa: F401

    hello = {
        "hello": True,
        "ufl_file": ufl.__file__,
        "base": read_counters(),
        "hashseed": os.environ.get("PYTHONHASHSEED"),
        "hash_probe": hash("c12-probe"),
        "pid": os.getpid(),
    }
    sys.stdout.write(json.dumps(hello) + "\n")
    sys.stdout.flush()
    gc.collect()
    gc.freeze()
    for line in sys.stdin:
        line = line.strip()
        if not line:
            continue
        job = json.loads(line)
        r, w = os.pipe()
        pid = os.fork()
        if pid == 0:
            try:
                os.close(r)
                gc.disable()
                try:
                    out = execute_chain(job)
                    out["ok"] = True
                except BaseException as e:  # noqa: BLE001
                    out = {"ok": False, "error": f"{type(e).__name__}: {e}"[:400], "tb": traceback.format_exc()[-1200:]}
                with os.fdopen(w, "w") as f:
                    json.dump(out, f)
            finally:
                os._exit(0)
        os.close(w)
        with os.fdopen(r) as f:
            data = f.read()
        os.waitpid(pid, 0)
        if not data:
            data = json.dumps({"ok": False, "error": "child died without a result"})
        sys.stdout.write(data + "\n")
        sys.stdout.flush()


# =================================================================================================
# PART 2.  The checking process: worker pool, TLC, comparison, diagnosis.
# =================================================================================================

from .. import tlc  # noqa: E402
from ..common import ROOT, MachineryError, main_wrapper  # noqa: E402


class Worker:
    def __init__(self, seed):
        env = dict(os.environ)
        env["PYTHONHASHSEED"] = str(seed)
        env["PYTHONDONTWRITEBYTECODE"] = "1"
        self.seed = str(seed)
        self.p = subprocess.Popen(
            [sys.executable, "-m", "vf.checks.c12", "--worker"],
            cwd=ROOT,
            env=env,
            stdin=subprocess.PIPE,
            stdout=subprocess.PIPE,
            stderr=subprocess.DEVNULL,
            text=True,
            bufsize=1,
        )
        line = self.p.stdout.readline()
        if not line:
            raise MachineryError(f"worker with PYTHONHASHSEED={seed} did not start")
        self.hello = json.loads(line)

    def call(self, job):
        self.p.stdin.write(json.dumps(job) + "\n")
        self.p.stdin.flush()
        line = self.p.stdout.readline()
        if not line:
            raise MachineryError(f"worker (seed {self.seed}) died")
        return json.loads(line)

    def close(self):
        try:
            self.p.stdin.close()
            self.p.wait(timeout=10)
        except Exception:  # noqa: BLE001
            self.p.kill()


MAX_WORKERS = 3  # 1 checking process + 3 worker interpreters + 3 forked children <= 8 python processes


class Pool:
    """Runs chains {"seed", "steps"}: worker interpreters started with the hash seed of the chain (at
    most MAX_WORKERS alive), every chain in a fork of such a worker."""

    def __init__(self):
        self.hellos = []
        self.ufl_file = None
        self.base = None
        self.forks = 0
        self.deadline = None

    def check_hello(self, h):
        import ufl

        if os.path.realpath(h["ufl_file"]) != os.path.realpath(ufl.__file__):
            raise MachineryError(f"worker imports ufl from {h['ufl_file']}, the checking process from {ufl.__file__}")
        b = {k: h["base"][k] for k in KINDS}
        if self.base is None:
            self.base = b
        elif self.base != b:
            raise MachineryError(f"import-time counters differ between interpreters: {self.base} vs {b}")
        self.hellos.append({"hashseed": h["hashseed"], "hash_probe": h["hash_probe"]})

    def run(self, chains):
        results = [None] * len(chains)
        by_seed = {}
        for n, c in enumerate(chains):
            by_seed.setdefault(str(c["seed"]), []).append(n)
        units = queue.Queue()
        for s, idx in by_seed.items():
            size = max(1, min(60, -(-len(idx) // MAX_WORKERS)))
            for k in range(0, len(idx), size):
                units.put((s, idx[k : k + size]))
        errors = []
        lock = threading.Lock()

        def serve():
            while True:
                try:
                    s, idx = units.get_nowait()
                except queue.Empty:
                    return
                try:
                    w = Worker(s)
                    try:
                        with lock:
                            self.check_hello(w.hello)
                        for n in idx:
                            if self.deadline is not None and time.time() > self.deadline:
                                results[n] = {"ok": False, "error": "deadline", "deadline": True}
                                continue
                            results[n] = w.call({"steps": chains[n]["steps"]})
                            with lock:
                                self.forks += 1
                    finally:
                        w.close()
                except Exception as e:  # noqa: BLE001
                    errors.append(e)

        ths = [threading.Thread(target=serve) for _ in range(min(MAX_WORKERS, units.qsize()))]
        for t in ths:
            t.start()
        for t in ths:
            t.join()
        if errors:
            raise MachineryError(f"worker pool: {type(errors[0]).__name__}: {errors[0]}")
        return results


# ---- TLC -------------------------------------------------------------------------------------------

TC_NAMES = "Constant Coefficient CellVolume Zero MultiIndex Label Sum Product IndexSum Indexed Conditional LT Variable".split()
MODEL_OFFSETS = [0, 1, 8, 9, 10, 90, 98, 99, 100]
OPS = ["mesh", "const", "coef", "vcoef", "geo", "index", "idx", "sum", "prod", "zeromul", "cond", "var"]

# script families (Caps of SigCounters.tla)
FAM_CONST = dict(mesh=2, const=3, coef=1, vcoef=0, geo=2, index=0, idx=0, sum=2, prod=2, zeromul=0, cond=0, var=1)
FAM_INDEX = dict(mesh=1, const=0, coef=1, vcoef=1, geo=0, index=2, idx=2, sum=1, prod=2, zeromul=1, cond=1, var=0)
FAM_SMALL = dict(mesh=2, const=2, coef=1, vcoef=1, geo=1, index=1, idx=1, sum=1, prod=2, zeromul=1, cond=1, var=1)


def real_typecodes():
    import ufl.classes as C

    return {n: int(getattr(C, n)._ufl_typecode_) for n in TC_NAMES}


def mc_text(base, caps, cmp_of):
    return (
        "---- MODULE MC_SigCounters ----\nEXTENDS SigCounters\n"
        f"MCTC == {tlc.tla(real_typecodes())}\n"
        f"MCBase == {tlc.tla({k: base[k] for k in KINDS5})}\n"
        f"MCCmpOf == {tlc.tla(cmp_of)}\n"
        f"MCOffsets == {{{', '.join(map(str, MODEL_OFFSETS))}}}\n"
        f"MCBumpKinds == {{{', '.join(json.dumps(k) for k in KINDS5)}}}\n"
        f"MCCaps == {tlc.tla({o: caps[o] for o in OPS})}\n"
        "====\n"
    )


def cfg_text(comparator, zerosig, maxbumped, maxsteps, emit, invariants):
    return (
        "CONSTANTS TC <- MCTC\nBase <- MCBase\nComparatorOf <- MCCmpOf\nOffsets <- MCOffsets\n"
        "BumpKinds <- MCBumpKinds\nCaps <- MCCaps\n"
        f'Comparator = "{comparator}"\nZeroSig = "{zerosig}"\nMaxBumped = {maxbumped}\nMaxSteps = {maxsteps}\n'
        f"Emit = {'TRUE' if emit else 'FALSE'}\nSPECIFICATION Spec\n" + "".join(f"INVARIANT {i}\n" for i in invariants)
    )


TLC_ENV = {"JAVA_TOOL_OPTIONS": f"-DTLA-Library={os.path.join(ROOT, 'spec')} -Xmx3g -Xmn256m -XX:ParallelGCThreads=2 -Dtlc2.tool.queue.IStateQueue=StateDeque"}


class Job:
    """One TLC run of SigCounters."""

    def __init__(self, label, caps, comparator, zerosig, maxbumped, maxsteps, *, emit=False, cmp_of=None, workers=4):
        self.label, self.caps, self.comparator, self.zerosig = label, caps, comparator, zerosig
        self.maxbumped, self.maxsteps, self.emit, self.workers = maxbumped, maxsteps, emit, workers
        self.cmp_of = cmp_of or {"const": "repr", "geo": "repr", "zero": "repr"}
        self.invariants = ["EmitInv"] if emit else ["TypeOK", "RunAgrees", "SigInvariant"]
        self.res = None

    def run(self, base):
        self.res = tlc.run(
            "SigCounters",
            cfg_text(self.comparator, self.zerosig, self.maxbumped, self.maxsteps, self.emit, self.invariants),
            mc_text=mc_text(base, self.caps, self.cmp_of),
            mc_name="MC_SigCounters",
            workers=min(4, self.workers),
            timeout=1500,
            env=TLC_ENV,
            heap=None,
        )
        return self


def trace_case(res):
    """(script, offsets) of the last state of a counterexample."""
    st = tlc.parse_state(res.trace[-1][1])
    off = st["off"]
    return [dict(i) for i in st["prog"]], {k: int(off[k]) for k in KINDS5}


# ---- comparison ------------------------------------------------------------------------------------

ZERO = {k: 0 for k in KINDS}


def prog_key(prog):
    return json.dumps(prog, sort_keys=True)


def show_prog(prog):
    if prog["kind"] == "recipe":
        return "recipe:" + prog["name"]
    if prog["kind"] != "script":
        return prog["kind"]
    parts = []
    for i in prog["script"]:
        args = [str(i[x]) for x in ("a", "b", "c") if i.get(x)]
        if i.get("k") is not None:
            args.append(json.dumps(i["k"]))
        parts.append(i["op"] + ("(" + ",".join(args) + ")" if args else ""))
    return " ; ".join(parts)


def off_str(off):
    nz = {k: v for k, v in off.items() if v}
    return "{" + ", ".join(f"{k}+{v}" for k, v in nz.items()) + "}" if nz else "{}"


def clean_script(script):
    """TLC records -> instructions of the interpreter."""
    return [{k: v for k, v in i.items() if k == "op" or v} for i in script]


class Case:
    """All runs of one program: (effective offsets, seed, step result, chain, step index)."""

    def __init__(self, prog, source):
        self.prog, self.source = prog, source
        self.runs = []


def _terminals(d, acc):
    if d[0] == "T":
        acc.append((d[1], d[2]))
    else:
        for o in d[2]:
            _terminals(o, acc)


def _erase_zero(d):
    """terminal key used for matching nodes of two dumps: the raw index counts of a Zero are erased."""
    if d[1] == "Zero" and len(d) > 3:
        return f"Zero/{d[3]}"
    return d[1] + ":" + d[2]


def _okey(d, memo):
    """Order-insensitive key of a dumped node (operands of Sum/Product as a multiset)."""
    k = id(d)
    if k in memo:
        return memo[k]
    if d[0] == "T":
        r = _erase_zero(d)
    else:
        ks = [_okey(o, memo) for o in d[2]]
        if d[1] in ("Sum", "Product"):
            ks = sorted(ks)
        r = d[1] + "(" + ",".join(ks) + ")"
    memo[k] = r
    return r


def _comm_nodes(d, memo, acc):
    if d[0] == "O":
        if d[1] in ("Sum", "Product"):
            acc.setdefault(_okey(d, memo), []).append(([_okey(o, memo) for o in d[2]], d[3] if len(d) > 3 else None))
        for o in d[2]:
            _comm_nodes(o, memo, acc)


def compare_dumps(b, v):
    """Structural difference of two dumps of the same output: list of findings
    ("terminal-data", class) / ("operand-order", decider) / ("integral-order", None) / ..."""
    found = []
    if [x[0] for x in b] != [x[0] for x in v]:
        found.append(("integral-order" if sorted(x[0] for x in b) == sorted(x[0] for x in v) else "integral-data", None))
    tb, tv = [], []
    for _, d in b:
        _terminals(d, tb)
    for _, d in v:
        _terminals(d, tv)
    if sorted(tb) != sorted(tv):
        for cls in sorted({c for c, _ in set(tb) ^ set(tv)}):
            found.append(("terminal-data", cls))
    mb, mv, nb, nv = {}, {}, {}, {}
    for _, d in b:
        _comm_nodes(d, mb, nb)
    for _, d in v:
        _comm_nodes(d, mv, nv)
    seen = set()
    for key, occ in nv.items():
        if key not in nb:
            continue
        ob = sorted(json.dumps(o[0]) for o in nb[key])
        ov = sorted(json.dumps(o[0]) for o in occ)
        if ob != ov:
            for ops, dec in occ:
                if json.dumps(ops) not in ob and dec is not None:
                    k = json.dumps([dec.get("by"), dec.get("cls")])
                    if k not in seen:
                        seen.add(k)
                        found.append(("operand-order", dec))
                    break
    return found


def _digits(s):
    import re

    return [int(x) for x in re.findall(r"\d+", s)]


def fingerprint_of(finding, responsible, hashseed):
    kind, info = finding
    if hashseed:
        if kind == "operand-order":
            return "C12:hashseed:operand-order:" + "+".join(info["cls"])
        return "C12:hashseed:" + kind + (":" + info if isinstance(info, str) else "")
    resp = "+".join(sorted(responsible)) if responsible else "combination"
    if kind == "terminal-data":
        if info == "Zero":
            return "C12:raw-index-count-in-signature:Zero-free-index"
        return f"C12:raw-count-in-signature:{info}:{resp}"
    if kind == "operand-order":
        if info["by"] != "terminal":
            return f"C12:operand-order-by-{info['by']}:{'+'.join(info['cls'])}:{resp}"
        cls = info["cls"][0]
        da, db = _digits(info["a"]), _digits(info["b"])
        boundary = len(da) == len(db) and any(x != y and len(str(x)) != len(str(y)) for x, y in zip(da, db))
        import ufl.classes as C

        if issubclass(getattr(C, cls, object), C.GeometricQuantity):
            cls = "GeometricQuantity"
        tail = "digit-boundary" if boundary else "count-order"
        if cls == "Constant" and responsible == {"Constant"}:
            return f"C12:operand-order-by-repr:Constant:{tail}"
        if responsible == {"Mesh"}:
            return f"C12:operand-order-by-repr:{cls}:mesh-id-{tail}"
        if cls == "Zero" and responsible == {"Index"}:
            return f"C12:operand-order-by-repr:Zero:index-count-{tail}"
        return f"C12:operand-order-by-repr:{cls}:{resp}:{tail}"
    return f"C12:{kind}:{resp}"


def exact_chain(prog, eff, seed="0", diag=False):
    return {"seed": str(seed), "steps": [{"program": prog, "targets": {k: int(eff.get(k, 0)) for k in KINDS}, "exact": True, "diag": diag}]}


class Checker:
    def __init__(self, ctx, pool):
        self.ctx, self.pool = ctx, pool
        self.reported = {}
        self.mech = {}
        self.found = []

    def run_chains(self, chains):
        """chains: [{"seed", "steps": [{"program", "source", "targets", ...}]}] -> {prog_key: Case}"""
        results = self.pool.run(chains)
        cases = {}
        for ch, res in zip(chains, results):
            if res.get("deadline"):
                self.ctx.count("chains_not_run_deadline")
                continue
            if not res.get("steps"):
                raise MachineryError(f"chain failed in the harness: {res.get('error')}\n{res.get('tb', '')}")
            for n, (st, r) in enumerate(zip(ch["steps"], res["steps"])):
                if r.get("skipped"):
                    self.ctx.count("exact_steps_not_reachable")
                    continue
                c = cases.setdefault(prog_key(st["program"]), Case(st["program"], st.get("source", "")))
                c.runs.append((r.get("eff"), ch["seed"], r, ch, n))
        return cases

    def judge(self, case, count=True):
        """All signatures of one program must be identical.  -> "invalid" | "ok"; findings are
        appended to self.found."""
        ctx = self.ctx
        ok = [x for x in case.runs if x[2].get("ok")]
        bad = [x for x in case.runs if not x[2].get("ok")]
        if not ok:
            return "invalid"
        if bad:
            fp = "C12:exception-depends-on-counters-or-seed"
            b = bad[0]
            self.found.append((fp, f"{show_prog(case.prog)} builds after history {off_str(ok[0][0])} but raises {b[2].get('error')} after {off_str(b[0])} (seed {b[1]})", self._chain_replay(case, [ok[0], b], fp, None)))
        base = ok[0]
        names = sorted(base[2]["sigs"])
        deviating = {}
        for run in ok:
            eff, s, r = run[0], run[1], run[2]
            if count:
                ctx.evaluated(len(names))
                if any(eff.values()) or str(s) != "0":
                    ctx.distinct(prog_key(case.prog) + json.dumps(eff, sort_keys=True) + str(s))
            if sorted(r["sigs"]) != names:
                fp = "C12:outputs-depend-on-counters-or-seed"
                self.found.append((fp, f"{show_prog(case.prog)}: different set of outputs", self._chain_replay(case, [base, run], fp, None)))
                continue
            for nm in names:
                if r["sigs"][nm] != base[2]["sigs"][nm]:
                    deviating.setdefault(nm, {}).setdefault(r["sigs"][nm], run)
        if deviating:
            self.found += self.diagnose(case, base, deviating)
        return "ok"

    def _chain_replay(self, case, runs, fp, output):
        chains = []
        for eff, s, r, ch, n in runs:
            chains.append({"seed": ch["seed"], "steps": [{k: v for k, v in st.items() if k != "source"} for st in ch["steps"][: n + 1]], "observe": n})
        return {"mode": "chains", "program": case.prog, "fingerprint": fp, "output": output, "chains": chains}

    def diagnose(self, case, base, deviating):
        """deviating: output name -> {signature: first run with it}.  The deviation is reproduced in
        fresh processes whose history is exactly the effective shift (one step each), attributed to the
        hash seed or to the counters that reproduce it alone, and classified from the hashdata dumps."""
        picks = {}
        for nm, d in sorted(deviating.items()):
            for sig, run in d.items():
                picks.setdefault((json.dumps(run[0], sort_keys=True), str(run[1])), (run, []))[1].append(nm)
        out = []
        prog = case.prog
        for run, names in list(picks.values())[:3]:
            eff, s = run[0], str(run[1])
            singles = [k for k in KINDS if eff.get(k)]
            chains = [exact_chain(prog, ZERO, "0", True), exact_chain(prog, eff, "0", True), exact_chain(prog, ZERO, s, True), exact_chain(prog, base[0], "0", True)]
            chains += [exact_chain(prog, dict(ZERO, **{k: eff[k]}), "0") for k in singles]
            res = [x["steps"][0] if x.get("steps") else x for x in self.pool.run(chains)]
            if not all(x.get("ok") for x in res):
                raise MachineryError(f"diagnosis run failed for {show_prog(prog)}: {[x.get('error') for x in res]}")
            a0, bo, cs, d0 = res[:4]
            for nm in names:
                if bo["sigs"][nm] != a0["sigs"][nm]:
                    var, var_chain, by = bo, chains[1], "history"
                elif cs["sigs"][nm] != a0["sigs"][nm]:
                    var, var_chain, by = cs, chains[2], "seed"
                elif d0["sigs"][nm] != a0["sigs"][nm]:
                    var, var_chain, by = d0, chains[3], "history"
                    singles = []
                else:
                    fp = "C12:process-state:signature-depends-on-earlier-work-in-the-process"
                    out.append((fp, f"{show_prog(prog)}: output {nm!r} has signature {run[2]['sigs'][nm][:12]} in a process that ran other steps before, {a0['sigs'][nm][:12]} in fresh processes with the same counters and hash seed", self._chain_replay(case, [base, run], fp, nm)))
                    continue
                responsible = {k for k, x in zip(singles, res[4:]) if x["sigs"][nm] != a0["sigs"][nm]} if by == "history" else set()
                out_nm = nm.split("|")[0]
                finds = compare_dumps(a0["dump"][out_nm], var["dump"][out_nm]) or [("unclassified", None)]
                for f in finds:
                    fp = fingerprint_of(f, responsible, hashseed=by == "seed")
                    v_eff = var["eff"]
                    what = (
                        f"{show_prog(prog)}: signature of output {nm!r} is {a0['sigs'][nm][:12]} in a fresh process and {var['sigs'][nm][:12]} "
                        + (f"after the prior history {off_str(v_eff)}" if by == "history" else f"with PYTHONHASHSEED={s}")
                        + (f"; counters that reproduce it alone: {sorted(responsible) or 'none (combination)'}" if by == "history" else "")
                        + f"; mechanism: {f[0]}" + (f" {json.dumps(f[1])}" if f[1] else "")
                    )
                    rep = {
                        "mode": "chains",
                        "program": prog,
                        "fingerprint": fp,
                        "output": nm,
                        "chains": [dict(chains[0], observe=0), dict(var_chain, observe=0)],
                        "observed": [a0["sigs"][nm], var["sigs"][nm]],
                    }
                    out.append((fp, what, rep))
        return out

    def report(self):
        """Report at most two (smallest) failing inputs per fingerprint."""
        by = {}
        for fp, what, rep in self.found:
            by.setdefault(fp, []).append((fp, what, rep))
        self.found = []
        for fp, cases in sorted(by.items()):
            cases.sort(key=lambda c: len(json.dumps(c[2]["program"])))
            self.mech[fp] = self.mech.get(fp, 0) + len(cases)
            n = self.reported.get(fp, 0)
            for fp_, what, rep in cases[: max(0, 2 - n)]:
                self.ctx.violation(fp_, what, rep)
            self.reported[fp] = n + len(cases)


# ---- histories -----------------------------------------------------------------------------------------

REAL_OFFSETS = [0, 1, 7, 8, 9, 10, 95, 98, 99, 100, 998, 1000]


def chain_standard(prog, source):
    """every counter shifted by the same value, over the whole list"""
    return [{"program": prog, "source": source, "targets": {k: v for k in KINDS}} for v in REAL_OFFSETS]


def chain_single(prog, source, kind):
    """one counter over the whole list, the others only move by what the program itself creates"""
    return [{"program": prog, "source": source, "targets": {kind: v}} for v in REAL_OFFSETS]


def chain_phased(prog, source, rng, base):
    """approach every digit boundary with an independent random phase per counter (some counters are
    left alone), then run the program several times back to back across it"""
    steps = []
    for B in (10, 100, 1000):
        t = {}
        for k in KINDS:
            if rng.random() < 0.75:
                t[k] = max(0, B - rng.randint(1, 7) - base[k])
        steps.append({"program": prog, "source": source, "targets": t})
        for _ in range(rng.randint(2, 4)):
            steps.append({"program": prog, "source": source, "targets": {k: t[k] + rng.randint(0, 2) for k in t if rng.random() < 0.3} if rng.random() < 0.5 else {}})
    return steps


def chain_random(prog, source, rng):
    """each counter independently from the list, increasing along the chain where possible"""
    steps = []
    for _ in range(8):
        steps.append({"program": prog, "source": source, "targets": {k: rng.choice(REAL_OFFSETS) for k in KINDS if rng.random() < 0.8}})
    steps.sort(key=lambda s: max(list(s["targets"].values()) + [0]))
    return steps


# ---- seeded random scripts over the richer instruction set -------------------------------------------


def gen_script(rng):
    """A random script; typing is approximate (a script ufl rejects at the base counters is dropped)."""
    S = []  # entries: (type, ...) ; positions are 1-based
    prog = []

    def emit(ins, ty):
        prog.append(ins)
        S.append(ty)
        return len(S)

    nmesh = 2 if rng.random() < 0.35 else 1
    meshes = [emit({"op": "mesh"}, ("mesh",)) for _ in range(nmesh)]
    pm = lambda: meshes[0] if rng.random() < 0.7 else rng.choice(meshes)  # noqa: E731
    for _ in range(rng.randint(0, 4)):
        emit({"op": "const", "a": pm()}, ("e", 0, frozenset()))
    for _ in range(rng.randint(0, 1)):
        emit({"op": "vconst", "a": pm()}, ("e", 1, frozenset()))
    for _ in range(rng.randint(1, 3)):
        emit({"op": "coef", "a": pm()}, ("e", 0, frozenset()))
    for _ in range(rng.randint(0, 2)):
        emit({"op": "vcoef", "a": pm()}, ("e", 1, frozenset()))
    if rng.random() < 0.4:
        emit({"op": "tcoef", "a": pm()}, ("e", 2, frozenset()))
    if rng.random() < 0.3:
        emit({"op": "arg", "a": meshes[0], "k": 0}, ("e", 0, frozenset()))
    for _ in range(rng.randint(0, 2)):
        kind = rng.choice(GEO_KINDS)
        emit({"op": "geo", "a": pm(), "k": kind}, ("e", 1 if kind == "SpatialCoordinate" else 0, frozenset()))
    if rng.random() < 0.3:
        emit({"op": "lit", "k": rng.choice([2, 3, 0.5, -1])}, ("e", 0, frozenset()))
    idxs = [emit({"op": "index"}, ("i",)) for _ in range(rng.randint(0, 3))]

    def pick(pred):
        c = [p for p, t in enumerate(S, 1) if t[0] == "e" and pred(t)]
        # prefer recent entries so that expressions grow
        if not c:
            return None
        return c[-1 - min(int(rng.expovariate(0.5)), len(c) - 1)] if rng.random() < 0.5 else rng.choice(c)

    for _ in range(rng.randint(3, 12)):
        op = rng.choice(["sum", "prod", "prod", "prod", "sub", "div", "neg", "sq", "fn", "idx", "idx2", "comp", "zeromul", "cond", "var", "inner", "grad", "astensor", "sum"])
        if op in ("sum", "sub"):
            a = pick(lambda t: True)
            if a is None:
                continue
            b = pick(lambda t: t[1:] == S[a - 1][1:])
            if b is None or b == a:
                continue
            emit({"op": op, "a": a, "b": b}, S[a - 1])
        elif op == "prod":
            a, b = pick(lambda t: t[1] == 0), pick(lambda t: t[1] == 0)
            if a is None or b is None or a == b:
                continue
            emit({"op": "prod", "a": a, "b": b}, ("e", 0, S[a - 1][2] ^ S[b - 1][2]))
        elif op == "div":
            a, b = pick(lambda t: t[1] == 0), pick(lambda t: t[1] == 0 and not t[2])
            if a is None or b is None:
                continue
            emit({"op": "div", "a": a, "b": b}, S[a - 1])
        elif op in ("neg", "sq"):
            a = pick(lambda t: t[1] == 0 or op == "neg")
            if a is None:
                continue
            emit({"op": op, "a": a}, S[a - 1])
        elif op == "fn":
            a = pick(lambda t: t[1] == 0 and not t[2])
            if a is None:
                continue
            emit({"op": "fn", "a": a, "k": rng.choice(["sin", "cos", "exp", "abs"])}, S[a - 1])
        elif op == "idx" and idxs:
            a = pick(lambda t: t[1] == 1 and not t[2])
            if a is None:
                continue
            i = rng.choice(idxs)
            emit({"op": "idx", "a": a, "b": i}, ("e", 0, frozenset([i])))
        elif op == "idx2" and len(idxs) >= 2:
            a = pick(lambda t: t[1] == 2 and not t[2])
            if a is None:
                continue
            i, j = rng.sample(idxs, 2)
            emit({"op": "idx2", "a": a, "b": i, "c": j}, ("e", 0, frozenset([i, j])))
        elif op == "comp":
            a = pick(lambda t: t[1] == 1 and not t[2])
            if a is None:
                continue
            emit({"op": "comp", "a": a, "k": rng.randint(0, 1)}, ("e", 0, frozenset()))
        elif op == "zeromul":
            a = pick(lambda t: t[1] == 0 and t[2])
            if a is None:
                continue
            emit({"op": "zeromul", "a": a}, S[a - 1])
        elif op == "cond":
            a = pick(lambda t: t[1] == 0 and not t[2])
            b = pick(lambda t: t[1] == 0)
            if a is None or b is None:
                continue
            c = pick(lambda t: t[1:] == S[b - 1][1:])
            if c is None or c == b:
                continue
            emit({"op": "cond", "a": a, "b": b, "c": c}, S[b - 1])
        elif op == "var":
            a = pick(lambda t: not t[2])
            if a is None:
                continue
            emit({"op": "var", "a": a}, S[a - 1])
        elif op == "inner":
            a = pick(lambda t: t[1] in (1, 2) and not t[2])
            if a is None:
                continue
            b = pick(lambda t: t[1:] == S[a - 1][1:])
            if b is None:
                continue
            emit({"op": "inner", "a": a, "b": b}, ("e", 0, frozenset()))
        elif op == "grad":
            a = pick(lambda t: t[1] in (0, 1) and not t[2])
            if a is None:
                continue
            emit({"op": "grad", "a": a}, ("e", S[a - 1][1] + 1, frozenset()))
        elif op == "astensor":
            a = pick(lambda t: t[1] == 0 and len(t[2]) == 1)
            if a is None:
                continue
            (i,) = S[a - 1][2]
            emit({"op": "astensor", "a": a, "b": i}, ("e", 1, frozenset()))
    closed = [p for p, t in enumerate(S, 1) if t[0] == "e" and t[1] == 0 and not t[2] and prog[p - 1]["op"] not in ("const", "coef", "lit", "geo", "arg")]
    if not closed:
        return None
    nint = min(len(closed), rng.choice([1, 1, 2, 3]))
    chosen = closed[-nint:]
    forms = []
    for p in chosen:
        k = {"t": rng.choice(["dx", "dx", "dx", "ds"])}
        if rng.random() < 0.4:
            k["id"] = rng.choice([1, 2, [1, 3]])
        if rng.random() < 0.3:
            k["md"] = {"quadrature_degree": rng.choice([1, 2, 4])}
        forms.append(emit({"op": "integ", "a": p, "b": rng.choice(meshes), "k": k}, ("f",)))
    f = forms[0]
    for g in forms[1:]:
        f = emit({"op": "fadd", "a": f, "b": g}, ("f",))
    return prog


# ---- the parts of the run -----------------------------------------------------------------------------


def probe_transcription():
    """Which transcription of the comparator / of the Zero hashdata does the code under test
    implement?  (probed on real objects with explicit counts)"""
    import ufl
    from ufl.algorithms.signature import compute_terminal_hashdata
    from ufl.classes import CellVolume, Constant, Zero
    from ufl.sorting import cmp_expr

    E = Env()
    m = ufl.Mesh(E.L(E.cell, 1, (2,)), ufl_id=10**6 + 9)
    m2 = ufl.Mesh(E.L(E.cell, 1, (2,)), ufl_id=10**7)
    mode = {
        "const": "numeric" if cmp_expr(Constant(m, (), count=9), Constant(m, (), count=10)) < 0 else "repr",
        "geo": "numeric" if cmp_expr(CellVolume(m), CellVolume(m2)) < 0 else "repr",
        "zero": "numeric" if cmp_expr(Zero((), (9,), (2,)), Zero((), (10,), (2,))) < 0 else "repr",
    }
    z = Zero((), (12345,), (2,))
    zs = "raw" if "12345" in str(compute_terminal_hashdata([z], {})[z]) else "renumbered"
    return mode, zs


def plan_models(ctx):
    quick = ctx.tier == "quick"
    cmp_of, zerosig = probe_transcription()
    ctx.cov["code_under_test_transcription"] = {"comparator": cmp_of, "zero_hashdata": zerosig}
    comparator = cmp_of["const"] if len(set(cmp_of.values())) == 1 else "mixed"
    w = 2 if quick else 4
    if quick:
        intended = [
            Job("intended/const-family", FAM_CONST, "numeric", "renumbered", 1, 5, workers=w),
            Job("intended/index-family", FAM_INDEX, "numeric", "renumbered", 1, 8, workers=w),
        ]
        emit = [
            Job("emit/const-family", FAM_CONST, comparator, zerosig, 1, 4, emit=True, cmp_of=cmp_of, workers=w),
            Job("emit/index-family", FAM_INDEX, comparator, zerosig, 1, 8, emit=True, cmp_of=cmp_of, workers=w),
        ]
    else:
        intended = [
            Job("intended/const-family", FAM_CONST, "numeric", "renumbered", 2, 6, workers=w),
            Job("intended/index-family", FAM_INDEX, "numeric", "renumbered", 2, 9, workers=w),
            Job("intended/small-family", FAM_SMALL, "numeric", "renumbered", 2, 6, workers=w),
        ]
        emit = [
            Job("emit/const-family", FAM_CONST, comparator, zerosig, 2, 5, emit=True, cmp_of=cmp_of, workers=w),
            Job("emit/index-family", FAM_INDEX, comparator, zerosig, 2, 8, emit=True, cmp_of=cmp_of, workers=w),
            Job("emit/small-family", FAM_SMALL, comparator, zerosig, 1, 6, emit=True, cmp_of=cmp_of, workers=w),
        ]
    coded = [
        Job("as-coded/comparator-by-repr/const-family", FAM_CONST, "repr", "renumbered", 1, 4, workers=w),
        Job("as-coded/zero-hashdata-raw/index-family", FAM_INDEX, "numeric", "raw", 1, 8, workers=w),
        Job("as-coded/comparator-by-repr-on-zero/index-family", FAM_INDEX, "repr", "renumbered", 1, 8, workers=w),
    ]
    return intended, emit, coded


def check_intended(ctx, job):
    res = job.res
    ctx.add_tlc(res)
    if res.outcome != "ok":
        # the intended machine itself violates the property: the specification is wrong
        tlc.require_ok(res, job.label)
    if res.distinct < 500 or res.depth < job.maxsteps + 4:
        raise MachineryError(f"{job.label}: suspiciously small state graph ({res.distinct} states, depth {res.depth})")


def replay_coded(ctx, chk, job):
    """A counterexample of the machine as coded is replayed on the real code."""
    res = job.res
    ctx.add_tlc(res)
    info = {"model": job.label, "tlc": res.outcome, "violated": res.violated}
    if res.outcome != "invariant" or res.violated != "SigInvariant" or not res.trace:
        raise MachineryError(f"{job.label}: the machine as coded must violate SigInvariant, TLC says {res.outcome} {res.violated}\n" + res.stdout[-1500:])
    script, off = trace_case(res)
    prog = {"kind": "script", "script": clean_script(script)}
    chains = [dict(exact_chain(prog, ZERO), steps=[dict(exact_chain(prog, ZERO)["steps"][0], source="tlc-counterexample")]), exact_chain(prog, off)]
    chains[1]["steps"][0]["source"] = "tlc-counterexample"
    cases = chk.run_chains(chains)
    (case,) = cases.values()
    ctx.traces(1)
    sigs = [r[2].get("sigs", {}).get("form") for r in case.runs]
    info.update(counterexample=show_prog(prog), history=off_str(off), real_signatures=[s[:12] if s else None for s in sigs])
    if len(sigs) != 2 or None in sigs:
        raise MachineryError(f"{job.label}: counterexample {show_prog(prog)} could not be replayed: {[r[2].get('error') for r in case.runs]}")
    info["reproduced_in_real_code"] = sigs[0] != sigs[1]
    if sigs[0] != sigs[1]:
        ctx.count("coded_model_counterexamples_reproduced")
        print(f"  as-coded model counterexample reproduced in the real code: {show_prog(prog)} after history {off_str(off)}", flush=True)
        chk.judge(case)
    else:
        ctx.count("coded_model_counterexamples_not_reproduced")
        print(f"  as-coded model counterexample NOT reproduced (informational): {show_prog(prog)} after history {off_str(off)}", flush=True)
    return info


def conformance(ctx, chk, emit_jobs, rng, budget):
    """Replay emitted behaviours: per script, the partition of the histories by real signature must
    be the partition by model signature."""
    by_script = {}
    n_beh = 0
    for j in emit_jobs:
        ctx.add_tlc(j.res)
        if j.res.outcome != "ok":
            tlc.require_ok(j.res, j.label)
        docs = tlc.decode_prints(j.res)
        if not docs:
            raise MachineryError(f"{j.label}: TLC emitted no behaviour")
        for d in docs:
            n_beh += 1
            script = clean_script(d["prog"])
            k = json.dumps(script, sort_keys=True)
            by_script.setdefault(k, {"script": script, "offs": {}})["offs"][tuple(d["off"])] = json.dumps(d["sig"], sort_keys=True)
    ctx.cov["model_behaviours_emitted"] = n_beh
    ctx.cov["model_scripts_emitted"] = len(by_script)
    zero5 = (0,) * 5
    differing = sorted((k for k, v in by_script.items() if len(set(v["offs"].values())) > 1), key=lambda k: (len(k), k))
    same = sorted(k for k in by_script if k not in set(differing))
    ctx.cov["model_scripts_with_history_dependent_signature"] = len(differing)
    rng.shuffle(same)
    selected = []  # (script key, off tuple)
    # scripts whose model signature depends on the history: the base run, one history per model
    # signature class, and one more history of the base class
    per = max(1, budget // 2 // max(1, len(differing))) if differing else 0
    for k in differing:
        offs = by_script[k]["offs"]
        if zero5 not in offs:
            continue
        classes = {}
        for o in sorted(offs):
            classes.setdefault(offs[o], []).append(o)
        pick = [zero5]
        for sig, os_ in sorted(classes.items(), key=lambda kv: kv[1][0]):
            cand = [o for o in os_ if o != zero5]
            rng.shuffle(cand)
            pick += cand[: 1 if sig != offs[zero5] else 1]
        selected += [(k, o) for o in pick[: 1 + max(2, per)]]
        if len(selected) > budget * 0.6:
            break
    for k in same:
        if len(selected) >= budget:
            break
        offs = sorted(by_script[k]["offs"])
        if zero5 not in by_script[k]["offs"]:
            continue
        others = [o for o in offs if o != zero5]
        rng.shuffle(others)
        selected += [(k, zero5)] + [(k, o) for o in others[:2]]
    chains = []
    for k, o in selected:
        prog = {"kind": "script", "script": by_script[k]["script"]}
        ch = exact_chain(prog, dict(zip(KINDS5, o)))
        ch["steps"][0]["source"] = "tlc-emitted"
        chains.append(ch)
    cases = chk.run_chains(chains)
    mism = 0
    for key, case in sorted(cases.items()):
        script_key = json.dumps(case.prog["script"], sort_keys=True)
        model = by_script[script_key]["offs"]
        runs = [r for r in case.runs if r[2].get("ok")]
        if len(runs) != len(case.runs):
            raise MachineryError(f"emitted script {show_prog(case.prog)} does not build in the real ufl: {[r[2].get('error') for r in case.runs if not r[2].get('ok')]}")
        ctx.traces(len(runs))
        chk.judge(case)
        for x in range(len(runs)):
            for y in range(x + 1, len(runs)):
                ox = tuple(runs[x][0][k] for k in KINDS5)
                oy = tuple(runs[y][0][k] for k in KINDS5)
                ctx.evaluated()
                m_eq = model[ox] == model[oy]
                r_eq = runs[x][2]["sigs"]["form"] == runs[y][2]["sigs"]["form"]
                if m_eq and not r_eq:
                    ctx.count("real_dependence_not_explained_by_model")
                    mism += 1
                elif r_eq and not m_eq:
                    raise MachineryError(
                        f"conformance: SigCounters.tla (transcription {ctx.cov['code_under_test_transcription']}) predicts different signatures for "
                        f"{show_prog(case.prog)} after histories {ox} and {oy}, the real signatures are equal: the transcription does not match the code under test"
                    )
    ctx.cov["conformance_replays"] = len(selected)
    ctx.cov["conformance_scripts"] = len(cases)
    if cases:
        k0 = sorted(cases)[0]
        ctx.sample({"kind": "tlc-emitted script", "script": show_prog(cases[k0].prog), "histories": [off_str(r[0]) for r in cases[k0].runs]})
    return mism


def hash_seeds(ctx):
    r = random.Random(7919 * ctx.seed + 12)
    extra = [str(r.randrange(2, 2**32 - 1)) for _ in range(1 if ctx.tier == "quick" else 6)]
    return ["0", "1"] + extra


def corpus_chains(ctx, base, rng):
    quick = ctx.tier == "quick"
    seeds = hash_seeds(ctx)
    chains = []
    n = 0

    def add(steps):
        nonlocal n
        chains.append({"seed": seeds[n % len(seeds)], "steps": steps})
        n += 1

    for name in RECIPES:
        prog = {"kind": "recipe", "name": name}
        add(chain_standard(prog, "recipe"))
        add(chain_phased(prog, "recipe", rng, base))
        if not quick:
            for _ in range(2):
                add(chain_phased(prog, "recipe", rng, base))
                add(chain_random(prog, "recipe", rng))
            for k in KINDS:
                add(chain_single(prog, "recipe", k))
    want = 45 if quick else 700
    seen = set()
    scripts = []
    tries = 0
    while len(scripts) < want and tries < want * 20:
        tries += 1
        sc = gen_script(rng)
        if sc is None:
            continue
        k = json.dumps(sc, sort_keys=True)
        if k in seen:
            continue
        seen.add(k)
        scripts.append(sc)
    for m, sc in enumerate(scripts):
        prog = {"kind": "script", "script": sc}
        if quick:
            add(chain_standard(prog, "random-script") if m % 2 == 0 else chain_phased(prog, "random-script", rng, base))
        else:
            add(chain_standard(prog, "random-script"))
            add(chain_phased(prog, "random-script", rng, base))
            add(chain_single(prog, "random-script", rng.choice(KINDS)) if m % 2 else chain_random(prog, "random-script", rng))
    return chains


def corpus_part(ctx, chk, base, rng):
    chains = corpus_chains(ctx, base, rng)
    cases = chk.run_chains(chains)
    stats = {"programs": 0, "invalid_random_scripts": 0, "runs": 0, "programs_with_discrepancy": 0}
    for key, case in cases.items():
        before = len(chk.found)
        st = chk.judge(case)
        if st == "invalid":
            if case.source == "recipe":
                r = case.runs[0][2]
                raise MachineryError(f"recipe {case.prog['name']} does not build: {r.get('error')}\n{r.get('tb', '')}")
            stats["invalid_random_scripts"] += 1
            continue
        stats["programs"] += 1
        stats["runs"] += len(case.runs)
        stats["programs_with_discrepancy"] += len(chk.found) > before
        ctx.count("programs_" + case.source.replace("-", "_"))
    ctx.cov["corpus"] = stats
    ctx.cov["hash_seeds"] = hash_seeds(ctx)
    if stats["programs"] < len(RECIPES):
        raise MachineryError("vacuous: fewer programs compared than recipes exist")
    ok_scripts = [c for c in cases.values() if c.source == "random-script" and any(r[2].get("ok") for r in c.runs)]
    if ok_scripts:
        c = ok_scripts[0]
        ctx.sample({"kind": "random script", "script": show_prog(c.prog), "histories": [off_str(r[0]) for r in c.runs[:6]], "seeds": sorted({str(r[1]) for r in c.runs})})
    c = cases[prog_key({"kind": "recipe", "name": "measures"})]
    ctx.sample({"kind": "recipe", "name": "measures", "runs": len(c.runs), "histories": [off_str(r[0]) for r in c.runs[:4]], "signature": c.runs[0][2]["sigs"]["form"][:16]})
    return stats


def run(ctx, args):
    if getattr(args, "selftest", False):
        return selftest(ctx)
    from concurrent.futures import ThreadPoolExecutor

    quick = ctx.tier == "quick"
    t0 = time.time()
    ctx.rule = (
        "a case is one run of one build program (a hand written recipe, a seeded random script, or a script enumerated by TLC from "
        "SigCounters.tla) in a process forked from a pristine interpreter started with a given PYTHONHASHSEED, after a prior history that "
        "shifted the global counters (Index, Coefficient, Constant, Label, Mesh ufl_id, BaseFormOperator) by a recorded vector; observables: "
        "form.signature(), the signature after renumber_indices, compute_expression_signature of bare expressions; all observables of one "
        "program must be identical over all its runs; TLC-emitted behaviours additionally must reproduce the model's partition of histories; "
        "non-trivial = non-zero shift or hash seed != 0; distinct = (program, effective shift vector, hash seed)"
    )
    ctx.assume("creation order inside a program is the same in every run; only the starting values of the counters, the hash seed and the process differ")
    ctx.assume("prior histories create and drop objects of the counted classes through the public constructors (coefficients on a space without mesh, constants on a user-defined domain) so that each counter can be shifted independently; the effective shift is read back from the counters (itertools.count copy / Mesh._ufl_global_id, read-only)")
    ctx.assume("forms with terminals of a second mesh in the integrand are valid input (multi-domain forms)")
    ctx.assume("SigCounters.tla models trees without shared sub-objects (cmp_expr as a function; its loop is bound by C29/Ordering.tla) and scalar/vector P1 spaces on triangles")
    ctx.assume("finite elements: vf/elements.py (adapted from the repository's test/utils.py)")
    pool = Pool()
    chk = Checker(ctx, pool)
    pool.deadline = t0 + (48 if quick else 520)
    # the import-time counters of a pristine interpreter (= Base of the model)
    warm = pool.run([exact_chain({"kind": "recipe", "name": "const_product"}, ZERO)])
    if not warm[0].get("steps") or not warm[0]["steps"][0].get("ok"):
        raise MachineryError(f"worker does not run: {warm[0]}")
    base = pool.base
    ctx.cov["import_time_counters"] = base
    intended, emit, coded = plan_models(ctx)
    rng = random.Random(1000003 * ctx.seed + (1 if quick else 2))
    ex = ThreadPoolExecutor(max_workers=2 if quick else 1)
    try:
        order = emit + coded + intended
        futs = {id(j): ex.submit(j.run, base) for j in order}
        # (c) the property on the corpus, while TLC runs
        corpus_part(ctx, chk, base, rng)
        chk.report()
        # (b) conformance of the transcription that matches the code under test
        for j in emit:
            futs[id(j)].result()
        conformance(ctx, chk, emit, rng, 60 if quick else 1500)
        chk.report()
        # (a) counterexamples of the machine as coded, replayed; the intended machine holds
        infos = []
        for j in coded:
            futs[id(j)].result()
            infos.append(replay_coded(ctx, chk, j))
        ctx.cov["as_coded_models"] = infos
        chk.report()
        for j in intended:
            futs[id(j)].result()
            check_intended(ctx, j)
    finally:
        ex.shutdown(wait=True, cancel_futures=True)
    ctx.cov["discrepancies_by_mechanism"] = chk.mech
    ctx.cov["forked_processes"] = pool.forks
    ctx.cov["interpreters"] = len(pool.hellos)
    ctx.cov["exhaustive"] = False
    if ctx.cov.get("chains_not_run_deadline"):
        print(f"  note: {ctx.cov['chains_not_run_deadline']} chains not run (time budget)", flush=True)


# ---- replay / selftest -------------------------------------------------------------------------------


def replay(ctx, doc):
    r = doc["replay"]
    pool = Pool()
    chains = [{"seed": c["seed"], "steps": c["steps"]} for c in r["chains"]]
    res = pool.run(chains)
    obs = []
    for c, x in zip(r["chains"], res):
        st = x["steps"][c.get("observe", len(c["steps"]) - 1)] if x.get("steps") else x
        obs.append(st)
        print(f"replay: {show_prog(r['program'])}  seed={c['seed']}  history={off_str(st.get('eff') or {})}  ->  ", end="")
        if st.get("ok"):
            nm = r.get("output")
            print({k: v[:16] for k, v in st["sigs"].items() if nm is None or k == nm})
        else:
            print("ERROR", st.get("error"))
    oks = [o for o in obs if o.get("ok")]
    nm = r.get("output")
    differ = len(oks) != len(obs) or any(o["sigs"] != oks[0]["sigs"] if nm is None else o["sigs"][nm] != oks[0]["sigs"][nm] for o in oks)
    if differ:
        ctx.n_viol += 1
        print(f"  DIFFERENT signatures for the same program [{doc.get('fingerprint')}]")
    else:
        print("  all signatures identical")


class _Probe:
    """Ctx stand-in for the selftest: records violations instead of reporting them."""

    def __init__(self, ctx):
        self.tier, self.seed, self.cov = ctx.tier, ctx.seed, {}
        self.v = []

    def violation(self, fp, what, rep, detail=None):
        self.v.append(fp)

    def evaluated(self, n=1):
        pass

    def traces(self, n=1):
        pass

    def distinct(self, k):
        pass

    def count(self, k, n=1):
        pass

    def sample(self, o, limit=5):
        pass

    def add_tlc(self, res):
        pass


def selftest(ctx):
    """The comparison must reject (1) a recipe whose creation order depends on the history, (2) a
    corrupted signature, (3) a corrupted model prediction; and must accept a clean program."""
    pool = Pool()
    # 1. order-dependent recipe must be flagged
    p = _Probe(ctx)
    chk = Checker(p, pool)
    prog = {"kind": "selftest-order-dependent"}
    cases = chk.run_chains([{"seed": "0", "steps": chain_single(prog, "selftest", "Constant")[:5]}])
    (case,) = cases.values()
    chk.judge(case)
    chk.report()
    if not p.v:
        raise MachineryError("selftest: a recipe whose creation order depends on the history was not flagged")
    print("selftest 1: order-dependent recipe flagged as", sorted(set(p.v)), flush=True)
    # 2. a clean program passes; a corrupted signature is rejected
    p = _Probe(ctx)
    chk = Checker(p, pool)
    prog = {"kind": "recipe", "name": "grad_div_operators"}
    ch = {"seed": "1", "steps": chain_standard(prog, "selftest")[:4]}
    cases = chk.run_chains([ch])
    (case,) = cases.values()
    chk.judge(case)
    if chk.found:
        print("selftest 2: note: the clean recipe already shows a discrepancy in the code under test:", [f[0] for f in chk.found])
    chk.found = []
    run = case.runs[2]
    run[2]["sigs"]["form"] = "0" * 128
    try:
        chk.judge(case)
        flagged = bool(chk.found)
    except MachineryError:
        flagged = True  # the diagnosis could not reproduce a fabricated deviation: also a rejection
    if not flagged and not any("process-state" in f[0] for f in chk.found):
        raise MachineryError("selftest: a corrupted signature was accepted")
    print("selftest 2: corrupted signature rejected", sorted({f[0] for f in chk.found}), flush=True)
    # 3. a corrupted model prediction is rejected by the conformance comparison
    base = pool.base
    cmp_of, zerosig = probe_transcription()
    comparator = cmp_of["const"] if len(set(cmp_of.values())) == 1 else "mixed"
    j = Job("selftest emit", FAM_CONST, comparator, zerosig, 1, 4, emit=True, cmp_of=cmp_of, workers=2).run(base)
    p = _Probe(ctx)
    chk = Checker(p, pool)
    rng = random.Random(5)
    conformance(p, chk, [j], rng, 12)  # clean: must not raise
    # corrupt: make the model claim that all histories of every script give different signatures
    docs = tlc.decode_prints(j.res)
    lines = []
    for n, d in enumerate(docs):
        d["sig"]["domain"] = n
        lines.append(json.dumps(json.dumps(d)))
    j.res.prints = lines
    try:
        conformance(p, chk, [j], random.Random(5), 12)
        raise MachineryError("selftest: a corrupted model prediction was accepted")
    except MachineryError as e:
        if "does not match the code under test" not in str(e):
            raise
    print("selftest 3: corrupted model prediction rejected", flush=True)
    ctx.evaluated(3)
    ctx.distinct("selftest-1")
    ctx.distinct("selftest-2")
    ctx.rule = "selftest"
    ctx.sample({"selftest": "order-dependent recipe flagged, corrupted signature rejected, corrupted model prediction rejected"})
    print("SELFTEST-OK", flush=True)


def main(argv=None):
    argv = sys.argv[1:] if argv is None else argv
    if "--worker" in argv:
        return worker_main()
    main_wrapper("C12", run, argv)


if __name__ == "__main__":
    main()
