"""C12 — signatures do not depend on incidental numbering or process state.

Model: spec/SigCounters.tla.  State = the process-global counters of ufl (Index, Coefficient,
Constant, Label, Mesh ufl_id); a user script (one instruction per constructor call) is written, a
prior history shifts the counters (Bump), the script runs against the live counters (Step) and
Finish computes the form signature as coded (operand order by cmp_expr with the repr-STRING
comparator for Constant / geometric quantities / Zero, renumbering of counted terminals, index
numbering by first occurrence in unique_pre_traversal order, raw repr of a Zero with free indices).
SigInvariant: the signature equals the signature of the same script run from the import-time
counters.

The check
 (a) runs TLC on the intended machine (Comparator = "numeric", ZeroSig = "renumbered"): the
     invariant must hold for every script and history within the bounds (else MachineryError), and
     on the machines as coded (Comparator = "repr"; ZeroSig = "raw"): each must yield a
     counterexample, which is replayed on the real code in fresh interpreters (reproduced ->
     violation, else informational: the code no longer behaves like that transcription);
 (b) conformance: TLC enumerates the scripts of the transcription that matches the code under test
     (probed); the scripts run on the real code under many histories; TLC then evaluates the model
     signature at exactly the observed counter values (trace validation); per script the partition
     of the runs by REAL signature must equal the partition by MODEL signature;
 (c) checks the property itself on real ufl for a corpus of hand written recipes (forms with several
     constants / coefficients / geometric quantities on 1-2 meshes, constants created crosswise on
     two meshes, function spaces over a MeshSequence, index notation, variables,
     Zero-with-free-index branches, mixed elements, measures with subdomain ids and metadata, several
     integrals, ExternalOperator / Interpolate, derivative / action / adjoint / lhs / rhs /
     compute_form_data) and seeded random scripts over a richer instruction set;
 (d) cross family: terminals whose repr / signature data embed SEVERAL counters (constants on two
     meshes created in every order: mesh id and count; a coefficient on the mixed space over a
     MeshSequence: two mesh ids and a count).  The histories are PLACEMENTS (Boundaries of
     SigCounters.tla): for every counted class the counter stands at B - q for a digit boundary B in
     {10, 100 (, 1000: thorough)} and q = 0 .. (objects of the class the script creates) - 1, for ALL classes at
     once -- every digit-length pattern of the numbers one program embeds, crossed with every
     creation order (the scripts).  TLC proves SigInvariant on the intended machine over that space
     and prints every behaviour with its model signature; EVERY behaviour is replayed on the real
     code with explicit numbering (the numbers the counters would give are passed to the public
     constructors: ufl_id= / count=; hundreds of placements per interpreter), a seeded sample with
     real histories (a fresh interpreter meets at most one placement per digit boundary, counters
     only grow); all runs of a script must have one signature and the partition by real signature
     must be the partition by model signature.  A deviation is reported only after it has been
     reproduced in fresh interpreters with real histories.
 (e) two more families with the machinery of (d) (plan_placed), for structure that could pass through
     a hashed container on its way into the signature (the iteration order of a set / dict keyed by
     Index or Mesh objects depends on their numbers and on the hash seed):
     domains -- forms over THREE meshes (instruction `integ a m` = a * dx(m): the integration domain
     is any mesh of the script) whose integrands carry constants / coefficients / geometric
     quantities on the TWO meshes that are not the integration domain: the numbering of the domains
     of a form (Form._analyze_domains: integration domains, then the others sorted by ufl_id);
     contraction -- subscripts a[i], a[i, j] of vector / tensor valued expressions WITH free indices
     (`grad`: grad(grad(a))[i, j] = a.dx(i, j)) and with one index twice (a[i, i]): the implicit
     summation inside one subscript (GetItem of SigCounters.tla = Expr.__getitem__ +
     create_slice_indices: one IndexSum per summed index, nested in the order of the subscript).
     Histories: the placements of the Mesh / Index counter plus the plain shifts HASH_OFFSETS.

A run = one program built in a FRESH interpreter (started with a given PYTHONHASHSEED) after a prior
history: objects of the counted classes created and dropped by the harness, and the earlier steps of
the same interpreter (a chain of steps per interpreter: starting an interpreter costs ~1 s, a step
~1 ms; forking is even more expensive on the verification machine).  The effective shift of every
counter is read back and recorded.  Histories: all counters shifted by each value of
{0,1,7,8,9,10,95,98,99,100,998,1000}; one counter at a time; every digit boundary 10/100/1000/10000
placed at every position inside the objects the program itself creates (the number of objects per
class is measured first); random phases.  All signatures of one program (form.signature(), the
signature after renumber_indices, compute_expression_signature of bare expressions) must be
identical.  Every discrepancy is classified from structure dumps (terminal hashdata / operand order
of Sum and Product nodes and the terminal comparison that decided it), reproduced in two fresh
interpreters whose histories differ in ONE counter (or, failing that, in the whole shift / only in
the hash seed), and reported with a mechanism fingerprint, e.g.
  C12:operand-order-by-repr:Constant:digit-boundary
  C12:operand-order-by-repr:GeometricQuantity:mesh-id-digit-boundary
  C12:operand-order-by-repr:Constant:combination:digit-boundary   (only several counters together)
  C12:raw-count-in-signature:Coefficient:Mesh
  C12:raw-index-count-in-signature:Zero-free-index
  C12:domain-numbering-order:Mesh          (the same domain numbers, given to different domains)
  C12:summation-index-order:Index          (the same tree up to the nesting of the index sums)
  C12:hashseed:<what>
"""

from __future__ import annotations

import copy
import json
import os
import random
import subprocess
import sys
import threading
import time
import traceback

KINDS5 = ["Index", "Coefficient", "Constant", "Label", "Mesh"]  # order of `off` in SigCounters.tla
KINDS = KINDS5 + ["BaseFormOperator"]

# =================================================================================================
# PART 1.  Real-code side.  Everything in this part runs inside a worker interpreter (started with a
# given PYTHONHASHSEED) that executes one chain of steps and exits.
# =================================================================================================


def _counter_value(cls):
    """Current value of the global counter of a Counted class (read-only: a copy is advanced)."""
    c = getattr(cls, "_counter", None)
    if c is None:
        return 0
    return next(copy.copy(c))


def read_counters():
    import ufl
    from ufl.classes import Coefficient, Constant, Label
    from ufl.core.base_form_operator import BaseFormOperator
    from ufl.core.multiindex import Index

    return {
        "Index": _counter_value(Index),
        "Coefficient": _counter_value(Coefficient),
        "Constant": _counter_value(Constant),
        "Label": _counter_value(Label),
        "Mesh": int(ufl.Mesh._ufl_global_id),
        "BaseFormOperator": _counter_value(BaseFormOperator),
    }


class Env:
    """Helpers shared by the script interpreter and the recipes (fresh objects only)."""

    def __init__(self):
        import ufl
        from vf.elements import LagrangeElement, MixedElement

        self.ufl = ufl
        self.cell = ufl.triangle
        self.L = LagrangeElement
        self.M = MixedElement
        self._spaces = {}

    def mesh(self, ufl_id=None):
        return self.ufl.Mesh(self.L(self.cell, 1, (2,)), ufl_id=ufl_id)

    def element(self, kind):
        L, c = self.L, self.cell
        if kind == "s":
            return L(c, 1)
        if kind == "s2":
            return L(c, 2)
        if kind == "v":
            return L(c, 1, (2,))
        if kind == "t":
            return L(c, 1, (2, 2))
        if kind == "t4":
            return L(c, 1, (2, 2, 2, 2))
        if kind == "m":
            return self.M([L(c, 2, (2,)), L(c, 1)])
        raise ValueError(kind)

    def space(self, mesh, kind="s"):
        k = (id(mesh), kind)
        if k not in self._spaces:
            self._spaces[k] = (mesh, self.ufl.FunctionSpace(mesh, self.element(kind)))
        return self._spaces[k][1]

    def seqspace(self, *meshes):
        """The mixed space (P1 x P2 x P1 ...) over the MeshSequence of the given meshes (as in
        test/test_mixed_function_space_with_mesh_sequence.py)."""
        k = tuple(id(m) for m in meshes)
        if k not in self._spaces:
            el = self.M([self.L(self.cell, 1 + n % 2) for n in range(len(meshes))], make_cell_sequence=True)
            self._spaces[k] = (meshes, self.ufl.FunctionSpace(self.ufl.MeshSequence(list(meshes)), el))
        return self._spaces[k][1]


class _ScratchDomain:
    """Built lazily (needs ufl): a user-defined domain for the constants of the prior history, so
    that shifting the Constant counter does not touch the Mesh counter."""

    _cls = None

    @classmethod
    def make(cls):
        if cls._cls is None:
            import ufl
            from ufl.domain import AbstractDomain

            class ScratchDomain(AbstractDomain):
                def __init__(self):
                    AbstractDomain.__init__(self, 2, 2)

                @property
                def meshes(self):
                    return (self,)

                def ufl_cell(self):
                    return ufl.triangle

                def __repr__(self):
                    return "ScratchDomain()"

            cls._cls = ScratchDomain
        return cls._cls()


def perform_history(delta):
    """Create and drop delta[K] objects of every counted class K (prior history of the process)."""
    import ufl
    from ufl.classes import Coefficient, Constant, ExternalOperator, Label
    from ufl.core.multiindex import Index

    E = Env()
    for _ in range(delta.get("Index", 0)):
        Index()
    for _ in range(delta.get("Label", 0)):
        Label()
    for _ in range(delta.get("Mesh", 0)):
        E.mesh()
    if any(delta.get(k, 0) for k in ("Coefficient", "Constant", "BaseFormOperator")):
        V = ufl.FunctionSpace(None, E.element("s"))  # a space without a mesh
        for _ in range(delta.get("Coefficient", 0)):
            Coefficient(V)
        dom = _ScratchDomain.make()
        for _ in range(delta.get("Constant", 0)):
            Constant(dom)
        one = ufl.as_ufl(1.0)
        for _ in range(delta.get("BaseFormOperator", 0)):
            ExternalOperator(one, function_space=V)


# ---- script interpreter (instruction set of SigCounters.tla plus a richer superset) -------------

GEO_KINDS = ["CellVolume", "Circumradius", "CellDiameter", "SpatialCoordinate"]


SIM_OPS = {"mesh", "const", "vconst", "coef", "vcoef", "tcoef", "mcoef", "qcoef", "scoef", "geo", "index", "idx", "idx2", "comp", "sum", "sub", "prod", "zeromul", "cond", "var", "lit", "neg", "grad", "dx", "integ"}


def run_script(script, E, sim=None):
    """Execute a script (list of {"op", "a", "b", "c", "k"}; a, b, c are 1-based store positions).
    Returns the store.  sim = None: every constructor takes its number from the live global counter.
    sim = {class: value}: EXPLICIT NUMBERING -- the dict stands for the global counters; every
    counted object is constructed with the number its counter would give (`ufl_id=` / `count=`
    arguments of the public constructors) and the dict is advanced."""
    import ufl
    import ufl.classes as C
    from ufl.core.multiindex import Index

    S = []

    def g(p):
        return S[p - 1]

    def num(kind):
        """The explicit number of the next object of a counted class (None: use the live counter)."""
        if sim is None:
            return None
        sim[kind] += 1
        return sim[kind] - 1

    for ins in script:
        op = ins["op"]
        a, b, c, k = ins.get("a", 0), ins.get("b", 0), ins.get("c", 0), ins.get("k")
        if sim is not None and op not in SIM_OPS:
            raise ValueError(f"instruction {op!r} has no explicit numbering")
        if op == "mesh":
            r = E.mesh(num("Mesh"))
        elif op == "const":
            r = C.Constant(g(a), count=num("Constant"))
        elif op == "vconst":
            r = C.Constant(g(a), shape=(2,), count=num("Constant"))
        elif op in ("coef", "vcoef", "tcoef", "mcoef", "qcoef"):
            r = C.Coefficient(E.space(g(a), {"coef": "s", "vcoef": "v", "tcoef": "t", "mcoef": "m", "qcoef": "s2"}[op]), count=num("Coefficient"))
        elif op == "scoef":  # coefficient on the mixed space over MeshSequence([a, b])
            r = C.Coefficient(E.seqspace(g(a), g(b)), count=num("Coefficient"))
        elif op == "arg":
            r = C.Argument(E.space(g(a), "s"), int(k))
        elif op == "varg":
            r = C.Argument(E.space(g(a), "v"), int(k))
        elif op == "geo":
            r = getattr(C, k or "CellVolume")(g(a))
        elif op == "index":
            r = Index(num("Index"))
        elif op == "lit":
            r = ufl.as_ufl(k)
        elif op == "idx":
            r = g(a)[g(b)]
        elif op == "idx2":
            r = g(a)[g(b), g(c)]
        elif op == "comp":
            r = g(a)[int(k)]
        elif op == "sum":
            r = g(a) + g(b)
        elif op == "sub":
            r = g(a) - g(b)
        elif op == "prod":
            r = g(a) * g(b)
        elif op == "div":
            r = g(a) / g(b)
        elif op == "neg":
            r = -g(a)
        elif op == "sq":
            r = g(a) ** 2
        elif op == "fn":
            r = abs(g(a)) if k == "abs" else getattr(ufl, k)(g(a))
        elif op == "zeromul":
            r = 0 * g(a)
        elif op == "cond":
            r = ufl.conditional(ufl.lt(g(a), 0), g(b), g(c))
        elif op == "var":
            r = ufl.variable(g(a)) if sim is None else C.Variable(ufl.as_ufl(g(a)), C.Label(num("Label")))
        elif op == "diffv":
            r = ufl.diff(g(a), g(b))
        elif op in ("inner", "dot", "outer"):
            r = getattr(ufl, op)(g(a), g(b))
        elif op == "grad":
            r = ufl.grad(g(a))
        elif op == "dx":  # a.dx(i) / a.dx(i, j): grad(..)[..., i, j], summing the indices that are free in a
            r = g(a).dx(*([g(b)] + ([g(c)] if c else [])))
        elif op == "astensor":
            r = ufl.as_tensor(g(a), (g(b),) if not c else (g(b), g(c)))
        elif op == "plus":
            r = g(a)("+")
        elif op == "integ":
            k = k or {}
            md = k.get("md")
            sid = k.get("id")
            if isinstance(sid, list):
                sid = tuple(sid)
            kw = {"domain": g(b)}
            if md:
                kw["metadata"] = md
            if sid is not None:
                kw["subdomain_id"] = sid
            r = g(a) * ufl.Measure(k.get("t", "dx"), **kw)
        elif op == "fadd":
            r = g(a) + g(b)
        elif op == "fder":
            r = ufl.derivative(g(a), g(b))
        elif op == "fexp":
            from ufl.algorithms import expand_derivatives

            r = expand_derivatives(g(a))
        else:
            raise ValueError(f"unknown instruction {op!r}")
        S.append(r)
    return S


def script_outputs(script, E, sim=None):
    import ufl
    from ufl.classes import Expr, Form

    S = run_script(script, E, sim)
    last = S[-1]
    if isinstance(last, Form):
        return {"form": last}
    if isinstance(last, Expr):
        return {"form": last * ufl.Measure("dx", domain=S[0]), "expr": last}
    raise ValueError("script does not end in an expression or a form")


# ---- hand written recipes: name -> function(E) -> {output name: Form | Expr} ------------------------

RECIPES = {}


def recipe(f):
    RECIPES[f.__name__[2:]] = f
    return f


def _std(E, n_mesh=1):
    """meshes and the usual spaces / functions, created in a fixed order."""
    ufl = E.ufl
    ms = [E.mesh() for _ in range(n_mesh)]
    return ufl, ms


@recipe
def r_const_product(E):
    ufl, (m,) = _std(E)
    c1, c2 = ufl.Constant(m), ufl.Constant(m)
    f = ufl.Coefficient(E.space(m))
    return {"form": c1 * c2 * f * ufl.dx, "expr": c2 * c1 * f}


@recipe
def r_const_sum(E):
    ufl, (m,) = _std(E)
    c1, c2 = ufl.Constant(m), ufl.Constant(m)
    f = ufl.Coefficient(E.space(m))
    return {"form": (c2 * f + c1 * f**2) * ufl.dx}


@recipe
def r_const_many(E):
    """Twelve constants created by the program itself (their counts cross a digit boundary at a
    place that depends on the prior history)."""
    ufl, (m,) = _std(E)
    f = ufl.Coefficient(E.space(m))
    cs = [ufl.Constant(m) for _ in range(12)]
    e = sum(c * f**k for k, c in enumerate(cs, 1))
    p = cs[0]
    for c in cs[1:]:
        p = p * c
    return {"form": e * ufl.dx, "form2": p * f * ufl.dx}


@recipe
def r_const_vector_tensor(E):
    ufl, (m,) = _std(E)
    c = ufl.Constant(m)
    v1, v2 = ufl.Constant(m, shape=(2,)), ufl.Constant(m, shape=(2,))
    t = ufl.Constant(m, shape=(2, 2))
    u = ufl.Coefficient(E.space(m, "v"))
    return {"form": (ufl.inner(v1 + v2, u) * c + ufl.dot(ufl.dot(t, v2), v1) + v1[0] * v2[1]) * ufl.dx}


@recipe
def r_const_two_meshes(E):
    ufl, (m1, m2) = _std(E, 2)
    c1, c2 = ufl.Constant(m1), ufl.Constant(m2)
    f = ufl.Coefficient(E.space(m1))
    return {"form": c1 * c2 * f * ufl.dx(m1), "form_b": (c2 + c1) * ufl.dx(m2)}


@recipe
def r_const_crosswise(E):
    """Two constants on two meshes, created in the opposite order of their meshes: each repr embeds
    two counters (mesh id, count) and between the two reprs both numbers differ, in opposite
    directions."""
    ufl, (m1, m2) = _std(E, 2)
    cb, ca = ufl.Constant(m2), ufl.Constant(m1)
    f = ufl.Coefficient(E.space(m1))
    return {"form": ca * cb * f * ufl.dx(m1), "form_sum": (cb + ca) * f * ufl.dx(m2), "expr": cb * ca + ca}


@recipe
def r_mesh_sequence(E):
    """Coefficients and a test function on the mixed space over a MeshSequence (built as in
    test/test_mixed_function_space_with_mesh_sequence.py), terminals on the component meshes."""
    ufl, (m0, m1) = _std(E, 2)
    V = E.seqspace(m0, m1)
    f, g = ufl.Coefficient(V), ufl.Coefficient(V)
    f0, f1 = ufl.split(f)
    g0, g1 = ufl.split(g)
    v0, v1 = ufl.split(ufl.TestFunction(V))
    u1 = ufl.TrialFunction(E.space(m1, "s2"))
    c0, c1 = ufl.Constant(m0), ufl.Constant(m1)
    x1 = ufl.SpatialCoordinate(m1)
    dx0 = ufl.Measure("dx", m0)
    dx1 = ufl.Measure("dx", m1, intersect_measures=(ufl.Measure("dx", m0),))
    F = c1 * c0 * f0 * g0 * v0 * dx0 + x1[1] * f0 * g1 * ufl.inner(ufl.grad(f1), ufl.grad(v1)) * dx1(7)
    return {"form": F, "form_bilinear": c1 * f0 * u1 * v0 * dx1, "expr": g1 * f0 * c1 * c0}


@recipe
def r_geo_two_meshes(E):
    ufl, (m1, m2) = _std(E, 2)
    f = ufl.Coefficient(E.space(m1))
    return {"form": ufl.CellVolume(m1) * ufl.CellVolume(m2) * f * ufl.dx(m1)}


@recipe
def r_coordinates_two_meshes(E):
    ufl, (m1, m2) = _std(E, 2)
    x1, x2 = ufl.SpatialCoordinate(m1), ufl.SpatialCoordinate(m2)
    return {"form": (x1[0] * x2[0] + ufl.inner(x2, x1)) * ufl.dx(m1)}


@recipe
def r_coefficients_two_meshes(E):
    ufl, (m1, m2) = _std(E, 2)
    f1, f2 = ufl.Coefficient(E.space(m1)), ufl.Coefficient(E.space(m2))
    g1 = ufl.Coefficient(E.space(m1, "v"))
    return {"form": f2 * f1 * ufl.dx(m1) + f1 * f2 * g1[0] * ufl.dx(m2) + f1 * ufl.ds(m2)}


@recipe
def r_three_meshes(E):
    """Forms whose integrands have terminals on two meshes that are NOT integration domains (the
    numbering of those domains: Form._analyze_domains), the integration domain being the first, the
    middle and the last mesh created; a coefficient over a MeshSequence of two such meshes."""
    ufl, (m0, m1, m2) = _std(E, 3)
    f0, f1, f2 = (ufl.Coefficient(E.space(m)) for m in (m0, m1, m2))
    c1, c2 = ufl.Constant(m1), ufl.Constant(m2)
    x0, x2 = ufl.SpatialCoordinate(m0), ufl.SpatialCoordinate(m2)
    v1 = ufl.TestFunction(E.space(m1))
    g = ufl.Coefficient(E.seqspace(m0, m2))
    g0, g2 = ufl.split(g)
    return {
        "form": f1 * f2 * ufl.dx(m0),
        "form_mid": f0 * f2 * c2 * ufl.dx(m1),
        "form_last": (ufl.CellVolume(m0) * c1 + x0[0] * f1) * ufl.dx(m2),
        "form_linear": x2[1] * f0 * v1 * ufl.dx(m0) + c2 * f2 * v1 * ufl.ds(m0),
        "form_sequence": g0 * g2 * f0 * ufl.dx(m1),
        "form_two_integrals": f2 * c1 * ufl.dx(m0) + ufl.CellVolume(m2) * f0 * ufl.dx(m1),
    }


@recipe
def r_subscript_contractions(E):
    """Implicit summation inside ONE subscript (create_slice_indices): two indices twice on a rank-4
    tensor, in both orders; .dx(i, j) of an expression with the free indices i, j; an index twice
    next to a slice and to a free index."""
    ufl, (m,) = _std(E)
    C = ufl.Coefficient(E.space(m, "t4"))
    A = ufl.Coefficient(E.space(m, "t"))
    u, v = ufl.Coefficient(E.space(m, "v")), ufl.Coefficient(E.space(m, "v"))
    i, j, k = ufl.indices(3)
    return {
        "form": C[i, j, i, j] * ufl.dx,
        "form_rev": (C[j, i, j, i] + C[i, j, j, i] * C[k, k, 0, 1]) * ufl.dx,
        "form_dx": ((v[i] * u[j]).dx(i, j) + A[j, i].dx(i, j) * u[k].dx(k)) * ufl.dx,
        "form_slice": ufl.inner(C[i, :, i, :], A) * ufl.dx + C[k, j, k, i] * A[i, j] * ufl.dx,
        "expr": ufl.as_tensor(C[i, j, i, k] * u[j], (k,)),
    }


@recipe
def r_zero_free_index(E):
    ufl, (m,) = _std(E)
    f, g = ufl.Coefficient(E.space(m)), ufl.Coefficient(E.space(m, "v"))
    i = ufl.Index()
    e = ufl.conditional(ufl.lt(f, 0), 0 * g[i], g[i]) * g[i]
    return {"form": e * ufl.dx, "expr": e}


@recipe
def r_zero_two_free_indices(E):
    ufl, (m,) = _std(E)
    f, A = ufl.Coefficient(E.space(m)), ufl.Coefficient(E.space(m, "t"))
    i, j = ufl.indices(2)
    e = ufl.conditional(ufl.gt(f, 1), A[i, j], 0 * A[j, i]) * A[i, j]
    return {"form": e * ufl.dx}


@recipe
def r_zero_operand_order(E):
    """Two operands that differ only in the free index a Zero branch carries."""
    ufl, (m,) = _std(E)
    f, g, h = ufl.Coefficient(E.space(m)), ufl.Coefficient(E.space(m, "v")), ufl.Coefficient(E.space(m, "v"))
    i, j = ufl.Index(), ufl.Index()
    a = ufl.conditional(ufl.lt(f, 0), 0 * g[i], g[i]) * h[i]
    b = ufl.conditional(ufl.lt(f, 0), 0 * g[j], g[j]) * h[j]
    return {"form": (a * ufl.exp(b)) * ufl.dx, "form2": (ufl.exp(b) * a + ufl.sin(a) * ufl.sin(b)) * ufl.dx}


@recipe
def r_zero_operand_order_asym(E):
    """As above, but the two operands also differ in a place cmp_expr looks at AFTER the Zero."""
    ufl, (m,) = _std(E)
    f, f2 = ufl.Coefficient(E.space(m)), ufl.Coefficient(E.space(m))
    g, h = ufl.Coefficient(E.space(m, "v")), ufl.Coefficient(E.space(m, "v"))
    i, j = ufl.Index(), ufl.Index()
    a = ufl.conditional(ufl.lt(f, 0), 0 * g[i], g[i]) * h[i]
    b = ufl.conditional(ufl.lt(f2, 0), 0 * g[j], g[j]) * h[j]
    return {"form": ufl.sin(a) * ufl.sin(b) * ufl.dx}


@recipe
def r_zero_tensor_branch(E):
    ufl, (m,) = _std(E)
    f, g = ufl.Coefficient(E.space(m)), ufl.Coefficient(E.space(m, "v"))
    i = ufl.Index()
    z = ufl.as_tensor(0 * g[i], (i,))
    return {"form": ufl.inner(ufl.conditional(ufl.lt(f, 0), z, g), g) * ufl.dx}


@recipe
def r_index_notation(E):
    ufl, (m,) = _std(E)
    A, B = ufl.Coefficient(E.space(m, "t")), ufl.Coefficient(E.space(m, "t"))
    u, v = ufl.Coefficient(E.space(m, "v")), ufl.TestFunction(E.space(m, "v"))
    i, j, k, l = ufl.indices(4)
    e = A[i, j] * B[j, k] * u[k] * v[i] + ufl.as_tensor(A[i, k] * B[k, j], (i, j))[l, l] * u[i] * v[i]
    T = ufl.as_tensor(u[i] * v[j] + B[j, i], (i, j))
    return {"form": e * ufl.dx + ufl.inner(T, A) * ufl.dx, "expr": ufl.as_tensor(A[i, j] * u[j], (i,))}


@recipe
def r_index_many(E):
    """Twelve indices created by the program (counts cross a digit boundary inside the program)."""
    ufl, (m,) = _std(E)
    u, w = ufl.Coefficient(E.space(m, "v")), ufl.Coefficient(E.space(m, "v"))
    A = ufl.Coefficient(E.space(m, "t"))
    ii = ufl.indices(12)
    e = 0
    for n in range(0, 12, 2):
        i, j = ii[n], ii[n + 1]
        e = e + u[i] * A[i, j] * w[j] * (n + 1)
    return {"form": e * ufl.dx, "form2": ufl.exp(u[ii[3]] * w[ii[3]]) * ufl.sin(u[ii[9]] * w[ii[9]]) * ufl.dx}


@recipe
def r_grad_div_operators(E):
    ufl, (m,) = _std(E)
    V, W = E.space(m), E.space(m, "v")
    u, v = ufl.TrialFunction(V), ufl.TestFunction(V)
    b, c, k = ufl.Coefficient(W), ufl.Constant(m), ufl.Constant(m)
    a = (k * ufl.inner(ufl.grad(u), ufl.grad(v)) + c * ufl.dot(b, ufl.grad(u)) * v + ufl.div(b) * u * v) * ufl.dx
    return {"form": a, "form_ds": c * k * u * v * ufl.ds + ufl.inner(ufl.FacetNormal(m), b) * u * v * ufl.ds(1)}


@recipe
def r_variables(E):
    ufl, (m,) = _std(E)
    f, g = ufl.Coefficient(E.space(m)), ufl.Coefficient(E.space(m))
    c = ufl.Constant(m)
    v1, v2 = ufl.variable(f), ufl.variable(g * c)
    e = v1**2 * v2 + ufl.sin(v2) * v1
    F = ufl.diff(e, v1) * ufl.dx + ufl.diff(e, v2) * ufl.dx(1)
    from ufl.algorithms import expand_derivatives

    return {"form": F, "form_expanded": expand_derivatives(F), "form_vars": v2 * v1 * ufl.dx, "expr": v2 * v1}


@recipe
def r_labels_many(E):
    ufl, (m,) = _std(E)
    f = ufl.Coefficient(E.space(m))
    vs = [ufl.variable(f**k) for k in range(1, 13)]
    e = vs[0]
    for v in vs[1:]:
        e = e * v + v
    return {"form": e * ufl.dx, "form2": (vs[10] * vs[3] + vs[9] * vs[11]) * ufl.dx}


@recipe
def r_mixed_element(E):
    ufl, (m,) = _std(E)
    W = E.space(m, "m")
    w, (v, q) = ufl.Coefficient(W), ufl.TestFunctions(W)
    u, p = ufl.split(w)
    c1, c2 = ufl.Constant(m), ufl.Constant(m)
    F = (c1 * ufl.inner(ufl.grad(u), ufl.grad(v)) - c2 * p * ufl.div(v) + ufl.div(u) * q) * ufl.dx
    J = ufl.derivative(F, w)
    from ufl.algorithms import expand_derivatives

    return {"form": F, "form_J": J, "form_J_expanded": expand_derivatives(J)}


@recipe
def r_measures(E):
    ufl, (m,) = _std(E)
    f, g = ufl.Coefficient(E.space(m)), ufl.Coefficient(E.space(m))
    c1, c2 = ufl.Constant(m), ufl.Constant(m)
    dxm = ufl.Measure("dx", domain=m, metadata={"quadrature_degree": 3, "quadrature_rule": "default"})
    F = (
        c2 * c1 * f * ufl.dx(2)
        + c1 * g * ufl.dx(1)
        + f * g * ufl.dx((3, 1))
        + c2 * f * dxm
        + g * dxm(7, degree=1)
        + c1 * c2 * ufl.ds(3)
        + ufl.avg(f) * ufl.jump(g) * c2 * c1 * ufl.dS
        + f("+") * g("-") * ufl.dS(4)
        + f * ufl.dx(m)
    )
    return {"form": F}


@recipe
def r_several_integrals(E):
    ufl, (m1, m2) = _std(E, 2)
    f1, f2 = ufl.Coefficient(E.space(m1)), ufl.Coefficient(E.space(m2))
    c1, c2, c3 = ufl.Constant(m1), ufl.Constant(m2), ufl.Constant(m1)
    F = c3 * c1 * f1 * ufl.dx(m1) + c2 * f2 * ufl.dx(m2) + c1 * c3 * ufl.ds(m1) + f2 * c2 * ufl.ds(m2)(2) + f1**2 * ufl.dx(m1)
    return {"form": F, "form_rev": f1**2 * ufl.dx(m1) + f2 * c2 * ufl.ds(m2)(2) + c2 * f2 * ufl.dx(m2) + c3 * c1 * f1 * ufl.dx(m1)}


@recipe
def r_external_operator(E):
    ufl, (m,) = _std(E)
    from ufl.classes import ExternalOperator, Interpolate

    V = E.space(m)
    f, g = ufl.Coefficient(V), ufl.Coefficient(V)
    c1, c2 = ufl.Constant(m), ufl.Constant(m)
    v = ufl.TestFunction(V)
    N1 = ExternalOperator(f, c1 * c2, function_space=V)
    N2 = ExternalOperator(g, function_space=V, derivatives=(0,))
    Ip = Interpolate(f * c2 * c1, V)
    return {"form": N2 * N1 * v * ufl.dx + c2 * N1 * c1 * v * ufl.ds, "form_interp": Ip * N2 * v * ufl.dx}


@recipe
def r_form_operators(E):
    ufl, (m,) = _std(E)
    V = E.space(m)
    u, v = ufl.TrialFunction(V), ufl.TestFunction(V)
    w, f = ufl.Coefficient(V), ufl.Coefficient(V)
    c1, c2 = ufl.Constant(m), ufl.Constant(m)
    a = c2 * c1 * ufl.inner(ufl.grad(u), ufl.grad(v)) * ufl.dx + c1 * u * v * ufl.dx - c2 * f * v * ufl.dx
    F = c1 * c2 * w**2 * v * ufl.dx + ufl.inner(ufl.grad(w), ufl.grad(v)) * c2 * ufl.dx
    from ufl.algorithms import expand_derivatives

    J = ufl.derivative(F, w)
    out = {
        "lhs": ufl.lhs(a),
        "rhs": ufl.rhs(a),
        "adjoint": ufl.adjoint(ufl.lhs(a)),
        "action": ufl.action(ufl.lhs(a), w),
        "J": J,
        "J_expanded": expand_derivatives(J),
        "replace": ufl.replace(F, {w: f * c1}),
        "energy_norm": ufl.energy_norm(ufl.lhs(a), w),
        "sensitivity": expand_derivatives(ufl.derivative(ufl.action(ufl.lhs(a), w), w, f)),
    }
    return out


@recipe
def r_form_data(E):
    """The form a form compiler sees: compute_form_data(...).preprocessed_form and the integrands
    of its integral data (lowered algebra, applied derivatives, pulled back geometry)."""
    ufl, (m,) = _std(E)
    from ufl.algorithms import compute_form_data

    V, W = E.space(m), E.space(m, "v")
    u, v = ufl.TrialFunction(V), ufl.TestFunction(V)
    b, c1, c2 = ufl.Coefficient(W), ufl.Constant(m), ufl.Constant(m)
    i = ufl.Index()
    a = (c2 * c1 * ufl.inner(ufl.grad(u), ufl.grad(v)) + b[i] * u.dx(i) * v * c1 + ufl.CellVolume(m) * ufl.div(b) * u * v) * ufl.dx + c1 * c2 * u * v * ufl.ds
    fd = compute_form_data(
        a,
        do_apply_function_pullbacks=True,
        do_apply_integral_scaling=True,
        do_apply_geometry_lowering=True,
        preserve_geometry_types=(ufl.classes.Jacobian,),
        do_apply_restrictions=True,
    )
    out = {"form": a, "preprocessed": fd.preprocessed_form}
    for n, itd in enumerate(fd.integral_data):
        for k, itg in enumerate(itd.integrals):
            out[f"integral_data_{n}_{k}"] = ufl.Form([itg])
    return out


# ---- signatures and diagnosis dump --------------------------------------------------------------


def expr_renumbering(e):
    """The renumbering Form._compute_renumbering would use, for a bare expression."""
    from collections import defaultdict

    from ufl.algorithms.analysis import extract_type
    from ufl.domain import extract_domains
    from ufl.utils.counted import Counted
    from ufl.utils.sorting import sorted_by_count

    ren = {d: n for n, d in enumerate(extract_domains(e))}
    by = defaultdict(set)
    for t in extract_type(e, Counted):
        by[t._counted_class].add(t)
    for s in by.values():
        for n, t in enumerate(sorted_by_count(s)):
            ren[t] = n
    return ren


def with_renumbered(outputs):
    """Every output and its image under renumber_indices."""
    from ufl.algorithms.renumbering import renumber_indices

    out = {}
    for name, obj in outputs.items():
        out[name] = obj
        out[name + "|renumber_indices"] = renumber_indices(obj)
    return out


def signatures(outputs):
    from ufl.algorithms.signature import compute_expression_signature
    from ufl.classes import Form

    sigs = {}
    for name, obj in outputs.items():
        if isinstance(obj, Form):
            sigs[name] = obj.signature()
        else:
            sigs[name] = compute_expression_signature(obj, expr_renumbering(obj))
    return sigs


def _digits(t):
    import re

    return [int(x) for x in re.findall(r"\d+", t)]


def _decider(a, b, diag=False):
    """The comparison that decides cmp_expr(a, b): walk both expressions the way cmp_expr does.  For a
    deciding pair of terminals: which number of the two reprs differs first (`field`: "count" = the
    last number, the terminal's own counter; "index" for a Zero; "mesh" otherwise) and whether the
    two numbers have a different number of digits (`crosses`)."""
    from ufl.sorting import cmp_expr
    from ufl.utils.counted import Counted

    stack = [(a, b)]
    while stack:
        x, y = stack.pop()
        if x._ufl_typecode_ != y._ufl_typecode_:
            return {"by": "typecode", "cls": [type(x).__name__, type(y).__name__]}
        if x._ufl_is_terminal_:
            c = cmp_expr(x, y)
            if c:
                rx, ry = repr(x), repr(y)
                dx, dy = _digits(rx), _digits(ry)
                field, crosses = "other", False
                if len(dx) == len(dy):
                    diff = [i for i, (p, q) in enumerate(zip(dx, dy)) if p != q]
                    if diff:
                        i = diff[0]
                        crosses = len(str(dx[i])) != len(str(dy[i]))
                        field = "index" if type(x).__name__ == "Zero" else "count" if i == len(dx) - 1 and isinstance(x, Counted) else "mesh"
                r = {"by": "terminal", "cls": [type(x).__name__], "field": field, "crosses": crosses}
                if diag:
                    r.update(a=rx[-100:], b=ry[-100:], c=c)
                return r
        else:
            xo, yo = x.ufl_operands, y.ufl_operands
            stack.extend((r, s) for r, s in zip(xo, yo) if r is not s)
            if len(xo) != len(yo):
                return {"by": "noperands", "cls": [type(x).__name__]}
    return {"by": "tie", "cls": []}


def dump(outputs, diag=False):
    """Structure of every output with the terminal hashdata the signature uses and, for the
    commutative nodes, the terminal comparison that decided the operand order."""
    from ufl.algorithms.signature import compute_terminal_hashdata
    from ufl.classes import Form, Product, Sum, Zero

    out = {}
    for name, obj in outputs.items():
        if isinstance(obj, Form):
            ren = obj._compute_renumbering()
            parts = [(f"{it.integral_type()}|{it.subdomain_id()}|{sorted((it.metadata() or {}).items())!r}", it.integrand()) for it in obj.integrals()]
        else:
            ren = expr_renumbering(obj)
            parts = [("expr", obj)]
        th = compute_terminal_hashdata([e for _, e in parts], ren)
        memo = {}

        def rec(e):
            k = id(e)
            if k in memo:
                return memo[k]
            if e._ufl_is_terminal_:
                r = ["T", type(e).__name__, str(th[e])]
                if isinstance(e, Zero) and e.ufl_free_indices:
                    r.append(len(e.ufl_free_indices))
            else:
                r = ["O", type(e).__name__, [rec(o) for o in e.ufl_operands]]
                if isinstance(e, Sum | Product):
                    r.append(_decider(*e.ufl_operands, diag=diag))
            memo[k] = r
            return r

        out[name] = [[label, rec(e)] for label, e in parts]
    return out


def _terminals(d, acc):
    if d[0] == "T":
        acc.append((d[1], d[2]))
    else:
        for o in d[2]:
            _terminals(o, acc)


def _erase_zero(d):
    """terminal key used for matching nodes of two dumps: the raw index counts of a Zero and the
    numbers given to free indices (they follow the traversal order) are erased."""
    if d[1] == "Zero" and len(d) > 3:
        return f"Zero/{d[3]}"
    if d[1] == "MultiIndex":
        import re

        return "MultiIndex:" + re.sub(r"-\d+", "i", d[2])
    return d[1] + ":" + d[2]


def _okey(d, memo):
    """Order-insensitive key of a dumped node (operands of Sum/Product as a multiset)."""
    k = id(d)
    if k in memo:
        return memo[k]
    if d[0] == "T":
        r = _erase_zero(d)
    else:
        ks = [_okey(o, memo) for o in d[2]]
        if d[1] in ("Sum", "Product"):
            ks = sorted(ks)
        r = d[1] + "(" + ",".join(ks) + ")"
    memo[k] = r
    return r


def _comm_nodes(d, memo, acc):
    if d[0] == "O":
        if d[1] in ("Sum", "Product"):
            acc.setdefault(_okey(d, memo), []).append(([_okey(o, memo) for o in d[2]], d[3] if len(d) > 3 else None))
        for o in d[2]:
            _comm_nodes(o, memo, acc)


def build_outputs(prog, E, counters, sim=None):
    import ufl

    if prog["kind"] == "script":
        return script_outputs(prog["script"], E, sim)
    if sim is not None:
        raise ValueError("explicit numbering is available for scripts only")
    if prog["kind"] == "recipe":
        return RECIPES[prog["name"]](E)
    if prog["kind"] == "selftest-order-dependent":
        # deliberately NOT the same creation order in every process: the two constants are created
        # in an order that depends on the prior history (must be flagged by the comparison)
        m = E.mesh()
        if counters["Constant"] % 2:
            c2, c1 = ufl.Constant(m), ufl.Constant(m)
        else:
            c1, c2 = ufl.Constant(m), ufl.Constant(m)
        return {"form": (c1 + 2 * c2) * ufl.dx}
    raise ValueError(prog["kind"])


def execute_chain(job):
    """Runs in a fresh interpreter.  For every step: extend the prior history
    so that every counter named in `targets` stands at base + target (if it is already beyond:
    leave it, or skip the step when it is `exact`; exact = "targets": only the named counters have to
    be met exactly), run the program, record the observables and the
    effective shift of every counter at the moment the program started.  A step with `sim` runs the
    script with EXPLICIT NUMBERING instead (run_script): no history is performed, the numbers
    base + target are passed to the constructors; its recorded shift is the simulated one."""
    base = read_counters()
    out = []
    table = {}
    created = {}
    for step in job["steps"]:
        cur = read_counters()
        targets = dict(step.get("targets") or {})
        pk = json.dumps(step["program"], sort_keys=True)
        delta = {k: base[k] + int(v) - cur[k] for k, v in targets.items()}
        sim = None
        if step.get("sim"):
            sim = {k: base[k] + int(targets.get(k, 0)) for k in KINDS}
            start = dict(sim)
            res = {"eff": {k: start[k] - base[k] for k in KINDS}, "sim": True}
        else:
            if step.get("exact"):
                if any(d < 0 for d in delta.values()) or (step["exact"] != "targets" and any(cur[k] != base[k] for k in KINDS if k not in targets)):
                    out.append({"ok": False, "skipped": True})
                    continue
            perform_history({k: d for k, d in delta.items() if d > 0})
            start = read_counters()
            res = {"eff": {k: start[k] - base[k] for k in KINDS}}
        t0 = time.time()
        try:
            outputs = with_renumbered(build_outputs(step["program"], Env(), start, sim))
            end = sim if sim is not None else read_counters()
            created[pk] = {k: end[k] - start[k] for k in KINDS}
            res["sigs"] = signatures(outputs)
            # structure dumps, shared between the steps of the chain (most are identical)
            res["dump"] = {nm: table.setdefault(json.dumps(d), len(table)) for nm, d in dump(outputs, bool(step.get("diag"))).items()}
            res["ok"] = True
        except Exception as e:  # noqa: BLE001
            res.update(ok=False, error=f"{type(e).__name__}: {e}"[:300], tb=traceback.format_exc()[-800:])
        res["t"] = round(time.time() - t0, 4)
        out.append(res)
    return {"base": base, "steps": out, "dumps": list(table), "created": created}


def worker_main():
    """A fresh interpreter (started with the PYTHONHASHSEED of the chain): import ufl, read the
    import-time counters, run ONE chain read from stdin, print the result."""
    import warnings

    warnings.simplefilter("ignore")
    import ufl
    import ufl.algorithms  # noqa: F401
    import ufl.algorithms.renumbering  # noqa: F401
    import ufl.algorithms.signature  # noqa: F401
    import vf.elements  # noqa: F401

    job = json.loads(sys.stdin.read())
    try:
        out = execute_chain(job)
    except BaseException as e:  # noqa: BLE001
        out = {"error": f"{type(e).__name__}: {e}"[:400], "tb": traceback.format_exc()[-1200:]}
    out["hello"] = {"ufl_file": ufl.__file__, "hashseed": os.environ.get("PYTHONHASHSEED"), "hash_probe": hash("c12-probe")}
    sys.stdout.write(json.dumps(out) + "\n")
    sys.stdout.flush()


# =================================================================================================
# PART 2.  The checking process: worker pool, TLC, comparison, diagnosis.
# =================================================================================================

from .. import tlc  # noqa: E402
from ..common import ROOT, MachineryError, main_wrapper  # noqa: E402


MAX_WORKERS = 6  # 1 checking process + at most 6 interpreters running chains <= 8 python processes


def run_interpreter(chain):
    """One chain in one fresh interpreter started with the hash seed of the chain."""
    env = dict(os.environ)
    env["PYTHONHASHSEED"] = str(chain["seed"])
    env["PYTHONDONTWRITEBYTECODE"] = "1"
    env.setdefault("OMP_NUM_THREADS", "1")
    env.setdefault("OPENBLAS_NUM_THREADS", "1")
    p = subprocess.run(
        [sys.executable, "-m", "vf.checks.c12", "--worker"],
        cwd=ROOT,
        env=env,
        input=json.dumps({"steps": chain["steps"]}),
        capture_output=True,
        text=True,
        timeout=900,
    )
    line = p.stdout.strip().splitlines()[-1] if p.stdout.strip() else ""
    if not line.startswith("{"):
        raise MachineryError(f"interpreter (PYTHONHASHSEED={chain['seed']}) gave no result: rc={p.returncode} {p.stderr[-600:]}")
    return json.loads(line)


class Pool:
    """Runs chains {"seed", "steps"}: every chain in its own fresh interpreter (at most MAX_WORKERS at
    a time) started with the hash seed of the chain."""

    def __init__(self, workers=MAX_WORKERS):
        self.hellos = []
        self.base = None
        self.forks = 0
        self.workers = workers
        self.lock = threading.Lock()

    def check_hello(self, res):
        import ufl

        h = res["hello"]
        if os.path.realpath(h["ufl_file"]) != os.path.realpath(ufl.__file__):
            raise MachineryError(f"interpreter imports ufl from {h['ufl_file']}, the checking process from {ufl.__file__}")
        if res.get("base"):
            b = {k: res["base"][k] for k in KINDS}
            if self.base is None:
                self.base = b
            elif self.base != b:
                raise MachineryError(f"import-time counters differ between interpreters: {self.base} vs {b}")
        self.hellos.append((h["hashseed"], h["hash_probe"]))

    def run(self, chains, deadline=None):
        from concurrent.futures import ThreadPoolExecutor

        def one(ch):
            if deadline is not None and not ch.get("must") and time.time() > deadline:
                return {"error": "deadline", "deadline": True}
            res = run_interpreter(ch)
            with self.lock:
                self.check_hello(res)
                self.forks += 1
            return res

        if not chains:
            return []
        with ThreadPoolExecutor(max_workers=self.workers) as ex:
            try:
                return list(ex.map(one, chains))
            except MachineryError:
                raise
            except Exception as e:  # noqa: BLE001
                raise MachineryError(f"interpreter pool: {type(e).__name__}: {e}")


# ---- TLC -------------------------------------------------------------------------------------------

TC_NAMES = "Constant Coefficient CellVolume Zero MultiIndex Label Sum Product IndexSum Indexed Conditional LT Variable Grad".split()
MODEL_OFFSETS = [0, 1, 8, 9, 10, 90, 98, 99, 100]
OPS = ["mesh", "const", "coef", "vcoef", "tcoef", "scoef", "geo", "index", "idx", "idx2", "comp", "grad", "sum", "prod", "zeromul", "cond", "var", "integ"]

# script families (Caps of SigCounters.tla; an instruction that is not named has cap 0)
FAM_CONST = dict(mesh=2, const=3, coef=1, vcoef=0, geo=2, index=0, idx=0, sum=2, prod=2, zeromul=0, cond=0, var=1)
FAM_INDEX = dict(mesh=1, const=0, coef=1, vcoef=1, geo=0, index=2, idx=2, sum=1, prod=2, zeromul=1, cond=1, var=0)
FAM_SMALL = dict(mesh=2, const=2, coef=1, vcoef=1, geo=1, index=1, idx=1, sum=1, prod=2, zeromul=1, cond=1, var=1)
# terminals whose repr / signature data embed SEVERAL counters: constants on two meshes created in
# every order, a coefficient on the mixed space over a MeshSequence; run with PLACEMENT histories
# (Boundaries of SigCounters.tla) over all counters at once
FAM_CROSS = dict(mesh=2, const=2, scoef=1, comp=1, sum=1, prod=1)
FAM_CROSS_T = dict(mesh=2, const=3, coef=1, scoef=1, comp=1, sum=1, prod=2)
CROSS_BOUNDARIES = {"quick": [10, 100], "thorough": [10, 100, 1000]}
# forms over THREE meshes (`Need`: every finished script has three): terminals of every class that
# carries a domain on meshes that are not the integration domain, the integration domain being any
# of the three (integ) -- the numbering of the domains of a form (Form._analyze_domains: integration
# domains, then the others sorted by ufl_id) under placements of the Mesh counter
FAM_DOMAINS = dict(mesh=3, const=1, coef=2, geo=1, prod=1, integ=1)
FAM_DOMAINS_T = dict(mesh=3, const=1, coef=2, scoef=1, geo=1, comp=1, prod=2, integ=1)
# index notation: subscripts a[i], a[i, j] of vector / tensor valued expressions WITH free indices
# (grad(..)[i, j] = .dx(i, j)) and with an index twice (a[i, i]): implicit summation inside ONE
# subscript (create_slice_indices: IndexSum nesting in the order of the subscript) next to the one of
# products (merge_overlapping_indices: by count), under placements of the Index counter
FAM_CONTRACT = dict(mesh=1, vcoef=1, tcoef=1, index=2, idx=2, idx2=2, grad=2, prod=1)
FAM_CONTRACT_T = dict(mesh=1, coef=1, vcoef=1, tcoef=1, index=3, idx=2, idx2=2, grad=2, prod=2)


def real_typecodes():
    import ufl.classes as C

    return {n: int(getattr(C, n)._ufl_typecode_) for n in TC_NAMES}


def mc_text(base, caps, cmp_of, offsets=None, boundaries=(), bump_kinds=None, need=None):
    offsets = MODEL_OFFSETS if offsets is None else offsets
    bump_kinds = KINDS5 if bump_kinds is None else bump_kinds
    return (
        "---- MODULE MC_SigCounters ----\nEXTENDS SigCounters\n"
        f"MCTC == {tlc.tla(real_typecodes())}\n"
        f"MCBase == {tlc.tla({k: base[k] for k in KINDS5})}\n"
        f"MCCmpOf == {tlc.tla(cmp_of)}\n"
        f"MCOffsets == {{{', '.join(map(str, offsets))}}}\n"
        f"MCBoundaries == {{{', '.join(map(str, boundaries))}}}\n"
        f"MCBumpKinds == {{{', '.join(json.dumps(k) for k in bump_kinds)}}}\n"
        f"MCCaps == {tlc.tla({o: caps.get(o, 0) for o in OPS})}\n"
        f"MCNeed == {tlc.tla({o: (need or {}).get(o, 0) for o in OPS})}\n"
        "====\n"
    )


def cfg_text(comparator, zerosig, maxbumped, maxsteps, emit, invariants):
    return (
        "CONSTANTS TC <- MCTC\nBase <- MCBase\nComparatorOf <- MCCmpOf\nOffsets <- MCOffsets\nBoundaries <- MCBoundaries\n"
        "BumpKinds <- MCBumpKinds\nCaps <- MCCaps\nNeed <- MCNeed\n"
        f'Comparator = "{comparator}"\nZeroSig = "{zerosig}"\nMaxBumped = {maxbumped}\nMaxSteps = {maxsteps}\n'
        f"Emit = {'TRUE' if emit else 'FALSE'}\nSPECIFICATION Spec\n" + "".join(f"INVARIANT {i}\n" for i in invariants)
    )


TLC_ENV = {"JAVA_TOOL_OPTIONS": f"-DTLA-Library={os.path.join(ROOT, 'spec')} -Xmx3g -Xmn256m -XX:ParallelGCThreads=2 -Dtlc2.tool.queue.IStateQueue=StateDeque"}


class Job:
    """One TLC run of SigCounters."""

    def __init__(self, label, caps, comparator, zerosig, maxbumped, maxsteps, *, emit=False, cmp_of=None, workers=4, offsets=None, boundaries=(), bump_kinds=None, invariants=None, need=None):
        self.need = need
        self.label, self.caps, self.comparator, self.zerosig = label, caps, comparator, zerosig
        self.maxbumped, self.maxsteps, self.emit, self.workers = maxbumped, maxsteps, emit, workers
        self.cmp_of = cmp_of or {"const": "repr", "geo": "repr", "zero": "repr"}
        self.invariants = invariants or (["EmitInv"] if emit else ["TypeOK", "RunAgrees", "SigInvariant"])
        self.offsets, self.boundaries, self.bump_kinds = offsets, boundaries, bump_kinds
        self.res = None

    def run(self, base):
        self.res = tlc.run(
            "SigCounters",
            cfg_text(self.comparator, self.zerosig, self.maxbumped, self.maxsteps, self.emit, self.invariants),
            mc_text=mc_text(base, self.caps, self.cmp_of, self.offsets, self.boundaries, self.bump_kinds, self.need),
            mc_name="MC_SigCounters",
            workers=min(4, self.workers),
            timeout=1500,
            env=TLC_ENV,
            heap=None,
        )
        return self


def trace_case(res):
    """(script, offsets) of the last state of a counterexample."""
    st = tlc.parse_state(res.trace[-1][1])
    off = st["off"]
    return [dict(i) for i in st["prog"]], {k: int(off[k]) for k in KINDS5}


# ---- comparison ------------------------------------------------------------------------------------

ZERO = {k: 0 for k in KINDS}


def prog_key(prog):
    return json.dumps(prog, sort_keys=True)


def show_prog(prog):
    if prog["kind"] == "recipe":
        return "recipe:" + prog["name"]
    if prog["kind"] != "script":
        return prog["kind"]
    parts = []
    for i in prog["script"]:
        args = [str(i[x]) for x in ("a", "b", "c") if i.get(x)]
        if i.get("k") is not None:
            args.append(json.dumps(i["k"]))
        parts.append(i["op"] + ("(" + ",".join(args) + ")" if args else ""))
    return " ; ".join(parts)


def off_str(off):
    nz = {k: v for k, v in off.items() if v}
    return "{" + ", ".join(f"{k}+{v}" for k, v in nz.items()) + "}" if nz else "{}"


def clean_script(script):
    """TLC records -> instructions of the interpreter (comp: the model's c is the component + 1)."""
    out = []
    for i in script:
        if i["op"] == "comp":
            out.append({"op": "comp", "a": i["a"], "k": i["c"] - 1})
        else:
            out.append({k: v for k, v in i.items() if k == "op" or v})
    return out


def model_ins(i):
    """instruction of the interpreter -> record of SigCounters.tla"""
    if i["op"] == "comp":
        return {"op": "comp", "a": i["a"], "b": 0, "c": int(i["k"]) + 1}
    return {"op": i["op"], "a": i.get("a", 0), "b": i.get("b", 0), "c": i.get("c", 0)}


class Case:
    """All runs of one program: (effective offsets, seed, step result, chain, step index)."""

    def __init__(self, prog, source):
        self.prog, self.source = prog, source
        self.runs = []


def compare_dumps(b, v):
    """Structural difference of two dumps of the same output: list of findings
    ("terminal-data", class) / ("operand-order", decider) / ("integral-order", None) / ..."""
    found = []
    if [x[0] for x in b] != [x[0] for x in v]:
        found.append(("integral-order" if sorted(x[0] for x in b) == sorted(x[0] for x in v) else "integral-data", None))
    tb, tv = [], []
    for _, d in b:
        _terminals(d, tb)
    for _, d in v:
        _terminals(d, tv)
    if sorted(tb) != sorted(tv):
        import re

        classes = sorted({c for c, _ in set(tb) ^ set(tv)})
        import itertools

        numbers = [sorted({n for _, x in t for n in re.findall(r"'Mesh', (\d+)", x)}) for t in (tb, tv)]

        def renamed(t, pi):
            return sorted((c, re.sub(r"('Mesh', )(\d+)", lambda m: m.group(1) + pi[m.group(2)], x)) for c, x in t)

        if numbers[0] == numbers[1] and 2 <= len(numbers[0]) <= 5 and any(renamed(tb, dict(zip(numbers[0], p))) == sorted(tv) for p in itertools.permutations(numbers[0])):
            # the same terminals up to a permutation of the domain numbers: the same set of numbers,
            # given to the domains in a different order
            found.append(("domain-numbering-order", None))
        elif classes == ["MultiIndex"] and [_pkey(d, True) for _, d in b] == [_pkey(d, True) for _, d in v]:
            # the same tree up to the names of the indices, which are numbered in traversal order:
            # the summations over them are nested in a different order
            found.append(("summation-index-order", None))
        else:
            for cls in classes:
                found.append(("terminal-data", cls))
    mb, mv, nb, nv = {}, {}, {}, {}
    for _, d in b:
        _comm_nodes(d, mb, nb)
    for _, d in v:
        _comm_nodes(d, mv, nv)
    seen = set()
    for key, occ in nv.items():
        if key not in nb:
            continue
        ob = sorted(json.dumps(o[0]) for o in nb[key])
        ov = sorted(json.dumps(o[0]) for o in occ)
        if ob != ov:
            for ops, dec in occ:
                if json.dumps(ops) not in ob and dec is not None:
                    k = json.dumps([dec.get("by"), dec.get("cls")])
                    if k not in seen:
                        seen.add(k)
                        other = next((d for o, d in nb[key] if sorted(o) == sorted(ops) and o != ops and d), None)
                        found.append(("operand-order", dict(dec, other=other) if other else dec))
                    break
    return found


def fingerprint_of(finding, responsible, hashseed):
    kind, info = finding
    if hashseed:
        if kind == "operand-order":
            return "C12:hashseed:operand-order:" + "+".join(info["cls"])
        return "C12:hashseed:" + kind + (":" + info if isinstance(info, str) else "")
    resp = "+".join(sorted(responsible)) if responsible else "combination"
    if kind == "terminal-data":
        if info == "Zero":
            return "C12:raw-index-count-in-signature:Zero-free-index"
        return f"C12:raw-count-in-signature:{info}:{resp}"
    if kind == "operand-order":
        if info["by"] != "terminal":
            return f"C12:operand-order-by-{info['by']}:{'+'.join(info['cls'])}:{resp}"
        cls = info["cls"][0]
        other = info.get("other") or {}
        boundary = bool(info.get("crosses") or other.get("crosses"))
        import ufl.classes as C

        if issubclass(getattr(C, cls, object), C.GeometricQuantity):
            cls = "GeometricQuantity"
        tail = "digit-boundary" if boundary else "count-order"
        if cls == "Constant" and responsible == {"Constant"}:
            return f"C12:operand-order-by-repr:Constant:{tail}"
        if responsible == {"Mesh"}:
            return f"C12:operand-order-by-repr:{cls}:mesh-id-{tail}"
        if cls == "Zero" and responsible == {"Index"}:
            return f"C12:operand-order-by-repr:Zero:index-count-{tail}"
        return f"C12:operand-order-by-repr:{cls}:{resp}:{tail}"
    return f"C12:{kind}:{resp}"


def exact_chain(prog, eff, seed="0", source=None, diag=False):
    st = {"program": prog, "targets": {k: int(eff.get(k, 0)) for k in KINDS}, "exact": True}
    if diag:
        st["diag"] = True
    if source:
        st["source"] = source
    return {"seed": str(seed), "steps": [st]}


class Run:
    """One run of a program: effective shift, hash seed, result of the step, its chain."""

    __slots__ = ("eff", "seed", "res", "chain", "n", "dumps")

    def __init__(self, eff, seed, res, chain, n, dumps):
        self.eff, self.seed, self.res, self.chain, self.n, self.dumps = eff, str(seed), res, chain, n, dumps

    @property
    def ok(self):
        return bool(self.res.get("ok"))

    def sig(self, nm):
        return self.res["sigs"][nm]

    def dump(self, nm):
        return json.loads(self.dumps[self.res["dump"][nm]])


def guess_counter(finding):
    """The counter a finding points at (verified afterwards in fresh processes)."""
    kind, info = finding
    if kind in ("domain-numbering-order", "summation-index-order"):
        return "Mesh" if kind == "domain-numbering-order" else "Index"
    if kind == "terminal-data":
        return {"Zero": "Index", "MultiIndex": "Index", "Constant": "Constant", "Coefficient": "Coefficient", "Label": "Label"}.get(info, "Mesh")
    if kind == "operand-order" and info.get("by") == "terminal":
        cls = info["cls"][0]
        if info.get("field") == "index":
            return "Index"
        if info.get("field") == "count" and cls in ("Constant", "Coefficient", "Label"):
            return cls
        return "Mesh"
    return None


class Checker:
    def __init__(self, ctx, pool):
        self.ctx, self.pool = ctx, pool
        self.reported = {}
        self.mech = {}
        self.pending = {}  # preliminary mechanism -> [(case, base run, deviating run, output, finding)]
        self.direct = []  # findings that need no reproduction (fingerprint, what, replay)

    def run_chains(self, chains, deadline=None):
        """chains: [{"seed", "steps": [{"program", "source", "targets", ...}]}] -> {prog_key: Case}"""
        results = self.pool.run(chains, deadline)
        cases = {}
        for ch, res in zip(chains, results):
            if res.get("deadline"):
                self.ctx.count("chains_not_run_deadline")
                continue
            if not res.get("steps"):
                raise MachineryError(f"chain failed in the harness: {res.get('error')}\n{res.get('tb', '')}")
            for n, (st, r) in enumerate(zip(ch["steps"], res["steps"])):
                if r.get("skipped"):
                    self.ctx.count("exact_steps_not_reachable")
                    continue
                c = cases.setdefault(prog_key(st["program"]), Case(st["program"], st.get("source", "")))
                c.runs.append(Run(r.get("eff"), ch["seed"], r, ch, n, res.get("dumps")))
        return cases

    def judge(self, case, count=True):
        """All signatures of one program must be identical.  -> "invalid" | "ok" | "differs"; every
        deviation is classified from the structure dumps and queued under its mechanism."""
        ctx = self.ctx
        ok = [x for x in case.runs if x.ok]
        bad = [x for x in case.runs if not x.ok]
        if not ok:
            return "invalid"
        verdict = "ok"
        base = ok[0]
        if bad:
            fp = "C12:exception-depends-on-counters-or-seed"
            b = bad[0]
            self.direct.append((fp, f"{show_prog(case.prog)} builds after history {off_str(base.eff)} but raises {b.res.get('error')} after {off_str(b.eff)} (seed {b.seed})", self._chain_replay(case, [base, b], fp, None)))
            verdict = "differs"
        names = sorted(base.res["sigs"])
        seen = {}
        for run in sorted(ok, key=lambda r: sum(r.eff.values())):  # the smallest history of every deviating signature
            if count:
                ctx.evaluated(len(names))
                if any(run.eff.values()) or run.seed != "0":
                    ctx.distinct(prog_key(case.prog) + json.dumps(run.eff, sort_keys=True) + run.seed)
            if sorted(run.res["sigs"]) != names:
                fp = "C12:outputs-depend-on-counters-or-seed"
                self.direct.append((fp, f"{show_prog(case.prog)}: different set of outputs", self._chain_replay(case, [base, run], fp, None)))
                verdict = "differs"
                continue
            for nm in names:
                if run.sig(nm) != base.sig(nm) and (nm, run.sig(nm)) not in seen:
                    seen[(nm, run.sig(nm))] = run
        if seen:
            verdict = "differs"
            keys = set()
            for (nm, _), run in sorted(seen.items(), key=lambda kv: (kv[0][0], sum(1 for v in kv[1].eff.values() if v))):
                for f in classify(nm, base.dump, run.dump):
                    key = prelim_key(f, run.seed != base.seed and run.eff == base.eff)
                    if (key, nm.split("|")[0]) in keys:
                        continue  # the same mechanism on the same output (e.g. after renumber_indices)
                    keys.add((key, nm.split("|")[0]))
                    self.pending.setdefault(key, []).append((case, base, run, nm, f))
            for key in {k for k, _ in keys}:
                self.mech[key] = self.mech.get(key, 0) + 1
        return verdict

    def _chain_replay(self, case, runs, fp, output):
        chains = []
        for r in runs:
            lo = r.n if r.res.get("sim") else 0  # a step with explicit numbering does not depend on the earlier steps
            chains.append({"seed": r.chain["seed"], "steps": [{k: v for k, v in st.items() if k != "source"} for st in r.chain["steps"][lo : r.n + 1]], "observe": r.n - lo})
        return {"mode": "chains", "program": case.prog, "fingerprint": fp, "output": output, "chains": chains}

    def settle(self, per_mechanism):
        """For every preliminary mechanism reproduce the smallest failing programs in fresh processes
        whose history shifts a single counter (or, failing that, all of them / only the hash seed),
        and report them with the final fingerprint."""
        for fp, what, rep in self.direct:
            if self.reported.get(fp, 0) < 2:
                self.ctx.violation(fp, what, rep)
            self.reported[fp] = self.reported.get(fp, 0) + 1
            self.mech[fp] = self.mech.get(fp, 0) + 1
        self.direct = []
        todo = []
        for key in sorted(self.pending):
            # the pairs of runs that differ in the history alone (hash seed 0, as in the fresh processes
            # of the reproduction) first, then the smallest programs
            items = sorted(self.pending[key], key=lambda it: (it[1].seed != "0" or it[2].seed != "0", len(prog_key(it[0].prog)), it[3]))
            progs = set()
            for case, base, run, nm, f in items:
                if len(progs) >= per_mechanism or self.reported.get(key, 0) + len(progs) >= 2:
                    break
                if prog_key(case.prog) in progs:
                    continue
                progs.add(prog_key(case.prog))
                todo.append((key, case, base, run, nm, f))
        self.pending = {}
        # stage 1 for all of them at once: a fresh process without history, and one that only
        # shifts the suspected counter
        plans, chains = [], []
        for key, case, base, run, nm, f in todo:
            K = guess_counter(f)
            cands = [(r, {K: r.eff[K]}, "0") for r in (run, base) if K and r.eff.get(K)]
            mine = [exact_chain(case.prog, ZERO, diag=True)] + [exact_chain(case.prog, e, s, diag=True) for _, e, s in cands]
            plans.append((len(chains), len(mine), cands))
            chains += mine
        results = self._first(chains)
        for (key, case, base, run, nm, f), (lo, n, cands) in zip(todo, plans):
            got = self.reproduce(case, base, run, nm, f, guess_counter(f), cands, chains[lo : lo + n], results[lo : lo + n])
            if got is None:
                # seen with explicit numbering only: not established for histories of the counters
                self.ctx.count("explicit_numbering_deviation_not_reproduced_by_a_history")
                print(f"  note: {show_prog(case.prog)}: output {nm!r} differs between the explicit numberings {off_str(base.eff)} and {off_str(run.eff)} but not after the corresponding histories (not judged)", flush=True)
                continue
            fp, what, rep = got
            self.ctx.violation(fp, what, rep)
            self.reported[key] = self.reported.get(key, 0) + 1
            if fp != key:
                self.mech[fp] = self.mech.get(fp, 0) + 1

    def _first(self, chains):
        out = []
        for x in self.pool.run(chains):
            st = x["steps"][0] if x.get("steps") else x
            if st.get("ok"):
                st["dumps"] = x["dumps"]
            out.append(st)
        return out

    def reproduce(self, case, base, run, nm, f, K, cands, chains, res):
        prog = case.prog
        first = self._first

        def dump_of(st):
            return lambda name: json.loads(st["dumps"][st["dump"][name]])

        def need(res, what):
            if not all(x.get("ok") for x in res):
                raise MachineryError(f"reproduction of {show_prog(prog)} failed ({what}): {[x.get('error') for x in res]}")

        need(res, "stage 1")
        a0, ref_chain = res[0], chains[0]  # the reference: a fresh process without history
        hit = next(((c, ch, x) for c, ch, x in zip(cands, chains[1:], res[1:]) if x["sigs"][nm] != a0["sigs"][nm]), None)
        by, responsible = "history", {K}
        if hit is None:
            # stage 2: the complete shift of either run, or only its hash seed
            cands = [(r, r.eff, "0") for r in (run, base) if any(r.eff.values())] + [(r, ZERO, r.seed) for r in (run, base) if r.seed != "0"]
            chains2 = [exact_chain(prog, e, s, diag=True) for _, e, s in cands]
            res2 = first(chains2)
            need(res2, "stage 2")
            hit = next(((c, ch, x) for c, ch, x in zip(cands, chains2, res2) if x["sigs"][nm] != a0["sigs"][nm]), None)
            if hit is None:
                # stage 2b: the shift of a run under the hash seed of that run (orders of hashed
                # containers depend on the numbers and on the seed together); the reference is the
                # fresh process without history under the same seed
                for (r, e, sd), ch, x in zip(cands, chains2, res2):
                    if sd != "0" and any(r.eff.values()):
                        ch2 = exact_chain(prog, r.eff, sd, diag=True)
                        (x2,) = first([ch2])
                        need([x2], "stage 2b")
                        if x2["sigs"][nm] != x["sigs"][nm]:
                            hit, a0, ref_chain = ((r, r.eff, sd), ch2, x2), x, ch
                            break
            if hit is None and (run.res.get("sim") or base.res.get("sim")):
                return None
            if hit is None:
                fp = "C12:process-state:signature-depends-on-earlier-work-in-the-process"
                return fp, f"{show_prog(prog)}: output {nm!r} has signatures {base.sig(nm)[:12]} / {run.sig(nm)[:12]} in processes that ran other steps before, {a0['sigs'][nm][:12]} in every fresh process with the same counters and hash seed", self._chain_replay(case, [base, run], fp, nm)
            (r, e, sd), _, _ = hit
            if not any(e.values()):
                by, responsible = "seed", set()
            else:
                nz = [k for k in KINDS if e.get(k)]
                res3 = first([exact_chain(prog, {k: e[k]}, sd) for k in nz])
                need(res3, "stage 3")
                responsible = {k for k, x in zip(nz, res3) if x["sigs"][nm] != a0["sigs"][nm]}
        (r, e, sd), var_chain, var = hit
        # the mechanism as it shows between the two fresh processes of the replay
        f = next((g for g in classify(nm, dump_of(a0), dump_of(var)) if g[0] == f[0]), f)
        fp = fingerprint_of(f, responsible, hashseed=by == "seed")
        what = (
            f"{show_prog(prog)}: signature of output {nm!r} is {a0['sigs'][nm][:12]} in a fresh process and {var['sigs'][nm][:12]} "
            + (f"after the prior history {off_str(var['eff'])}" + (f" (both with PYTHONHASHSEED={sd})" if sd != "0" else "") if by == "history" else f"with PYTHONHASHSEED={sd}")
            + (f"; counters that reproduce it alone: {sorted(responsible) or 'none (only the combination)'}" if by == "history" else "")
            + f"; mechanism: {f[0]}"
            + (f" {json.dumps(f[1])}" if f[1] else "")
        )
        rep = {
            "mode": "chains",
            "program": prog,
            "fingerprint": fp,
            "output": nm,
            "chains": [dict(ref_chain, observe=0), dict(var_chain, observe=0)],
            "observed": [a0["sigs"][nm], var["sigs"][nm]],
        }
        return fp, what, rep


def prelim_key(finding, seed_only):
    """Mechanism name before the reproduction in fresh processes (counter = the one the finding points at)."""
    K = guess_counter(finding)
    return fingerprint_of(finding, {K} if K else set(), hashseed=seed_only)


def _pkey(d, erase_zero, erase_index=True):
    """Positional rendering of a dumped node (numbers of free indices erased)."""
    if d[0] == "T":
        if d[1] == "Zero" and len(d) > 3 and not erase_zero:
            return "Zero:" + d[2]
        if d[1] == "MultiIndex" and not erase_index:
            return "MultiIndex:" + d[2]
        return _erase_zero(d)
    return d[1] + "(" + ",".join(_pkey(o, erase_zero, erase_index) for o in d[2]) + ")"


def classify(nm, get_b, get_v):
    """Findings for output nm between two runs; an output after renumber_indices inherits the digit
    boundary information of the operand comparison from the output before renumbering (the
    renumbered Zero no longer shows the counts that were compared when the form was built)."""
    finds = compare_dumps(get_b(nm), get_v(nm))
    if "|" in nm:
        pre = [g for g in compare_dumps(get_b(nm.split("|")[0]), get_v(nm.split("|")[0])) if g[0] == "operand-order"]
        for f in finds:
            if f[0] == "operand-order" and f[1].get("by") == "terminal":
                for g in pre:
                    if g[1].get("cls") == f[1].get("cls") and (g[1].get("crosses") or (g[1].get("other") or {}).get("crosses")):
                        f[1]["crosses"] = True
        if not finds:
            finds = pre
    if not finds:
        # same structure up to the index counts inside Zero terminals (e.g. after renumber_indices,
        # whose numbers follow the traversal order): the signature hashes those counts
        b, v = get_b(nm), get_v(nm)
        if [_pkey(d, True) for _, d in b] == [_pkey(d, True) for _, d in v] and [_pkey(d, False) for _, d in b] != [_pkey(d, False) for _, d in v]:
            finds = [("terminal-data", "Zero")]
        elif [_pkey(d, True) for _, d in b] == [_pkey(d, True) for _, d in v] and [_pkey(d, True, False) for _, d in b] != [_pkey(d, True, False) for _, d in v]:
            # the same tree and the same multiset of multi-indices, numbered differently in place
            finds = [("summation-index-order", None)]
    return finds or [("unclassified", None)]


# ---- histories -----------------------------------------------------------------------------------------

REAL_OFFSETS = [0, 1, 7, 8, 9, 10, 95, 98, 99, 100, 998, 1000]


def chain_standard(prog, source):
    """every counter shifted by the same value, over the whole list"""
    return [{"program": prog, "source": source, "targets": {k: v for k in KINDS}} for v in REAL_OFFSETS]


BOUNDARIES = [10, 100, 1000, 10000]
POSITIONS = [1, 2, -1, 3, -2, 4, 5, 6]


def _position(p, n):
    """Position 1..n-1 of the digit boundary inside a run of n objects (p < 0 counts from the end)."""
    if n <= 1:
        return 1
    return (p - 1) % (n - 1) + 1 if p > 0 else n - 1 - ((-p - 1) % (n - 1))


def measure(prog):
    """How many objects of every counted class one run of the program creates (run once in the
    checking process, whose own counters do not matter).  None: ufl rejects the program."""
    before = read_counters()
    try:
        build_outputs(prog, Env(), before)
    except MachineryError:
        raise
    except Exception:  # noqa: BLE001
        return None
    after = read_counters()
    return {k: after[k] - before[k] for k in KINDS}


def chain_positions(prog, source, created, base, j=0, only=None):
    """every digit boundary B placed inside the objects the program creates: a counter whose class
    gets n objects per run is raised to B - p (position p in 1..n-1 rotated with j), so that p
    objects get numbers below B and the others from B on; `only` = rotate the single counter that
    is placed (for programs sharing a process); the first step is the boundary 10 (reachable only
    in a fresh process); a second run back to back and a run at an all-equal shift in between"""

    def st(**kw):
        return dict({"program": prog, "source": source}, **kw)

    steps = []
    between = [95, 998, 9990]
    for b, B in enumerate(BOUNDARIES):
        kinds = [KINDS[(only + b) % len(KINDS)]] if only is not None else KINDS
        t = {}
        for k in kinds:
            if created[k] >= 1:
                v = B - _position(POSITIONS[(j + b) % len(POSITIONS)], created[k]) - base[k]
                if v >= 0:
                    t[k] = v
        steps.append(st(targets=t))
        steps.append(st())  # once more, back to back
        if b < len(between):
            steps.append(st(targets={k: between[b] for k in KINDS}))
    return steps


def chain_placed_group(progs, source, made, base, j=0, rot=0):
    """Up to four programs share an interpreter; each is placed exactly once: program i at the digit
    boundary number (i + rot) mod 4, with the boundary after position POSITIONS[j] of the objects of
    every class; it runs a second time back to back, then the other programs run unplaced."""
    steps = []
    for b, B in enumerate(BOUNDARIES):
        i = (b - rot) % len(BOUNDARIES)
        order = ([progs[i]] if i < len(progs) else []) + [p for n, p in enumerate(progs) if n != i]
        for n, p in enumerate(order):
            t = {}
            if n == 0 and i < len(progs):
                created = made[prog_key(p)]
                for k in KINDS:
                    if created[k] >= 1:
                        v = B - _position(POSITIONS[j % len(POSITIONS)], created[k]) - base[k]
                        if v >= 0:
                            t[k] = v
            steps.append({"program": p, "source": source, "targets": t})
            if n == 0 and i < len(progs):
                steps.append({"program": p, "source": source, "targets": {}})
    return steps


def chain_single(prog, source, kind):
    """one counter over the whole list, the others only move by what the program itself creates"""
    return [{"program": prog, "source": source, "targets": {kind: v}} for v in REAL_OFFSETS]


def chain_phased(prog, source, rng, base):
    """approach every digit boundary with an independent random phase per counter (some counters are
    left alone), then run the program several times back to back across it"""
    steps = []
    for B in (10, 100, 1000):
        t = {}
        for k in KINDS:
            if rng.random() < 0.75:
                t[k] = max(0, B - rng.randint(1, 7) - base[k])
        steps.append({"program": prog, "source": source, "targets": t})
        for _ in range(rng.randint(2, 4)):
            steps.append({"program": prog, "source": source, "targets": {k: t[k] + rng.randint(0, 2) for k in t if rng.random() < 0.3} if rng.random() < 0.5 else {}})
    return steps


def chain_random(prog, source, rng):
    """each counter independently from the list, increasing along the chain where possible"""
    steps = []
    for _ in range(8):
        steps.append({"program": prog, "source": source, "targets": {k: rng.choice(REAL_OFFSETS) for k in KINDS if rng.random() < 0.8}})
    steps.sort(key=lambda s: max(list(s["targets"].values()) + [0]))
    return steps


# ---- seeded random scripts over the richer instruction set -------------------------------------------


def gen_script(rng):
    """A random script; typing is approximate (a script ufl rejects at the base counters is dropped)."""
    S = []  # entries: (type, ...) ; positions are 1-based
    prog = []

    def emit(ins, ty):
        prog.append(ins)
        S.append(ty)
        return len(S)

    r = rng.random()
    nmesh = 3 if r < 0.15 else 2 if r < 0.4 else 1
    meshes = [emit({"op": "mesh"}, ("mesh",)) for _ in range(nmesh)]
    pm = lambda: meshes[0] if rng.random() < 0.7 else rng.choice(meshes)  # noqa: E731
    for _ in range(rng.randint(0, 4)):
        emit({"op": "const", "a": pm()}, ("e", 0, frozenset()))
    for _ in range(rng.randint(0, 1)):
        emit({"op": "vconst", "a": pm()}, ("e", 1, frozenset()))
    for _ in range(rng.randint(1, 3)):
        emit({"op": "coef", "a": pm()}, ("e", 0, frozenset()))
    for _ in range(rng.randint(0, 2)):
        emit({"op": "vcoef", "a": pm()}, ("e", 1, frozenset()))
    if nmesh == 2 and rng.random() < 0.5:  # a coefficient on the mixed space over the MeshSequence of both meshes
        a, b = meshes if rng.random() < 0.5 else meshes[::-1]
        emit({"op": "scoef", "a": a, "b": b}, ("e", 1, frozenset()))
    if rng.random() < 0.4:
        emit({"op": "tcoef", "a": pm()}, ("e", 2, frozenset()))
    if rng.random() < 0.3:
        emit({"op": "arg", "a": meshes[0], "k": 0}, ("e", 0, frozenset()))
    for _ in range(rng.randint(0, 2)):
        kind = rng.choice(GEO_KINDS)
        emit({"op": "geo", "a": pm(), "k": kind}, ("e", 1 if kind == "SpatialCoordinate" else 0, frozenset()))
    if rng.random() < 0.3:
        emit({"op": "lit", "k": rng.choice([2, 3, 0.5, -1])}, ("e", 0, frozenset()))
    idxs = [emit({"op": "index"}, ("i",)) for _ in range(rng.randint(0, 3))]

    def pick(pred):
        c = [p for p, t in enumerate(S, 1) if t[0] == "e" and pred(t)]
        # prefer recent entries so that expressions grow
        if not c:
            return None
        return c[-1 - min(int(rng.expovariate(0.5)), len(c) - 1)] if rng.random() < 0.5 else rng.choice(c)

    for _ in range(rng.randint(3, 12)):
        op = rng.choice(["sum", "prod", "prod", "prod", "sub", "div", "neg", "sq", "fn", "idx", "idx2", "comp", "zeromul", "cond", "var", "inner", "grad", "astensor", "sum", "dx"])
        if op in ("sum", "sub"):
            a = pick(lambda t: True)
            if a is None:
                continue
            b = pick(lambda t: t[1:] == S[a - 1][1:])
            if b is None or b == a:
                continue
            emit({"op": op, "a": a, "b": b}, S[a - 1])
        elif op == "prod":
            a, b = pick(lambda t: t[1] == 0), pick(lambda t: t[1] == 0)
            if a is None or b is None or a == b:
                continue
            emit({"op": "prod", "a": a, "b": b}, ("e", 0, S[a - 1][2] ^ S[b - 1][2]))
        elif op == "div":
            a, b = pick(lambda t: t[1] == 0), pick(lambda t: t[1] == 0 and not t[2])
            if a is None or b is None:
                continue
            emit({"op": "div", "a": a, "b": b}, S[a - 1])
        elif op in ("neg", "sq"):
            a = pick(lambda t: t[1] == 0 or op == "neg")
            if a is None:
                continue
            emit({"op": op, "a": a}, S[a - 1])
        elif op == "fn":
            a = pick(lambda t: t[1] == 0 and not t[2])
            if a is None:
                continue
            emit({"op": "fn", "a": a, "k": rng.choice(["sin", "cos", "exp", "abs"])}, S[a - 1])
        elif op == "idx" and idxs:
            a = pick(lambda t: t[1] == 1 and not t[2])
            if a is None:
                continue
            i = rng.choice(idxs)
            emit({"op": "idx", "a": a, "b": i}, ("e", 0, frozenset([i])))
        elif op == "idx2" and len(idxs) >= 2:
            a = pick(lambda t: t[1] == 2 and not t[2])
            if a is None:
                continue
            i, j = rng.sample(idxs, 2)
            emit({"op": "idx2", "a": a, "b": i, "c": j}, ("e", 0, frozenset([i, j])))
        elif op == "dx" and idxs:  # a.dx(i) / a.dx(i, j); the indices that are free in a are summed
            a = pick(lambda t: t[1] == 0)
            if a is None:
                continue
            ii = rng.sample(idxs, 2 if len(idxs) >= 2 and rng.random() < 0.6 else 1)
            fa = S[a - 1][2]
            emit({"op": "dx", "a": a, "b": ii[0], "c": ii[1] if len(ii) == 2 else 0}, ("e", 0, (fa | frozenset(ii)) - (fa & frozenset(ii))))
        elif op == "comp":
            a = pick(lambda t: t[1] == 1 and not t[2])
            if a is None:
                continue
            emit({"op": "comp", "a": a, "k": rng.randint(0, 1)}, ("e", 0, frozenset()))
        elif op == "zeromul":
            a = pick(lambda t: t[1] == 0 and t[2])
            if a is None:
                continue
            emit({"op": "zeromul", "a": a}, S[a - 1])
        elif op == "cond":
            a = pick(lambda t: t[1] == 0 and not t[2])
            b = pick(lambda t: t[1] == 0)
            if a is None or b is None:
                continue
            c = pick(lambda t: t[1:] == S[b - 1][1:])
            if c is None or c == b:
                continue
            emit({"op": "cond", "a": a, "b": b, "c": c}, S[b - 1])
        elif op == "var":
            a = pick(lambda t: not t[2])
            if a is None:
                continue
            emit({"op": "var", "a": a}, S[a - 1])
        elif op == "inner":
            a = pick(lambda t: t[1] in (1, 2) and not t[2])
            if a is None:
                continue
            b = pick(lambda t: t[1:] == S[a - 1][1:])
            if b is None:
                continue
            emit({"op": "inner", "a": a, "b": b}, ("e", 0, frozenset()))
        elif op == "grad":
            a = pick(lambda t: t[1] in (0, 1) and not t[2])
            if a is None:
                continue
            emit({"op": "grad", "a": a}, ("e", S[a - 1][1] + 1, frozenset()))
        elif op == "astensor":
            a = pick(lambda t: t[1] == 0 and len(t[2]) == 1)
            if a is None:
                continue
            (i,) = S[a - 1][2]
            emit({"op": "astensor", "a": a, "b": i}, ("e", 1, frozenset()))
    closed = [p for p, t in enumerate(S, 1) if t[0] == "e" and t[1] == 0 and not t[2] and prog[p - 1]["op"] not in ("const", "coef", "lit", "geo", "arg")]
    if not closed:
        return None
    nint = min(len(closed), rng.choice([1, 1, 2, 3]))
    chosen = closed[-nint:]
    forms = []
    for p in chosen:
        k = {"t": rng.choice(["dx", "dx", "dx", "ds"])}
        if rng.random() < 0.4:
            k["id"] = rng.choice([1, 2, [1, 3]])
        if rng.random() < 0.3:
            k["md"] = {"quadrature_degree": rng.choice([1, 2, 4])}
        forms.append(emit({"op": "integ", "a": p, "b": rng.choice(meshes), "k": k}, ("f",)))
    f = forms[0]
    for g in forms[1:]:
        f = emit({"op": "fadd", "a": f, "b": g}, ("f",))
    return prog


# ---- the parts of the run -----------------------------------------------------------------------------


def probe_transcription():
    """Which transcription of the comparator / of the Zero hashdata does the code under test
    implement?  (probed on real objects with explicit counts)"""
    import ufl
    from ufl.algorithms.signature import compute_terminal_hashdata
    from ufl.classes import CellVolume, Constant, Zero
    from ufl.sorting import cmp_expr

    E = Env()
    m = ufl.Mesh(E.L(E.cell, 1, (2,)), ufl_id=10**6 + 9)
    m2 = ufl.Mesh(E.L(E.cell, 1, (2,)), ufl_id=10**7)
    mode = {
        "const": "numeric" if cmp_expr(Constant(m, (), count=9), Constant(m, (), count=10)) < 0 else "repr",
        "geo": "numeric" if cmp_expr(CellVolume(m), CellVolume(m2)) < 0 else "repr",
        "zero": "numeric" if cmp_expr(Zero((), (9,), (2,)), Zero((), (10,), (2,))) < 0 else "repr",
    }
    z = Zero((), (12345,), (2,))
    zs = "raw" if "12345" in str(compute_terminal_hashdata([z], {})[z]) else "renumbered"
    return mode, zs


def plan_models(ctx):
    quick = ctx.tier == "quick"
    cmp_of, zerosig = probe_transcription()
    ctx.cov["code_under_test_transcription"] = {"comparator": cmp_of, "zero_hashdata": zerosig}
    comparator = cmp_of["const"] if len(set(cmp_of.values())) == 1 else "mixed"
    w = 2 if quick else 4
    if quick:
        intended = [
            Job("intended/const-family", FAM_CONST, "numeric", "renumbered", 1, 5, workers=w),
            Job("intended/index-family", FAM_INDEX, "numeric", "renumbered", 1, 8, workers=w),
        ]
        emit = [
            Job("emit/const-family", FAM_CONST, comparator, zerosig, 1, 4, emit=True, cmp_of=cmp_of, workers=w),
            Job("emit/index-family", FAM_INDEX, comparator, zerosig, 1, 8, emit=True, cmp_of=cmp_of, workers=w),
        ]
    else:
        intended = [
            Job("intended/const-family", FAM_CONST, "numeric", "renumbered", 2, 6, workers=w),
            Job("intended/index-family", FAM_INDEX, "numeric", "renumbered", 2, 9, workers=w),
            Job("intended/small-family", FAM_SMALL, "numeric", "renumbered", 2, 5, workers=w),
        ]
        emit = [
            Job("emit/const-family", FAM_CONST, comparator, zerosig, 1, 5, emit=True, cmp_of=cmp_of, workers=w),
            Job("emit/index-family", FAM_INDEX, comparator, zerosig, 1, 8, emit=True, cmp_of=cmp_of, workers=w),
            Job("emit/small-family", FAM_SMALL, comparator, zerosig, 1, 5, emit=True, cmp_of=cmp_of, workers=w),
        ]
    coded = [
        Job("as-coded/comparator-by-repr/const-family", FAM_CONST, "repr", "renumbered", 1, 4, workers=w),
        Job("as-coded/zero-hashdata-raw/index-family", FAM_INDEX, "numeric", "raw", 1, 8, workers=w),
    ]
    return intended, emit, coded, (comparator, cmp_of, zerosig)


def _free_indices(script):
    """Static typing of a model script: per store position the set of free indices (positions of
    the `index` instructions) and, per subscript instruction, the number of indices it sums."""
    fi, summed = [], []
    for i in script:
        op, a = i["op"], i.get("a", 0)
        A = fi[a - 1] if a else frozenset()
        if op in ("idx", "idx2"):
            ii = [i["b"]] + ([i["c"]] if op == "idx2" else [])
            rep = [x for n, x in enumerate(ii) if x in A or x in ii[:n]]
            summed.append(len(rep))
            fi.append((A | frozenset(ii)) - frozenset(rep))
        elif op == "prod":
            fi.append(A ^ fi[i["b"] - 1])
        elif op in ("grad", "sum", "zeromul"):
            fi.append(A)
        elif op == "cond":
            fi.append(fi[i["b"] - 1])
        else:
            fi.append(frozenset())
    return fi, summed


def _vac_cross(by_script, fam):
    ops = {i["op"] for v in by_script.values() for i in v["script"]}
    multi = sum(1 for v in by_script.values() for o in v["offs"] if sum(1 for x in o if x) >= 2)
    if not multi or "scoef" not in ops or not any(len({i["a"] for i in v["script"] if i["op"] == "const"}) > 1 for v in by_script.values()):
        return f"behaviours with several shifted counters: {multi}, instructions {sorted(ops)}"


def _vac_domains(by_script, fam):
    """needs forms whose integrand has terminals on TWO meshes that are not the integration domain,
    integrated over the first and over another mesh (integ) and, from 8 instructions on, without integ"""
    seen = set()
    for v in by_script.values():
        sc = v["script"]
        if sum(1 for i in sc if i["op"] == "mesh") < 3:
            return "a finished script with fewer than three meshes"
        dom = sc[-1]["b"] if sc[-1]["op"] == "integ" else 1
        others = {m for i in sc if i["op"] in ("const", "coef", "vcoef", "scoef", "geo") for m in ([i["a"], i["b"]] if i["op"] == "scoef" else [i["a"]])} - {dom}
        if len(others) >= 2:
            seen.add("first" if dom == 1 and sc[-1]["op"] == "integ" else "implicit" if dom == 1 else "other")
            seen |= {i["op"] for i in sc if i["op"] in ("const", "coef", "geo") and i["a"] != dom}
    want = {"first", "other", "const", "coef", "geo"} | ({"implicit"} if fam.steps >= 8 else set())
    if not want <= seen:
        return f"no form with two domains besides the integration domain for {sorted(want - seen)}"


def _vac_contract(by_script, fam):
    """needs a subscript that sums two indices at once, one that sums an index occurring twice, one
    that sums a free index of the subscripted expression, and a product summing two indices"""
    seen = set()
    for v in by_script.values():
        fi, summed = _free_indices(v["script"])
        seen |= {f"subscript-sums-{n}" for n in summed}
        for i in v["script"]:
            if i["op"] == "prod" and len(fi[i["a"] - 1] & fi[i["b"] - 1]) >= 2:
                seen.add("product-sums-2")
            if i["op"] == "idx2" and i["b"] == i["c"]:
                seen.add("index-twice")
    want = {"subscript-sums-0", "subscript-sums-1", "subscript-sums-2", "product-sums-2", "index-twice"}
    if not want <= seen:
        return f"missing {sorted(want - seen)}"


# the order in which a hashed container (set / dict keyed by Index, Mesh, ...) yields objects depends
# on their numbers in an irregular way: the families whose structure could pass through such a
# container get a number of plain shifts next to the placements (a wrong order shows with
# probability 1/2 per shift and container)
HASH_OFFSETS = [1, 2, 3, 5, 8, 13, 21]


class Placed:
    """A family of scripts that TLC enumerates together with PLACEMENT histories (a digit boundary
    inside the objects of every counted class in `kinds`); every behaviour is replayed on the real
    code (cross_chains / cross_judge)."""

    def __init__(self, name, caps, steps, kinds, vacuous, *, need=None, offsets=(), min_placed=1, budget=2000, n_sim=1, n_real=4):
        self.name, self.caps, self.steps, self.kinds, self.vacuous, self.need = name, caps, steps, kinds, vacuous, need
        self.offsets = list(offsets)  # plain shifts next to the placements
        self.min_placed, self.budget, self.n_sim, self.n_real = min_placed, budget, n_sim, n_real
        self.emit = self.intended = self.state = None

    @property
    def cov_key(self):
        return self.name + "_family"


def plan_placed(ctx, transcription, w, only=None):
    """The families with placement histories.  cross: terminals that embed several counters, all
    those counters placed at once; domains: forms over three meshes, the Mesh counter placed;
    contraction: implicit summation inside subscripts, the Index counter placed.  One TLC run per
    family emits the behaviours of the transcription that matches the code under test; when that
    transcription IS the intended machine the same run proves SigInvariant over the family,
    otherwise the intended machine gets its own run."""
    comparator, cmp_of, zerosig = transcription
    if ctx.tier == "quick":
        fams = [
            Placed("cross", FAM_CROSS, 6, ["Mesh", "Constant"], _vac_cross, min_placed=2, budget=2000, n_sim=1, n_real=4),
            Placed("domains", FAM_DOMAINS, 7, ["Mesh"], _vac_domains, need={"mesh": 3}, offsets=HASH_OFFSETS, budget=1000, n_sim=2, n_real=3),
            Placed("contraction", FAM_CONTRACT, 8, ["Index"], _vac_contract, offsets=HASH_OFFSETS, budget=1000, n_sim=2, n_real=3),
        ]
    else:
        fams = [
            Placed("cross", FAM_CROSS_T, 7, ["Mesh", "Constant", "Coefficient"], _vac_cross, min_placed=2, budget=20000, n_sim=6, n_real=60),
            Placed("domains", FAM_DOMAINS_T, 8, ["Mesh"], _vac_domains, need={"mesh": 3}, offsets=HASH_OFFSETS, budget=6000, n_sim=3, n_real=12),
            Placed("contraction", FAM_CONTRACT_T, 9, ["Index"], _vac_contract, offsets=HASH_OFFSETS, budget=6000, n_sim=3, n_real=12),
        ]
    combined = comparator == "numeric" and zerosig == "renumbered"
    inv = ["EmitInv", "TypeOK", "RunAgrees"] + (["SigInvariant"] if combined else [])
    for f in fams:
        kw = dict(workers=w, offsets=f.offsets, boundaries=CROSS_BOUNDARIES[ctx.tier], bump_kinds=f.kinds, need=f.need)
        f.emit = Job(f"emit/{f.name}-family", f.caps, comparator, zerosig, len(f.kinds), f.steps, emit=True, cmp_of=cmp_of, invariants=inv, **kw)
        f.intended = None if combined else Job(f"intended/{f.name}-family", f.caps, "numeric", "renumbered", len(f.kinds), f.steps, **kw)
    return [f for f in fams if only is None or f.name in only]


def cross_part(ctx, chk, fam, transcription, base, rng, corrupt=False):
    """plan + runs + comparison in one go (selftest)"""
    state = cross_chains(ctx, fam, rng)
    return cross_judge(ctx, chk, fam, state, chk.run_chains(state["chains"]), transcription, corrupt)


def cross_chains(ctx, fam, rng):
    """Every behaviour TLC enumerated for a placed family (script, placement of a digit boundary
    inside the objects of every counted class) is replayed on the real code: all of them with
    explicit numbering (one interpreter runs hundreds), a seeded sample with real histories (a fresh
    interpreter can meet at most one placement per digit boundary: counters only grow).  All runs of
    one script must have one signature (judge), and the partition of the runs by real signature
    must be the partition by the model signature TLC printed for exactly that placement."""
    job = fam.emit
    res = job.res
    ctx.add_tlc(res)
    if res.outcome != "ok":
        tlc.require_ok(res, job.label)  # with SigInvariant among the invariants: the intended machine is wrong
    if res.distinct < 500 or res.depth < job.maxsteps + 4:
        raise MachineryError(f"{job.label}: suspiciously small state graph ({res.distinct} states, depth {res.depth})")
    by_script = {}
    for d in tlc.decode_prints(res):
        script = clean_script(d["prog"])
        k = json.dumps(script, sort_keys=True)
        by_script.setdefault(k, {"script": script, "offs": {}})["offs"][tuple(int(x) for x in d["off"])] = json.dumps(d["sig"], sort_keys=True)
    n_beh = sum(len(v["offs"]) for v in by_script.values())
    multi = sum(1 for v in by_script.values() for o in v["offs"] if sum(1 for x in o if x) >= 2)
    why = fam.vacuous(by_script, fam)
    if why:
        raise MachineryError(f"{job.label}: vacuous ({why})")
    ctx.cov[fam.cov_key] = {"scripts": len(by_script), "behaviours": n_beh, "behaviours_with_several_counters_placed": multi, "boundaries": list(job.boundaries), "counters_placed": job.bump_kinds}
    # the scripts that are replayed (thorough: a seeded selection within a budget of runs)
    keys = sorted(by_script)
    rng.shuffle(keys)
    budget = fam.budget
    chosen, n = [], 0
    for k in keys:
        if n + len(by_script[k]["offs"]) > budget and chosen:
            continue
        chosen.append(k)
        n += len(by_script[k]["offs"])
    # ("family": the runs of these programs are kept apart from runs of the same script in other parts)
    progs = {k: {"kind": "script", "script": by_script[k]["script"], "family": fam.name} for k in chosen}
    made = {}
    for k in chosen:
        made[k] = measure(progs[k])
        if made[k] is None:
            raise MachineryError(f"emitted script {show_prog(progs[k])} does not build in the real ufl")
    seeds = hash_seeds(ctx)
    # (1) explicit numbering: every behaviour of the chosen scripts
    n_sim = fam.n_sim
    sim = [[] for _ in range(n_sim)]
    for n, k in enumerate(sorted(chosen, key=lambda k: -len(by_script[k]["offs"]))):
        for off in sorted(by_script[k]["offs"]):
            sim[n % n_sim].append({"program": progs[k], "source": "tlc-placed", "targets": dict(zip(KINDS5, off)), "sim": True})
    chains = [{"seed": seeds[n % len(seeds)], "steps": st, "must": True} for n, st in enumerate(sim) if st]
    # (2) real histories: behaviours that place (several) counters, packed greedily into interpreters
    n_real = fam.n_real
    cands = [(k, off) for k in chosen for off in sorted(by_script[k]["offs"]) if sum(1 for x in off if x) >= fam.min_placed]
    rng.shuffle(cands)
    cands.sort(key=lambda c: max(c[1]))  # stable: lower digit boundaries first, so that an interpreter meets one per boundary
    real = [{"floor": {K: 0 for K in KINDS5}, "steps": []} for _ in range(n_real)]
    for k, off in cands:
        o = dict(zip(KINDS5, off))
        used = [K for K in KINDS5 if made[k][K]]
        for ch in real:
            if len(ch["steps"]) < len(job.boundaries) + 1 and all(o[K] >= ch["floor"][K] for K in used):
                ch["steps"].append({"program": progs[k], "source": "tlc-placed", "targets": {K: o[K] for K in used}, "exact": "targets"})
                for K in used:
                    ch["floor"][K] = o[K] + made[k][K]
                break
    chains += [{"seed": seeds[(n + 1) % len(seeds)], "steps": ch["steps"], "must": True} for n, ch in enumerate(real) if ch["steps"]]
    return {"chains": chains, "by_script": by_script, "made": made}


def cross_judge(ctx, chk, fam, state, cases, transcription, corrupt=False):
    by_script, made = state["by_script"], state["made"]
    n_runs = sum(len(c.runs) for c in cases.values())
    n_hist = sum(1 for c in cases.values() for r in c.runs if not r.res.get("sim"))
    print(f"  {fam.name} family: {len(cases)} of {len(by_script)} TLC-enumerated scripts, {n_runs} placements replayed ({n_hist} with real histories)", flush=True)
    if not n_hist:
        raise MachineryError(f"{fam.name} family: no placement was replayed with a real history")
    unexplained = differs = 0
    for key, case in sorted(cases.items()):
        k = json.dumps(case.prog["script"], sort_keys=True)
        st = chk.judge(case)
        if st == "invalid":
            raise MachineryError(f"emitted script {show_prog(case.prog)} does not build in the real ufl: {case.runs[0].res.get('error')}")
        differs += st == "differs"
        rows = []
        for r in case.runs:
            if not r.ok:
                continue
            o = tuple(r.eff[K] if made[k][K] else 0 for K in KINDS5)
            m = by_script[k]["offs"].get(o)
            if m is None:
                raise MachineryError(f"{fam.name} family: {show_prog(case.prog)} ran after the history {off_str(r.eff)}, which TLC did not enumerate")
            rows.append((r, m + (str(len(rows)) if corrupt else "")))
        ctx.traces(len(rows))
        ctx.evaluated(len(rows))
        model_of = {}
        for r, m in rows:
            model_of.setdefault(r.sig("form"), {})[m] = r
        for sg, ms in model_of.items():
            if len(ms) > 1:
                (ra, rb) = list(ms.values())[:2]
                raise MachineryError(
                    f"{fam.name} family: SigCounters.tla (transcription {transcription}) gives different signatures for {show_prog(case.prog)} "
                    f"after histories {off_str(ra.eff)} and {off_str(rb.eff)}, the real signatures are equal: the transcription does not match the code under test"
                )
        real_of = {}
        for r, m in rows:
            real_of.setdefault(m, set()).add(r.sig("form"))
        unexplained += sum(len(v) - 1 for v in real_of.values())  # judged above: all runs must agree
    ctx.count(f"{fam.cov_key}_real_dependence_not_explained_by_model", unexplained)
    ctx.cov[fam.cov_key].update(scripts_replayed=len(cases), placements_replayed=n_runs, placements_replayed_with_real_history=n_hist, scripts_with_discrepancy=differs)
    c = next((c for c in cases.values() if any(i["op"] in ("scoef", "integ", "grad") for i in c.prog["script"])), None)
    if c is not None:
        ctx.sample({"kind": "tlc-placed script", "script": show_prog(c.prog), "placements": [off_str(r.eff) for r in c.runs[:6]], "explicit_numbering": sum(1 for r in c.runs if r.res.get("sim")), "real_histories": sum(1 for r in c.runs if not r.res.get("sim"))})
    return unexplained


def check_intended(ctx, job):
    res = job.res
    ctx.add_tlc(res)
    if res.outcome != "ok":
        # the intended machine itself violates the property: the specification is wrong
        tlc.require_ok(res, job.label)
    if res.distinct < 500 or res.depth < job.maxsteps + 4:
        raise MachineryError(f"{job.label}: suspiciously small state graph ({res.distinct} states, depth {res.depth})")


def replay_coded(ctx, chk, jobs):
    """The counterexamples of the machines as coded are replayed on the real code."""
    infos, chains = [], []
    for job in jobs:
        res = job.res
        ctx.add_tlc(res)
        if res.outcome != "invariant" or res.violated != "SigInvariant" or not res.trace:
            raise MachineryError(f"{job.label}: the machine as coded must violate SigInvariant, TLC says {res.outcome} {res.violated}\n" + res.stdout[-1500:])
        script, off = trace_case(res)
        prog = {"kind": "script", "script": clean_script(script)}
        infos.append({"model": job.label, "tlc": res.outcome, "violated": res.violated, "counterexample": show_prog(prog), "history": off_str(off), "_prog": prog})
        chains += [exact_chain(prog, ZERO, source="tlc-counterexample"), exact_chain(prog, off, source="tlc-counterexample")]
    cases = chk.run_chains(chains)
    for info in infos:
        case = cases[prog_key(info.pop("_prog"))]
        ctx.traces(1)
        if len(case.runs) != 2 or not all(r.ok for r in case.runs):
            raise MachineryError(f"{info['model']}: counterexample {info['counterexample']} could not be replayed: {[r.res.get('error') for r in case.runs]}")
        info["real_signatures"] = [r.sig("form")[:12] for r in case.runs]
        info["reproduced_in_real_code"] = chk.judge(case) == "differs"
        if info["reproduced_in_real_code"]:
            ctx.count("coded_model_counterexamples_reproduced")
            print(f"  as-coded model counterexample reproduced in the real code: {info['counterexample']} after history {info['history']}", flush=True)
        else:
            ctx.count("coded_model_counterexamples_not_reproduced")
            print(f"  as-coded model counterexample NOT reproduced (informational): {info['counterexample']} after history {info['history']}", flush=True)
    return infos


def emitted_scripts(ctx, emit_jobs):
    """script key -> {"script", "offs": {offset tuple: model signature}} from the emission runs"""
    by_script = {}
    n_beh = 0
    for j in emit_jobs:
        ctx.add_tlc(j.res)
        if j.res.outcome != "ok":
            tlc.require_ok(j.res, j.label)
        docs = tlc.decode_prints(j.res)
        if not docs:
            raise MachineryError(f"{j.label}: TLC emitted no behaviour")
        for d in docs:
            n_beh += 1
            script = clean_script(d["prog"])
            k = json.dumps(script, sort_keys=True)
            by_script.setdefault(k, {"script": script, "offs": {}})["offs"][tuple(d["off"])] = json.dumps(d["sig"], sort_keys=True)
    ctx.cov["model_behaviours_emitted"] = n_beh
    ctx.cov["model_scripts_emitted"] = len(by_script)
    return by_script


def model_signatures(ctx, base, transcription, observed):
    """TLC evaluates the model signature of every observed (script, counter shift): the recorded
    runs of the real code are validated against the specification."""
    comparator, cmp_of, zerosig = transcription
    scripts, sidx, cases = [], {}, []
    for script, eff in observed:
        k = json.dumps(script, sort_keys=True)
        if k not in sidx:
            sidx[k] = len(scripts) + 1
            scripts.append([model_ins(i) for i in script])
        cases.append([sidx[k]] + [int(eff[k2]) for k2 in KINDS5])
    mc = mc_text(base, FAM_SMALL, cmp_of).replace(
        "====\n",
        "Scripts == " + tlc.tla(scripts) + "\n"
        "Cases == " + tlc.tla(cases) + "\n"
        "CtrAt(c) == [Index |-> Base.Index + c[2], Coefficient |-> Base.Coefficient + c[3], Constant |-> Base.Constant + c[4], "
        "Label |-> Base.Label + c[5], Mesh |-> Base.Mesh + c[6]]\n"
        "SigAt(c) == SigFrom(Scripts[c[1]], CtrAt(c))\n"
        "ASSUME PrintT(ToJson([sigs |-> [n \\in 1..Len(Cases) |-> SigAt(Cases[n])]]))\n"
        "VInit == Init\nVNext == UNCHANGED vars\n====\n",
    )
    cfg = cfg_text(comparator, zerosig, 0, 0, False, []).replace("SPECIFICATION Spec\n", "INIT VInit\nNEXT VNext\n")
    res = tlc.run("SigCounters", cfg, mc_text=mc, mc_name="MC_SigCounters", workers=1, timeout=900, env=TLC_ENV, heap=None)
    ctx.add_tlc(res)
    tlc.require_ok(res, "model signatures of the observed runs")
    docs = tlc.decode_prints(res)
    if not docs or len(docs[0]["sigs"]) != len(cases):
        raise MachineryError("model signatures: TLC returned no table")
    return [json.dumps(x, sort_keys=True) for x in docs[0]["sigs"]]


def conformance(ctx, chk, emit_jobs, transcription, base, rng, budget, deadline=None, corrupt=False):
    """runs + model signatures + comparison in one go (selftest)"""
    state = conformance_runs(ctx, chk, emit_jobs, transcription, base, rng, budget, deadline)
    msigs = model_signatures(ctx, base, transcription, state["observed"])
    return conformance_compare(ctx, state, msigs, transcription, corrupt)


def conformance_runs(ctx, chk, emit_jobs, transcription, base, rng, budget, deadline=None, extra=()):
    """Scripts enumerated by TLC are run on the real code under many histories; TLC then computes the
    model signature for exactly the observed counter shifts; per script, the partition of the runs by
    real signature must be the partition by model signature."""
    by_script = emitted_scripts(ctx, emit_jobs)
    differing = sorted((k for k, v in by_script.items() if len(set(v["offs"].values())) > 1), key=lambda k: (len(k), k))
    ctx.cov["model_scripts_with_history_dependent_signature"] = len(differing)
    dset = set(differing)
    same = sorted(k for k in by_script if k not in dset)
    rng.shuffle(same)
    half = budget // 2
    chosen = differing[:half] if len(differing) <= half else differing[: half // 2] + rng.sample(differing[half // 2 :], half - half // 2)
    chosen += same[: budget - len(chosen)]
    progs = [{"kind": "script", "script": by_script[k]["script"]} for k in chosen]
    seeds = hash_seeds(ctx)
    chains = []
    G = 6
    for k in range(0, len(progs), G):
        grp = progs[k : k + G]
        chains.append({"seed": seeds[len(chains) % len(seeds)], "steps": interleave([chain_standard(p, "tlc-emitted")[:1] + chain_positions(p, "tlc-emitted", measure(p), base, j=n, only=n) + chain_phased(p, "tlc-emitted", rng, base) for n, p in enumerate(grp)])})
    t1 = time.time()
    # the first group (scripts with model-predicted differences) always runs; `extra`: chains of
    # another part that share this round of interpreters (their cases are returned as "others")
    chains[0]["must"] = True
    cases = chk.run_chains(chains[:1] + list(extra) + chains[1:], deadline)
    others = {k: cases.pop(k) for k in [k for k, c in cases.items() if c.source != "tlc-emitted"]}
    t2 = time.time()
    observed, index = [], []
    for key, case in sorted(cases.items()):
        if not all(r.ok for r in case.runs):
            raise MachineryError(f"emitted script {show_prog(case.prog)} does not build in the real ufl: {[r.res.get('error') for r in case.runs if not r.ok]}")
        chk.judge(case)
        seen = set()
        for r in case.runs:
            e5 = tuple(r.eff[k] for k in KINDS5)
            if (e5, r.sig("form")) in seen:
                continue
            seen.add((e5, r.sig("form")))
            observed.append((case.prog["script"], r.eff))
            index.append((key, r))
    if not observed:
        raise MachineryError("conformance: no emitted script was run")
    print(f"  conformance: {len(cases)} TLC-enumerated scripts, {sum(len(c.runs) for c in cases.values())} runs in {t2 - t1:.1f}s", flush=True)
    return {"observed": observed, "index": index, "cases": cases, "others": others}


def conformance_compare(ctx, state, msigs, transcription, corrupt=False):
    observed, index, cases = state["observed"], state["index"], state["cases"]
    if corrupt:  # selftest: pretend the model distinguishes every run
        msigs = [m + str(n) for n, m in enumerate(msigs)]
    per = {}
    for (key, r), m in zip(index, msigs):
        per.setdefault(key, []).append((r, m))
    unexplained = 0
    for key, rows in per.items():
        ctx.traces(len(rows))
        for x in range(len(rows)):
            for y in range(x + 1, len(rows)):
                ctx.evaluated()
                m_eq = rows[x][1] == rows[y][1]
                r_eq = rows[x][0].sig("form") == rows[y][0].sig("form")
                if m_eq and not r_eq:
                    unexplained += 1
                elif r_eq and not m_eq:
                    raise MachineryError(
                        f"conformance: SigCounters.tla (transcription {transcription}) gives different signatures for "
                        f"{show_prog(cases[key].prog)} after histories {off_str(rows[x][0].eff)} and {off_str(rows[y][0].eff)}, the real signatures are "
                        "equal: the transcription does not match the code under test"
                    )
    ctx.count("real_dependence_not_explained_by_model", unexplained)
    ctx.cov["conformance_scripts"] = len(per)
    ctx.cov["conformance_runs_validated_by_tlc"] = len(observed)
    ctx.cov["conformance_scripts_with_history_dependent_real_signature"] = sum(1 for rows in per.values() if len({r.sig("form") for r, _ in rows}) > 1)
    k0 = sorted(per)[0]
    ctx.sample({"kind": "tlc-emitted script", "script": show_prog(cases[k0].prog), "histories": [off_str(r.eff) for r, _ in per[k0][:5]], "model_signature_classes": len({m for _, m in per[k0]})})
    return unexplained


def hash_seeds(ctx):
    r = random.Random(7919 * ctx.seed + 12)
    extra = [str(r.randrange(2, 2**32 - 1)) for _ in range(1 if ctx.tier == "quick" else 6)]
    return ["0", "1"] + extra


def interleave(lists):
    """Steps of several programs, level by level, rotating who goes first."""
    out = []
    g = len(lists)
    for level in range(max(len(x) for x in lists)):
        for k in range(g):
            x = lists[(k + level) % g]
            if level < len(x):
                out.append(x[level])
    return out


def corpus_chains(ctx, base, rng):
    """Chains in priority order.  Recipes run alone in their interpreter (so that the digit
    boundaries can be placed exactly); scripts share an interpreter in groups (starting an
    interpreter costs much more than a step)."""
    quick = ctx.tier == "quick"
    seeds = hash_seeds(ctx)
    chains = []

    def add(steps, must=False):
        chains.append({"seed": seeds[len(chains) % len(seeds)], "steps": steps, "must": must})

    def add_groups(progs, G, maker):
        for k in range(0, len(progs), G):
            add(interleave([maker(p, n) for n, p in enumerate(progs[k : k + G])]))

    recipes = [{"kind": "recipe", "name": name} for name in RECIPES]
    made = {}
    for p in recipes:
        made[prog_key(p)] = measure(p)
        if made[prog_key(p)] is None:
            raise MachineryError(f"recipe {p['name']} does not build")
    zero_step = lambda p, src: [{"program": p, "source": src, "targets": dict(ZERO)}]  # noqa: E731
    for k in range(0, len(recipes), 4):
        add(chain_placed_group(recipes[k : k + 4], "recipe", made, base, j=0, rot=0), must=True)
    want = 48 if quick else 480
    seen = set()
    scripts = []
    tries = dropped = 0
    while len(scripts) < want and tries < want * 20:
        tries += 1
        sc = gen_script(rng)
        if sc is None:
            continue
        k = json.dumps(sc, sort_keys=True)
        if k in seen:
            continue
        seen.add(k)
        p = {"kind": "script", "script": sc}
        made[prog_key(p)] = measure(p)
        if made[prog_key(p)] is None:
            dropped += 1  # ufl rejects the script (the typing of the generator is approximate)
            continue
        scripts.append(p)
    ctx.cov["random_scripts_rejected_by_ufl"] = dropped
    pos = lambda p, src, j, only: chain_positions(p, src, made[prog_key(p)], base, j=j, only=only)  # noqa: E731
    if quick:
        add_groups(recipes, 9, lambda p, n: chain_standard(p, "recipe") + chain_phased(p, "recipe", rng, base))
        add_groups(scripts, 6, lambda p, n: zero_step(p, "random-script") + pos(p, "random-script", n, n) + chain_phased(p, "random-script", rng, base))
    else:
        first = len(chains)
        for j in range(8):
            for rot in range(4):
                if (j, rot) != (0, 0):
                    for k in range(0, len(recipes), 4):
                        add(chain_placed_group(recipes[k : k + 4], "recipe", made, base, j=j, rot=rot))
        add_groups(recipes[::-1], 8, lambda p, n: chain_random(p, "recipe", rng))
        add_groups(recipes, 8, lambda p, n: chain_standard(p, "recipe") + chain_phased(p, "recipe", rng, base))
        for k in KINDS:
            add_groups(recipes, 8, lambda p, n, k=k: chain_single(p, "recipe", k))
        mid = len(chains)
        add_groups(scripts, 6, lambda p, n: zero_step(p, "random-script") + pos(p, "random-script", n, n) + chain_phased(p, "random-script", rng, base))
        add_groups(scripts[::-1], 6, lambda p, n: pos(p, "random-script", n + 3, n + 2) + chain_random(p, "random-script", rng))
        add_groups(scripts, 12, lambda p, n: chain_standard(p, "random-script"))
        # recipes and scripts alternate, so that a time budget cuts both proportionally
        a, b = chains[first:mid], chains[mid:]
        mixed = []
        while a or b:
            mixed += a[:1] + b[:1]
            a, b = a[1:], b[1:]
        chains[first:] = mixed
    return chains


def corpus_part(ctx, chk, base, rng, deadline):
    chains = corpus_chains(ctx, base, rng)
    ctx.cov["corpus_chains_planned"] = len(chains)
    t1 = time.time()
    # one pool for all chains: those marked `must` (recipes placed at the digit boundaries) come first
    # and ignore the deadline (runs of one program in several chains are merged by run_chains)
    cases = chk.run_chains([c for c in chains if c.get("must")] + [c for c in chains if not c.get("must")], deadline)
    print(f"  corpus: {len(chains) - ctx.cov.get('chains_not_run_deadline', 0)} of {len(chains)} processes ({sum(len(c.runs) for c in cases.values())} runs of {len(cases)} programs) in {time.time() - t1:.1f}s", flush=True)
    stats = {"programs": 0, "invalid_random_scripts": 0, "runs": 0, "programs_with_discrepancy": 0}
    for key, case in cases.items():
        st = chk.judge(case)
        if st == "invalid":
            if case.source == "recipe":
                r = case.runs[0].res
                raise MachineryError(f"recipe {case.prog['name']} does not build: {r.get('error')}\n{r.get('tb', '')}")
            stats["invalid_random_scripts"] += 1
            continue
        stats["programs"] += 1
        stats["runs"] += len(case.runs)
        stats["programs_with_discrepancy"] += st == "differs"
        ctx.count("programs_" + case.source.replace("-", "_"))
    ctx.cov["corpus"] = stats
    ctx.cov["hash_seeds"] = hash_seeds(ctx)
    if stats["programs"] < len(RECIPES):
        raise MachineryError("vacuous: fewer programs compared than recipes exist")
    ok_scripts = [c for c in cases.values() if c.source == "random-script" and any(r.ok for r in c.runs)]
    if ok_scripts:
        c = ok_scripts[0]
        ctx.sample({"kind": "random script", "script": show_prog(c.prog), "histories": [off_str(r.eff) for r in c.runs[:6]], "seeds": sorted({r.seed for r in c.runs})})
    c = cases[prog_key({"kind": "recipe", "name": "measures"})]
    ctx.sample({"kind": "recipe", "name": "measures", "runs": len(c.runs), "histories": [off_str(r.eff) for r in c.runs[:4]], "signature": c.runs[0].sig("form")[:16]})
    return stats


def run(ctx, args):
    if getattr(args, "selftest", False):
        return selftest(ctx)
    from concurrent.futures import ThreadPoolExecutor

    quick = ctx.tier == "quick"
    t0 = time.time()
    ctx.rule = (
        "a case is one run of one build program (a hand written recipe, a seeded random script, or a script enumerated by TLC from "
        "SigCounters.tla) in a fresh interpreter started with a given PYTHONHASHSEED, after a prior history that "
        "shifted the global counters (Index, Coefficient, Constant, Label, Mesh ufl_id, BaseFormOperator) by a recorded vector (object creation "
        "by the harness and by the earlier steps of the same process); observables: form.signature(), the signature after renumber_indices, "
        "compute_expression_signature of bare expressions; all observables of one program must be identical over all its runs; for TLC-"
        "enumerated scripts TLC computes the model signature at exactly the observed counters and the partitions must agree; "
        "cross family (constants on two meshes in every creation order, coefficients on a MeshSequence space): every TLC-enumerated placement of "
        "digit boundaries inside the objects of all counted classes at once is replayed with explicit numbering (ufl_id= / count= constructor "
        "arguments standing for the counters) and a sample with real histories, and compared with the model signature TLC printed for it; "
        "the same for the domains family (forms over three meshes with terminals on the two meshes that are not the integration domain, Mesh "
        "counter placed / shifted) and the contraction family (subscripts that sum one or two indices of expressions with free indices, grad, "
        "Index counter placed / shifted); "
        "non-trivial = non-zero shift or hash seed != 0; distinct = (program, effective shift vector, hash seed)"
    )
    ctx.assume("creation order inside a program is the same in every run; only the starting values of the counters, the hash seed and the process differ")
    ctx.assume("prior histories create and drop objects of the counted classes through the public constructors (coefficients on a space without mesh, constants on a user-defined domain, so that each counter can be shifted independently) or are earlier steps of the same process; the effective shift is read back from the counters (itertools.count copy / Mesh._ufl_global_id, read-only)")
    ctx.assume("forms with terminals of a second mesh in the integrand are valid input (multi-domain forms)")
    ctx.assume("a form whose integrand has terminals on two meshes other than its integration domain is valid input; a MeshSequence coefficient is integrated over one of its component meshes")
    ctx.assume("index notation: a[i, j] / a.dx(i, j) = grad(grad(a))[i, j] where i, j are free indices of a, and a[i, i], are valid input (implicit summation); grad is applied to expressions with a P1 / P2 coefficient (not cellwise constant)")
    ctx.assume("SigCounters.tla models trees without shared sub-objects (cmp_expr as a function; its loop is bound by C29/Ordering.tla) and scalar/vector P1 spaces on triangles")
    ctx.assume("finite elements: vf/elements.py (adapted from the repository's test/utils.py)")
    ctx.assume("runs with explicit numbering pass the numbers the global counters would give to the public constructors (Mesh(ufl_id=), Constant/Coefficient/Index/Label(count=)) for every counted object of the script; a deviation found that way is reported only when fresh interpreters with the corresponding real histories reproduce it, otherwise it is counted and not judged")
    ctx.assume("a mixed function space over a MeshSequence of two distinct meshes (MixedElement with a CellSequence, as in test/test_mixed_function_space_with_mesh_sequence.py) with components integrated over one component mesh is valid input")
    pool = Pool()
    chk = Checker(ctx, pool)
    # the import-time counters (= Base of the model): this process has only imported ufl so far;
    # every interpreter of the pool must report the same values (Pool.check_hello)
    import ufl  # noqa: F401

    base = pool.base = read_counters()
    ctx.cov["import_time_counters"] = base
    ctx.cov["ufl_under_test"] = os.path.dirname(os.path.realpath(ufl.__file__))
    intended, emit, coded, transcription = plan_models(ctx)
    placed = plan_placed(ctx, transcription, 2 if quick else 4)
    intended += [f.intended for f in placed if f.intended is not None]
    rng = random.Random(1000003 * ctx.seed + (1 if quick else 2))
    ex = ThreadPoolExecutor(max_workers=5 if quick else 2)  # quick: 5 TLC x 2 workers (9 runs: two rounds), thorough: 2 TLC x 4 workers
    try:
        order = [f.emit for f in placed] + emit + coded + intended
        futs = {id(j): ex.submit(j.run, base) for j in order}
        # (c) the property on the corpus, while TLC runs
        # (d) terminals that embed several counters, placement histories of all counters at once:
        # the interpreters share the pool with those of the corpus
        corpus_part(ctx, chk, base, rng, t0 + (22 if quick else 360))
        print(f"  [{time.time() - t0:.0f}s] corpus judged", flush=True)
        # (b) conformance of the transcription that matches the code under test; (d) the placements of
        # the cross family (terminals that embed several counters, all counters placed at once) run
        # in the same round of interpreters as the first group of (b)
        for j in [f.emit for f in placed] + emit:
            futs[id(j)].result()
        for n, f in enumerate(placed):
            f.state = cross_chains(ctx, f, random.Random(7368787 * ctx.seed + (3 if quick else 4) + 10 * n))
        state = conformance_runs(ctx, chk, emit, transcription, base, rng, 40 if quick else 900, t0 + (32 if quick else 480), extra=[c for f in placed for c in f.state["chains"]])
        for f in placed:
            cross_judge(ctx, chk, f, f.state, {k: c for k, c in state["others"].items() if c.prog.get("family") == f.name}, transcription)
        msig_future = ex.submit(model_signatures, ctx, base, transcription, state["observed"])  # TLC validates the recorded runs
        print(f"  [{time.time() - t0:.0f}s] conformance runs done", flush=True)
        # (a) counterexamples of the machine as coded, replayed; the intended machine holds
        for j in coded:
            futs[id(j)].result()
        ctx.cov["as_coded_models"] = replay_coded(ctx, chk, coded)
        chk.settle(1 if quick else 2)
        print(f"  [{time.time() - t0:.0f}s] discrepancies reproduced in fresh processes", flush=True)
        conformance_compare(ctx, state, msig_future.result(), transcription)
        print(f"  [{time.time() - t0:.0f}s] TLC validated {len(state['observed'])} recorded runs", flush=True)
        for j in intended:
            futs[id(j)].result()
            check_intended(ctx, j)
    finally:
        ex.shutdown(wait=True, cancel_futures=True)
    ctx.cov["discrepancies_by_mechanism"] = chk.mech
    ctx.cov["fresh_interpreters"] = pool.forks
    ctx.cov["distinct_hash_functions_observed"] = len({h[1] for h in pool.hellos})
    ctx.cov["exhaustive"] = False
    if ctx.cov.get("chains_not_run_deadline"):
        print(f"  note: {ctx.cov['chains_not_run_deadline']} processes not run (time budget)", flush=True)


# ---- replay / selftest -------------------------------------------------------------------------------


def replay(ctx, doc):
    r = doc["replay"]
    pool = Pool()
    chains = [{"seed": c["seed"], "steps": c["steps"]} for c in r["chains"]]
    res = pool.run(chains)
    obs = []
    nm = r.get("output")
    for c, x in zip(r["chains"], res):
        st = x["steps"][c.get("observe", len(c["steps"]) - 1)] if x.get("steps") else x
        obs.append(st)
        print(f"replay: {show_prog(r['program'])}  PYTHONHASHSEED={c['seed']}  history={off_str(st.get('eff') or {})}  ->  ", end="")
        if st.get("ok"):
            print({k: v[:16] for k, v in st["sigs"].items() if nm is None or k == nm})
        else:
            print("ERROR", st.get("error"))
    oks = [o for o in obs if o.get("ok")]
    differ = len(oks) != len(obs) or any((o["sigs"] != oks[0]["sigs"]) if nm is None else (o["sigs"][nm] != oks[0]["sigs"][nm]) for o in oks)
    if differ:
        ctx.n_viol += 1
        print(f"  DIFFERENT signatures for the same program [{doc.get('fingerprint')}]")
    else:
        print("  all signatures identical")


class _Probe:
    """Ctx stand-in for the selftest: records violations instead of reporting them."""

    def __init__(self, ctx):
        self.tier, self.seed, self.cov = ctx.tier, ctx.seed, {}
        self.v = []

    def violation(self, fp, what, rep, detail=None):
        self.v.append(fp)

    def evaluated(self, n=1):
        pass

    def traces(self, n=1):
        pass

    def distinct(self, k):
        pass

    def count(self, k, n=1):
        pass

    def sample(self, o, limit=5):
        pass

    def add_tlc(self, res):
        pass


def selftest(ctx):
    """The comparison must reject (1) a recipe whose creation order depends on the history, (2) a
    corrupted signature, (3) a corrupted model prediction, (4) a corrupted model prediction for a
    placement of the cross family; and must accept the uncorrupted inputs."""
    pool = Pool()
    # 1. order-dependent recipe must be flagged
    p = _Probe(ctx)
    chk = Checker(p, pool)
    prog = {"kind": "selftest-order-dependent"}
    cases = chk.run_chains([{"seed": "0", "steps": chain_single(prog, "selftest", "Constant")[:5]}])
    (case,) = cases.values()
    if chk.judge(case) != "differs":
        raise MachineryError("selftest: a recipe whose creation order depends on the history was not flagged")
    chk.settle(1)
    if not p.v:
        raise MachineryError("selftest: the order-dependent recipe was not reported")
    print("selftest 1: order-dependent recipe flagged as", sorted(set(p.v)), flush=True)
    # 2. a corrupted signature is rejected
    p = _Probe(ctx)
    chk = Checker(p, pool)
    prog = {"kind": "recipe", "name": "grad_div_operators"}
    cases = chk.run_chains([{"seed": "1", "steps": chain_standard(prog, "selftest")[:3]}])
    (case,) = cases.values()
    clean = chk.judge(case)
    chk.pending, chk.direct = {}, []
    case.runs[2].res["sigs"]["form"] = "0" * 128
    if chk.judge(case) != "differs":
        raise MachineryError("selftest: a corrupted signature was accepted")
    chk.settle(1)  # fresh processes cannot reproduce a fabricated deviation
    if clean == "ok" and not any("process-state" in f for f in p.v):
        raise MachineryError(f"selftest: fabricated deviation reported as {p.v}")
    print("selftest 2: corrupted signature rejected", sorted(set(p.v)), flush=True)
    # 3. a corrupted model prediction is rejected by the conformance comparison
    base = pool.base
    cmp_of, zerosig = probe_transcription()
    comparator = cmp_of["const"] if len(set(cmp_of.values())) == 1 else "mixed"
    tr = (comparator, cmp_of, zerosig)
    j = Job("selftest emit", FAM_CONST, comparator, zerosig, 1, 4, emit=True, cmp_of=cmp_of, workers=2).run(base)
    p = _Probe(ctx)
    chk = Checker(p, pool)
    conformance(p, chk, [j], tr, base, random.Random(5), 8)  # clean: must not raise
    try:
        conformance(p, chk, [j], tr, base, random.Random(5), 8, corrupt=True)
        raise MachineryError("selftest: a corrupted model prediction was accepted")
    except MachineryError as e:
        if "does not match the code under test" not in str(e):
            raise
    print("selftest 3: corrupted model prediction rejected", flush=True)
    # 4. the same for the placements of the cross family (explicit numbering and real histories)
    (fam,) = plan_placed(p, tr, 2, only=("cross",))
    fam.emit.run(base)
    p = _Probe(ctx)
    chk = Checker(p, pool)
    cross_part(p, chk, fam, tr, base, random.Random(5))  # clean: must not raise
    try:
        cross_part(p, chk, fam, tr, base, random.Random(5), corrupt=True)
        raise MachineryError("selftest: a corrupted model prediction for a placement was accepted")
    except MachineryError as e:
        if "does not match the code under test" not in str(e):
            raise
    print("selftest 4: corrupted model prediction for a placement rejected", flush=True)
    ctx.evaluated(4)
    ctx.distinct("selftest-1")
    ctx.distinct("selftest-2")
    ctx.distinct("selftest-4")
    ctx.rule = "selftest"
    ctx.sample({"selftest": "order-dependent recipe flagged, corrupted signature rejected, corrupted model prediction rejected"})
    print("SELFTEST-OK", flush=True)


def main(argv=None):
    argv = sys.argv[1:] if argv is None else argv
    if "--worker" in argv:
        return worker_main()
    main_wrapper("C12", run, argv)


if __name__ == "__main__":
    main()
