"""C21 — replace substitutes exactly the mapped subexpressions.

UFLBuild's action `replace` denotes the operand evaluated where the mapped terminal takes the value
of its image (environments are built in pairs so that this is a table lookup in the spec).  TLC
enumerates expressions followed by replace for several maps (terminal -> terminal, -> scaled
terminal, -> sum, -> product, self-referential f -> 2 f, -> a number, -> a zero tensor); the replay calls ufl.replace and compares
value, shape and free indices.  In addition: an expression without the mapped terminal must come
back as the same object, and shape-changing maps must be refused.
"""

from __future__ import annotations

import os

from ..builder import LIT, Slice, replay_doc, run_slices
from ..common import main_wrapper

F, G, H = ("f", ()), ("g", ()), ("h", ())
U, V, W = ("u", (2,)), ("v", (2,)), ("w", (2,))
A, B = ("A", (2, 2)), ("B", (2, 2))
RP = {"replace"}

MAPS = [("f", ("term", "g")), ("f", ("scale", 2, "g")), ("f", ("sum", "g", "h")), ("f", ("scale", 3, "f")), ("u", ("term", "v")), ("u", ("sum", "v", "w")), ("u", ("prod", "g", "v")), ("A", ("term", "B")),
        ("f", ("const", 0)), ("f", ("const", 2)), ("u", ("const", 0)), ("u", ("const", 3)), ("A", ("const", 0))]


def _maps(terms):
    names = {n for n, _ in terms}
    return [(s, i) for s, i in MAPS if s in names and all(x in names for x in i[1:] if isinstance(x, str))]


def slices(tier):
    out = _slices(tier)
    for sl in out:
        sl.repl_closure = sl.name == "replace-twice"  # environments p(q(e)) for two replace actions in one program
        if not sl.jets:
            sl.replacements = _maps(sl.terminals)
    return out


def _slices(tier):
    q = tier == "quick"
    kw = dict(finalops=RP, only_final=True, tiny=True, replacements=MAPS, nenv=1)
    E1 = {"add", "mul", "div", "index", "dot", "inner", "outer", "abs", "variable", "list", "lt", "neg", "pow", "transpose", "det"}
    E2 = {"add", "mul", "index", "cond", "as_tensor", "inner", "dot", "variable", "max"}
    out = [
        Slice("r1", [F, G, H, U, V, W, A, B], E1, 2, idx=(10,), lits=[LIT["two"]], levels=[E1, RP], mikinds=("name", "fixed"), **kw),
        Slice("r2", [F, G, U, V], E1, 3, idx=(10,), levels=[{"mul", "index", "dot", "abs", "variable", "lt"}, {"add", "mul", "cond", "inner", "as_tensor", "variable"}, RP], mikinds=("name", "fixed"), **kw),
        Slice("deep", [F, G, H, U, V, W, A, B], E1 | E2, 6, idx=(10, 11), lits=[LIT["two"]], finalops=RP, tiny=True, replacements=MAPS, nenv=1, simulate=8 if q else 200, depth=7),
    ]
    # replace applied to a derivative that has not been expanded yet, with images that contain the differentiation
    # variable: the derivative is taken first (f independent of w), then f takes the value of its image
    gj = dict(mode="gateaux", seeds={"w": ("dv", None)}, opts={"dv": {"kind": "arg0"}}, gateaux=[("w", "dv")])
    out.append(Slice("under-derivative", [("w", ()), ("dv", ()), F, G], {"mul", "add", "pow"}, 4, lits=[LIT["two"]], jets=gj, nenv=1, tiny=True,
                     levels=[{"mul", "add", "pow"}, {"gateaux1"}, RP, {"expand_derivatives"}], finalops={"expand_derivatives"}, only_final=True, chain="strict",
                     replacements=[("f", ("term", "w")), ("f", ("prod", "g", "w")), ("f", ("sum", "g", "w")), ("g", ("term", "f"))]))
    # replace applied to the RESULT of an earlier replace combined with the original: two variables that share a label
    # but wrap different expressions (variable(f) and its image under f -> g) meet in one expression
    out.append(Slice("replace-twice", [F, G], {"variable", "abs", "mul", "add"}, 6, nenv=1, tiny=True,
                     levels=[{"variable"}, {"abs", "mul"}, RP, {"add", "mul"}, RP, {"point_eval"}], finalops={"point_eval"}, only_final=True, chain="semi",
                     replacements=[("f", ("term", "g")), ("g", ("scale", 2, "f"))]))
    if not q:
        out += [
            Slice("r2-mid", [F, G, H, U, V, W], E1, 3, idx=(10,), levels=[{"mul", "index", "dot", "abs", "variable", "lt", "add"}, E2, RP], mikinds=("name", "fixed"), **kw),
            Slice("r3", [F, G, U, V], E1, 4, idx=(10,), levels=[{"mul", "index", "abs", "variable", "add"}, {"mul", "add", "index", "dot", "variable"}, E2, RP], mikinds=("name", "fixed"), simulate=2000, depth=6, **kw),
            Slice("r2-wide", [F, G, H, U, V, W, A, B], E1, 3, idx=(10, 11), lits=[LIT["two"]], levels=[E1, E2, RP], simulate=2000, depth=6, **kw),
        ]
    return out


def post(ctx, rec, obj, w):
    """replace on an expression that does not contain the mapped terminal returns the same object."""
    from ufl.corealg.traversal import unique_pre_traversal

    from .. import replay as R

    last = rec["prog"][-1]
    if last["op"] != "replace":
        return None
    objs, _ = R.build(w, rec["prog"])
    src_obj = w.terms[w.replmaps[last["mi"][0] - 1]["src"] - 1]
    n0 = len(w.init)
    arg = (w.init + objs)[last["args"][0] - 1]
    contains = any(t is src_obj for t in unique_pre_traversal(arg))
    ctx.evaluated()
    if not contains and not (obj == arg and repr(obj) == repr(arg)):
        return ("unmapped-expression-changed", "replace returned a different expression although the input does not contain the mapped terminal")
    return None


def shape_changing(ctx):
    """Shape-changing mappings must be refused."""
    import ufl

    from .. import replay as R
    from ..envs import Pool

    P3, M23, M32 = ("p", (3,)), ("M", (2, 3)), ("N", (3, 2))
    pool = Pool([F, U, A, P3, M23, M32], nenv=1, seed=ctx.seed)
    w = R.World(pool, [], [], [10])
    f, u, A_, p3, m23, m32 = w.terms
    exprs = [f * f, u[0] * f, ufl.dot(u, u), ufl.det(A_) + f, ufl.inner(A_, A_), abs(f) * u, ufl.dot(p3, p3) * f, ufl.inner(m23, m23) + ufl.dot(u, ufl.dot(m23, p3))]
    srcs = (f, u, A_, p3, m23)
    imgs = (f, u, A_, ufl.as_vector([f, f]), f * u, p3, m23, m32, ufl.as_vector([f, f, f]), ufl.zero(3), ufl.zero(2, 3), ufl.Constant(w.mesh, shape=(3,)), 2 * p3, ufl.outer(u, p3), ufl.outer(p3, u))
    n = 0
    for e in exprs:
        for src in srcs:
            for img in imgs:
                if img.ufl_shape == src.ufl_shape:
                    continue
                n += 1
                ctx.evaluated()
                try:
                    r = ufl.replace(e, {src: img})
                except Exception:  # noqa: BLE001 - refusal is what the property demands
                    ctx.count("shape_changing_maps_refused")
                    continue
                ctx.violation(
                    f"C21:shape-changing-map-accepted:{'x'.join(map(str, src.ufl_shape)) or 's'}->{'x'.join(map(str, img.ufl_shape)) or 's'}",
                    f"replace({e!s}, {{{src!s}: {img!s}}}) was accepted although the shapes differ ({src.ufl_shape} vs {img.ufl_shape})",
                    {"kind": "shape-changing", "expr": str(e), "src": str(src), "img": str(img)},
                )
    ctx.count("shape_changing_maps_tried", n)


def run(ctx, args):
    ctx.rule = (
        "TLC enumerates programs level by level ending in replace with one of 8 maps; every program is replayed "
        "through ufl.replace and value/shape/free indices compared; case = (program, map); non-trivial = the "
        "expression contains the mapped terminal and the predicted value is defined"
    )
    ctx.assume("images are terminals, scaled terminals, sums and products of terminals (their values are tabulated in the paired environments); replacement under spatial/Gateaux derivatives is covered with the derivative checks")
    only = os.environ.get("VERIF_SLICES")
    sls = [sl for sl in slices(ctx.tier) if not only or sl.name in only.split(",")]
    run_slices(ctx, sls, "C21", post=post)
    shape_changing(ctx)


def replay(ctx, doc):
    if doc["replay"].get("kind") == "shape-changing":
        shape_changing(ctx)
        return
    replay_doc(ctx, doc, "C21")


def main(argv=None):
    main_wrapper("C21", run, argv)
